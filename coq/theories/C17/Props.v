(* C17 — property theorems: losses vanish at identity, are non-negative, and do not depend on call history.
   The closed-form losses are stated on pixel lists of any length over R; the traced odak code is proved
   equal to them on every run (coq/tie/C17_Tie*.v).  The caching losses are state machines with free
   (uninterpreted) statistics and a heap of gaze lists / tensors; the harness runs them inside Coq on the
   call histories the implementation is run on. *)
From Coq Require Import Reals List ZArith Bool QArith.
From OdakV Require Import C17.Model C17.Lemmas.
Import ListNotations.

(* ---- sums of MSE / L1 terms *)
Theorem C17_mse_nonneg : forall l, (0 <= mse l)%R.
Proof. exact mse_nonneg. Qed.
Theorem C17_mse_zero_iff : forall l, l <> [] -> (mse l = 0%R <-> Forall (fun p => fst p = snd p) l).
Proof. exact mse_zero_iff. Qed.
Theorem C17_multiplane_nonneg : forall w0 w1 w2 px mpx, (0 <= w0 -> 0 <= w1 -> 0 <= w2 -> 0 <= mp_loss w0 w1 w2 px mpx)%R.
Proof. exact mp_nonneg. Qed.
Theorem C17_multiplane_zero : forall w0 w1 w2 px mpx,
  Forall (fun p => fst p = snd p) px -> Forall (fun q => fst (fst q) = snd (fst q)) mpx -> mp_loss w0 w1 w2 px mpx = 0%R.
Proof. exact mp_zero. Qed.
Theorem C17_perceptual_multiplane_nonneg : forall w0 w1 w2 v0 v1 v2 px mpx,
  (0 <= w0 -> 0 <= w1 -> 0 <= w2 -> 0 <= v0 -> 0 <= v1 -> 0 <= v2 -> 0 <= pmp_loss w0 w1 w2 v0 v1 v2 px mpx)%R.
Proof. exact pmp_nonneg. Qed.
Theorem C17_perceptual_multiplane_zero : forall w0 w1 w2 v0 v1 v2 px mpx,
  Forall (fun p => fst p = snd p) px -> Forall (fun q => fst (fst q) = snd (fst q)) mpx -> pmp_loss w0 w1 w2 v0 v1 v2 px mpx = 0%R.
Proof. exact pmp_zero. Qed.

(* ---- wrapped phase error: non-negative, zero at identity, 2 pi periodic in every pixel of both arguments *)
Theorem C17_wmse_nonneg : forall l, (0 <= wmse_mean l)%R.
Proof. exact wmse_mean_nonneg. Qed.
Theorem C17_wmse_sum_nonneg : forall l, (0 <= wmse_sum l)%R.
Proof. exact wmse_sum_nonneg. Qed.
Theorem C17_wmse_zero : forall l, Forall (fun p => fst p = snd p) l -> wmse_mean l = 0%R.
Proof. exact wmse_mean_zero. Qed.
Theorem C17_wmse_sum_zero : forall l, Forall (fun p => fst p = snd p) l -> wmse_sum l = 0%R.
Proof. exact wmse_sum_zero. Qed.
Theorem C17_wmse_closed : forall l, wmse_mean l = rmean (map (fun p => 2 - 2 * cos (fst p - snd p))%R l).
Proof. exact wmse_mean_closed. Qed.
Theorem C17_wmse_term_periodic : forall a b j k, wterm (a + 2 * IZR j * PI) (b + 2 * IZR k * PI) = wterm a b.
Proof. exact wterm_periodic. Qed.
Theorem C17_wmse_periodic : forall l, wmse_mean (map wshift l) = wmse_mean (map (fun q => fst q) l).
Proof. exact wmse_mean_periodic. Qed.
Theorem C17_wmse_sum_periodic : forall l, wmse_sum (map wshift l) = wmse_sum (map (fun q => fst q) l).
Proof. exact wmse_sum_periodic. Qed.

(* ---- total variation *)
Theorem C17_tv_nonneg : forall frame, (0 <= tv frame)%R.
Proof. exact tv_nonneg. Qed.
Theorem C17_tv_uniform : forall frame, Forall (fun img => exists c, uniform_img c img) frame -> tv frame = 0%R.
Proof. exact tv_uniform. Qed.

Theorem C17_ms_tv_nonneg : forall levels, (0 <= ms_tv levels)%R.
Proof. exact ms_tv_nonneg. Qed.
Theorem C17_ms_tv_uniform : forall levels, Forall (Forall (fun img => exists c, uniform_img c img)) levels -> ms_tv levels = 0%R.
Proof. exact ms_tv_uniform. Qed.

(* ---- PSNR grows as the error shrinks *)
Theorem C17_psnr_antitone : forall peak m1 m2, (0 < peak -> 0 < m1 -> m1 < m2 -> psnr peak m2 < psnr peak m1)%R.
Proof. exact psnr_antitone. Qed.

(* ---- speckle contrast (intensity windows of non-zero mean) *)
Theorem C17_speckle_nonneg : forall ws, (0 <= speckle_loss ws)%R.
Proof. exact speckle_loss_nonneg. Qed.
(* uniform windows of NON-ZERO intensity (sigma / mean is 0 / 0 on a dark window: see C17_speckle_finite_refuted) *)
Theorem C17_speckle_uniform : forall ws, Forall (fun w => w <> [] /\ exists c, c <> 0%R /\ Forall (eq c) w) ws -> speckle_loss ws = 0%R.
Proof. exact speckle_loss_uniform. Qed.
Theorem C17_speckle_uniform_window : forall c w, w <> [] -> c <> 0%R -> Forall (eq c) w -> speckle_defined w /\ speckle_c w = 0%R.
Proof. exact speckle_uniform. Qed.
(* "finite for all valid inputs" fails for speckle contrast: a dark window is a non-negative intensity outside the
   domain of sigma / mean (the code returns NaN; open finding C17-speckle-nan-dark-window) ... *)
Theorem C17_speckle_finite_refuted : exists w, w <> [] /\ Forall (fun x => 0 <= x)%R w /\ ~ speckle_defined w.
Proof. exact speckle_undefined_dark. Qed.
(* ... the strongest true statement: strictly positive intensities are inside it *)
Theorem C17_speckle_finite_partial : forall w, w <> [] -> Forall (fun x => 0 < x)%R w -> (0 < win_mean w)%R.
Proof. exact speckle_defined_pos. Qed.
Theorem C17_speckle_variance_nonneg : forall w, (0 <= win_var w)%R.
Proof. exact win_var_nonneg. Qed.
Theorem C17_speckle_clamp_noop : forall w, Rmax 0 (win_var w) = win_var w.
Proof. exact speckle_clamp_noop. Qed.

(* ---- phase gradient *)
Theorem C17_phase_gradient_nonneg : forall k ws, (0 <= pg_loss k ws)%R.
Proof. exact pg_nonneg. Qed.
Theorem C17_phase_gradient_zero : forall k ws, Forall (Forall (eq 0%R)) ws -> pg_loss k ws = 0%R.
Proof. exact pg_zero. Qed.
Theorem C17_phase_gradient_uniform_interior : forall c k ws,
  rsum k = 0%R -> Forall (fun w => length k = length w /\ Forall (eq c) w) ws -> pg_loss k ws = 0%R.
Proof. exact pg_uniform_interior. Qed.

(* ---- histogram loss *)
Theorem C17_hist_zero : forall bins lo hi f, (hist_loss bins lo hi f f == 0)%Q.
Proof. exact hist_zero. Qed.
Theorem C17_hist_nonneg : forall bins lo hi f g, (0 <= bins)%Z -> (0 <= hist_loss bins lo hi f g)%Q.
Proof. exact hist_nonneg. Qed.
Theorem C17_hist_bins_in_range : forall bins lo hi x i, (0 < bins)%Z -> (lo < hi)%Q -> bin_of bins lo hi x = Some i -> (0 <= i < bins)%Z.
Proof. exact bin_of_range. Qed.

(* ---- values of the gaze-contingent losses, under the contract that the pooled statistics, fovea mask, blur and
   metamer are deterministic functions (arbitrary ones): non-negative, zero at identity *)
Theorem C17_stats_loss_nonneg : forall a b, (0 <= stats_loss a b)%R.
Proof. exact stats_loss_nonneg. Qed.
Theorem C17_stats_loss_identity : forall a, stats_loss a a = 0%R.
Proof. exact stats_loss_refl. Qed.
Theorem C17_metameric_value_nonneg : forall Img Gz (pix : Img -> list R) (statsmaps : Img -> Gz -> list (list R)) (fovea : Gz -> list R) fw img tgt g,
  (0 <= fw)%R -> (0 <= met_value pix statsmaps fovea fw img tgt g)%R.
Proof. exact met_value_nonneg. Qed.
Theorem C17_metameric_value_identity : forall Img Gz (pix : Img -> list R) (statsmaps : Img -> Gz -> list (list R)) (fovea : Gz -> list R) fw img g,
  met_value pix statsmaps fovea fw img img g = 0%R.
Proof. exact met_value_identity. Qed.
Theorem C17_blur_lowpass_value_nonneg : forall Img Gz (blurf : Img -> Gz -> list R) img tgt g, (0 <= blur_lowpass_value blurf img tgt g)%R.
Proof. exact blur_lowpass_nonneg. Qed.
Theorem C17_blur_lowpass_value_identity : forall Img Gz (blurf : Img -> Gz -> list R) img g, blur_lowpass_value blurf img img g = 0%R.
Proof. exact blur_lowpass_identity. Qed.
Theorem C17_blur_match_value_nonneg : forall Img Gz (pix : Img -> list R) (blurf : Img -> Gz -> list R) img tgt g, (0 <= blur_match_value pix blurf img tgt g)%R.
Proof. exact blur_match_nonneg. Qed.
Theorem C17_metamer_mse_value_nonneg : forall Img Gz (pix : Img -> list R) (metam : Img -> Gz -> list R) img tgt g, (0 <= metamer_mse_value pix metam img tgt g)%R.
Proof. exact metamer_mse_nonneg. Qed.
Theorem C17_metamer_mse_value_zero : forall Img Gz (pix : Img -> list R) (metam : Img -> Gz -> list R) img tgt g,
  pix img = metam tgt g -> metamer_mse_value pix metam img tgt g = 0%R.
Proof. exact metamer_mse_zero. Qed.

(* ---- call history: a loss object returns what a fresh object returns, for every history of calls, gaze
   lists edited in place and tensors edited in place, IF AND ONLY IF the cache keys contain every argument
   the cached value depends on (held by value) AND the map is built from the arguments of the call (not from a
   flag remembered from the previous fill).  c0 is the configuration (alpha, width, distance, mode, equi) the
   loss object was constructed with; RadiallyVaryingBlur.blur takes it as an argument of every call. *)
Theorem C17_rvb_history_iff : forall d, sound_rvb d = true <-> history_independent (rvb_step d) blur_init.
Proof. exact rvb_iff. Qed.
Theorem C17_blur_history_iff : forall d, sound_blur d = true <-> forall c0, history_independent (blur_step d c0) blur_init.
Proof. exact blur_iff. Qed.
Theorem C17_metameric_history_iff : forall d, sound_met d = true <-> forall c0, history_independent (met_step d c0) met_init.
Proof. exact met_iff. Qed.
Theorem C17_metamer_mse_history_iff : forall d, sound_mse d = true <-> forall c0, history_independent (mse_step d c0) mse_init.
Proof. exact mse_iff. Qed.
Theorem C17_rvb_history_independent : history_independent (rvb_step repaired) blur_init.
Proof. exact (rvb_sound repaired eq_refl). Qed.
Theorem C17_blur_history_independent : forall c0, history_independent (blur_step repaired c0) blur_init.
Proof. exact (fun c0 => blur_sound repaired c0 eq_refl). Qed.
Theorem C17_metameric_history_independent : forall c0, history_independent (met_step repaired c0) met_init.
Proof. exact (fun c0 => met_sound repaired c0 eq_refl). Qed.
Theorem C17_metamer_mse_history_independent : forall c0, history_independent (mse_step repaired c0) mse_init.
Proof. exact (fun c0 => mse_sound repaired c0 eq_refl). Qed.
(* cache hits of the repaired discipline: reuse happens exactly when the stored key equals the call's arguments *)
Theorem C17_lod_hit_iff_key : forall e s sh c g, rvb_ok s ->
  (rvb_hit e s sh c g = true <-> s = Some (sh, c, GVal (gaze_at e g), Lod sh c (gaze_at e g))).
Proof. exact rvb_hit_iff_key. Qed.
Theorem C17_lod_miss_recomputes : forall d e s sh c g, cfg_arg d = true -> rvb_hit e s sh c g = false -> snd (rvb_lookup d e s sh c g) = Lod sh c (gaze_at e g).
Proof. exact rvb_miss_recomputes. Qed.
Theorem C17_metameric_reuse_iff_key : forall c0 e c kg st rvb i t g cf, c_shape (tensor_at e i) = c_shape (tensor_at e t) ->
  (nth 0 (met_events repaired c0 e (Some (c, kg, st), rvb) i t g cf) 1%Z = 0%Z <-> c = tensor_at e t /\ kg = gaze_at e g).
Proof. exact met_reuse_iff_key. Qed.
Theorem C17_metamer_mse_reuse_iff_key : forall c0 e c kg m rvb i t g cf, c_shape (tensor_at e i) = c_shape (tensor_at e t) ->
  (nth 0 (mse_events repaired c0 e (Some (TVal c, kg, m), rvb) i t g cf) 1%Z = 0%Z <-> c = tensor_at e t /\ kg = gaze_at e g).
Proof. exact mse_reuse_iff_key. Qed.
Theorem C17_metameric_fresh_descriptor : forall c0 e i t g c, c_shape (tensor_at e i) = c_shape (tensor_at e t) ->
  snd (met_step repaired c0 e met_init i t g c) =
  MetOut (tensor_at e i) (Lod (c_shape (tensor_at e t)) c0 (gaze_at e g)) (Stats (tensor_at e t) (Lod (c_shape (tensor_at e t)) c0 (gaze_at e g))).
Proof. exact repaired_met_fresh. Qed.
(* the discipline odak shipped with (target statistics keyed on target values only, metamer keyed on object
   identity, gaze list held by reference) is refuted by two calls *)
Theorem C17_legacy_metameric_refuted : exists e i t g g',
  run (met_step legacy 0) e met_init [Call i t g 0; Call i t g' 0] <> run_fresh (met_step legacy 0) met_init e [Call i t g 0; Call i t g' 0].
Proof. exact legacy_met_refuted. Qed.
Theorem C17_legacy_metamer_mse_refuted : exists e i t g g',
  run (mse_step legacy 0) e mse_init [Call i t g 0; Call i t g' 0] <> run_fresh (mse_step legacy 0) mse_init e [Call i t g 0; Call i t g' 0].
Proof. exact legacy_mse_refuted. Qed.
Theorem C17_legacy_blur_refuted : exists e i t g v,
  run (blur_step legacy 0) e blur_init [Call i t g 0; SetGaze g v; Call i t g 0] <> run_fresh (blur_step legacy 0) blur_init e [Call i t g 0; SetGaze g v; Call i t g 0].
Proof. exact legacy_blur_refuted. Qed.
Theorem C17_legacy_metameric_size_crash : exists e i t i' t' g,
  nth 1 (run (met_step legacy 0) e met_init [Call i t g 0; Call i' t' g 0]) Crash = Crash /\
  nth 1 (run_fresh (met_step legacy 0) met_init e [Call i t g 0; Call i' t' g 0]) Crash <> Crash.
Proof. exact legacy_met_crash. Qed.
(* a map builder selected by a flag read from the object (`if not self.equi:`) instead of the argument is refuted by
   two calls in a non-default configuration, and is invisible in the default one *)
Theorem C17_flag_from_self_refuted : exists e i t g g',
  run (blur_step flag_from_self 1) e blur_init [Call i t g 1; Call i t g' 1] <> run_fresh (blur_step flag_from_self 1) blur_init e [Call i t g 1; Call i t g' 1] /\
  run (met_step flag_from_self 1) e met_init [Call i t g 1; Call i t g' 1] <> run_fresh (met_step flag_from_self 1) met_init e [Call i t g 1; Call i t g' 1] /\
  run (mse_step flag_from_self 1) e mse_init [Call i t g 1; Call i t g' 1] <> run_fresh (mse_step flag_from_self 1) mse_init e [Call i t g 1; Call i t g' 1] /\
  run (rvb_step flag_from_self) e blur_init [Call i t g 1; Call i t g' 1] <> run_fresh (rvb_step flag_from_self) blur_init e [Call i t g 1; Call i t g' 1] /\
  run (blur_step flag_from_self 0) e blur_init [Call i t g 0; Call i t g' 0] = run_fresh (blur_step flag_from_self 0) blur_init e [Call i t g 0; Call i t g' 0].
Proof. exact flag_from_self_refuted. Qed.

(* non-vacuity: the hypotheses are satisfiable and the machines produce distinguishable results *)
Example C17_instance :
  mse [(1, 2); (3, 3)]%R = (1 / 2)%R /\ wterm 0 0 = 0%R /\
  tv [[[1; 1]; [1; 1]]]%R = 0%R /\
  (hist_loss 4 0 1 [[0; 1 # 2; 1]] [[0; 0; 1 # 4]] == 1)%Q /\
  sound_blur repaired = true /\ sound_met repaired = true /\ sound_mse repaired = true /\ sound_met legacy = false /\
  machine_run 2 repaired 1 w_env w_ops = machine_fresh 2 repaired 1 w_env w_ops /\
  machine_run 2 legacy 1 w_env w_ops <> machine_fresh 2 legacy 1 w_env w_ops /\
  nth 2 (machine_fresh 2 repaired 1 w_env w_ops) [] <> nth 3 (machine_fresh 2 repaired 1 w_env w_ops) [] /\
  machine_fresh 4 repaired 0 w_env [Call 1%nat 1%nat 0%nat 0] <> machine_fresh 4 repaired 0 w_env [Call 1%nat 1%nat 0%nat 1].
Proof.
  repeat split; try reflexivity; try (vm_compute; discriminate).
  - unfold mse, rmean, sqd. simpl. field.
  - unfold wterm. ring.
  - unfold tv. simpl. unfold Rdiv. ring.
Qed.
