(* C07 — property theorems.  Hologram optimisers return a displayable hologram and its true
   reconstruction: for ANY optimiser / loss / random number generator / forward model (Section variables
   without contracts), any start state and any number of iterations,
     - the phase-only routines return unit-amplitude holograms,
     - the quantised optimiser returns phases in [0, 2 pi) on the 2^bits grid,
     - the reconstruction returned alongside is the forward model applied to the RETURNED hologram,
     - double-phase depth shifting encodes on a checkerboard, with a unit-modulus global phase factor
       for either sign of the shift and a bounded (finite) output.
   That the statements after the optimisation loop of the real routines (and the loop bodies of the two
   Gerchberg-Saxton routines) are these models is proved of the traced code on every run: coq/tie/C07_Tie*.v. *)
(* NOTE on the `*_consistent` theorems (C07_sgd_consistent, C07_gs_torch_consistent, C07_multicolor_consistent and the first
   conjunct of C07_multiplane_consistent): they hold by unfolding, because the MODEL epilogue is written as (h, P h).  Their
   content is that the model is the right one, and that is what the tie lemmas prove on every run against separately traced
   terms (sgd_epilogue_traced, gst_epilogue_traced, mc_reconstruction_traced, mp_traced, with all propagate_beam settings spelled
   out).  The non-definitional statements are: unit amplitude, the NumPy Gerchberg-Saxton theorems (crop o pad, state stays
   padded, unit amplitude through pad/crop), the 3-D variant (sum of L unit phasors), the quantiser, gcf(|z|, arg z) = z,
   the double-phase and global-phase theorems and the two refutations.
   C07_multiplane_unit has the hypothesis H = gcf_f rone phi; that the loop of gradient_descent() builds its hologram this way
   (default amplitude) is proved of the traced loop body in coq/tie/C07_TieMP.v (mp_loop_hologram_traced). *)
From Coq Require Import Reals ZArith Bool Arith.
From Coquelicot Require Import Complex.
From OdakV Require Import Base.RealAux Wave.Fields Wave.Kernels C07.Model C07.Lemmas.
Open Scope R_scope.

(* ---- phase-only output *)
Theorem C07_gcf_unit : forall p, n2 (gcf 1 p) = 1 /\ Cmod (gcf 1 p) = 1.
Proof. exact (fun p => conj (gcf_unit p) (gcf_unit_Cmod p)). Qed.

(* ---- stochastic gradient descent *)
Theorem C07_sgd_consistent : forall (St : Type) (step : nat -> St -> St) (phase_of : St -> rfld) (P : fld -> fld) n s0,
  snd (sgd St step phase_of P n s0) = P (fst (sgd St step phase_of P n s0)).
Proof. exact sgd_consistent. Qed.

Theorem C07_sgd_unit : forall (St : Type) (step : nat -> St -> St) (phase_of : St -> rfld) (P : fld -> fld) gn gm n s0,
  phase_only gn gm (fst (sgd St step phase_of P n s0)).
Proof. exact sgd_unit. Qed.

(* ---- Gerchberg-Saxton, PyTorch *)
Theorem C07_gs_torch_consistent : forall (Pf Pb : fld -> fld) n field h0,
  snd (gs_torch Pf Pb n field h0) = Pf (fst (gs_torch Pf Pb n field h0)).
Proof. exact gs_torch_consistent. Qed.

Theorem C07_gs_torch_h0_irrelevant : forall (Pf Pb : fld -> fld) n field h0 h0',
  gs_torch Pf Pb (S n) field h0 = gs_torch Pf Pb (S n) field h0'.
Proof. exact gs_torch_h0_irrelevant. Qed.

Theorem C07_gs_torch_loop_reconstruction_is_constrained : forall (Pf Pb : fld -> fld) n field h0,
  amp_f (snd (iter (S n) (gst_body Pf Pb field) (h0, field))) = amp_f field.
Proof. exact gst_loop_reconstruction_amp. Qed.

(* ---- Gerchberg-Saxton, NumPy (repaired crop window) *)
Theorem C07_gs_numpy_consistent : forall h w (Pf Pb : fld -> fld) n target x0,
  let r := gs_numpy h w Pf Pb n target (padf h w x0) in snd r = cropf h w (Pf (padf h w (fst r))).
Proof. exact gs_numpy_consistent. Qed.

Theorem C07_gs_numpy_unit : forall h w (Pf Pb : fld -> fld) n target H0,
  phase_only h w (fst (gs_numpy h w Pf Pb (S n) target H0)).
Proof. exact gs_numpy_unit. Qed.

Theorem C07_gs_numpy_resolution : forall h w (Pf Pb : fld -> fld) n target H0,
  let r := gs_numpy h w Pf Pb n target H0 in clip h w (fst r) = fst r /\ clip h w (snd r) = snd r.
Proof. exact gs_numpy_resolution. Qed.

(* ---- Gerchberg-Saxton 3-D, NumPy (repaired crop window, 'no constraint'): returns the hologram only *)
Theorem C07_gs3d_resolution : forall h w L (Pf Pb : nat -> fld -> fld) n targets H0,
  clip h w (gs3d h w L Pf Pb n targets H0) = gs3d h w L Pf Pb n targets H0.
Proof. exact gs3d_resolution. Qed.

Theorem C07_gs3d_sum_of_phasors : forall h w L (Pf Pb : nat -> fld -> fld) n targets H0 i j, (i < h)%nat -> (j < w)%nat ->
  exists phi : nat -> R, gs3d h w L Pf Pb (S n) targets H0 i j = csum L (fun d => gcf 1 (phi d)).
Proof. exact gs3d_sum_of_phasors. Qed.

Theorem C07_gs3d_finite : forall h w L (Pf Pb : nat -> fld -> fld) n targets H0 i j, (i < h)%nat -> (j < w)%nat ->
  Cmod (gs3d h w L Pf Pb (S n) targets H0 i j) <= INR L.
Proof. exact gs3d_bounded. Qed.

Theorem C07_gs3d_single_plane_unit : forall h w (Pf Pb : nat -> fld -> fld) n targets H0,
  phase_only h w (gs3d h w 1 Pf Pb (S n) targets H0).
Proof. exact gs3d_single_plane_unit. Qed.

Theorem C07_crop_inverts_pad : forall h w u, cropf h w (padf h w u) = clip h w u.
Proof. exact crop_pad. Qed.

Theorem C07_window_has_input_size : forall h, (snd (window h) - fst (window h) = h)%nat /\ fst (window h) = legacy_start h.
Proof. exact (fun h => conj (window_len h) (window_starts_at_pad h)). Qed.

(* the window cut before the repair (centre -+ size/2): refuted for odd sizes, fine for even ones *)
Theorem C07_gs_numpy_legacy_window_refuted : exists h, legacy_len h <> h.
Proof. exact legacy_window_refuted. Qed.

Theorem C07_gs_numpy_legacy_window_odd : forall h, Nat.odd h = true -> legacy_len h = (h - 1)%nat.
Proof. exact legacy_len_odd. Qed.

Theorem C07_gs_numpy_legacy_window_partial : forall h, Nat.even h = true -> legacy_len h = h.
Proof. exact legacy_len_even. Qed.

(* ---- quantised multi-colour optimiser *)
Theorem C07_quant_level : forall b x, exists k : Z, qlevel b x = IZR k /\ (0 <= k < 2 ^ Z.of_nat b)%Z.
Proof. exact qlevel_int. Qed.

Theorem C07_quant_range : forall b x, 0 <= qphase b x < 2 * PI.
Proof. exact qphase_range. Qed.

Theorem C07_quant_grid : forall b x, exists k : Z, (0 <= k < 2 ^ Z.of_nat b)%Z /\ qphase b x = IZR k * (2 * PI / 2 ^ b).
Proof. exact qphase_grid. Qed.

Theorem C07_quant_error : forall b x, qphase b x <= Rfmod x two_pi < qphase b x + 2 * PI / 2 ^ b.
Proof. exact qphase_error. Qed.

Theorem C07_quant_idempotent : forall b x, qphase b (qphase b x) = qphase b x.
Proof. exact qphase_idempotent. Qed.

Theorem C07_multicolor_consistent : forall (Out : Type) (RECON : (nat -> rfld) -> Out) (St : Type) (step : nat -> St -> St)
    (phases_of : St -> nat -> rfld) b n s0,
  snd (multicolor Out RECON St step phases_of b n s0) = RECON (fst (multicolor Out RECON St step phases_of b n s0)).
Proof. exact multicolor_consistent. Qed.

Theorem C07_multicolor_displayable : forall (Out : Type) (RECON : (nat -> rfld) -> Out) (St : Type) (step : nat -> St -> St)
    (phases_of : St -> nat -> rfld) b n s0 f i j,
  let p := fst (multicolor Out RECON St step phases_of b n s0) f i j in
  0 <= p < 2 * PI /\ exists k : Z, (0 <= k < 2 ^ Z.of_nat b)%Z /\ p = IZR k * (2 * PI / 2 ^ b).
Proof. exact multicolor_displayable. Qed.

(* ---- multiplane optimiser *)
Theorem C07_multiplane_consistent : forall (MODEL : nat -> fld -> fld) H,
  let r := multiplane_epilogue MODEL H in
  snd r = (fun plane => int_f (MODEL plane (gcf_f (snd (fst r)) (fst (fst r))))) /\ gcf_f (snd (fst r)) (fst (fst r)) = H.
Proof. exact multiplane_consistent. Qed.

Theorem C07_multiplane_unit : forall (MODEL : nat -> fld -> fld) phi,
  snd (fst (multiplane_epilogue MODEL (gcf_f rone phi))) = rone.
Proof. exact multiplane_unit. Qed.

(* ---- double-phase depth shifting *)
Theorem C07_dpe_checkerboard : forall pzm off (a b : nat),
  dpe pzm off (2 * a)%nat (2 * b)%nat = pzm (2 * a)%nat (2 * b)%nat - off (2 * a)%nat (2 * b)%nat /\
  dpe pzm off (2 * a)%nat (2 * b + 1)%nat = pzm (2 * a)%nat (2 * b + 1)%nat + off (2 * a)%nat (2 * b + 1)%nat /\
  dpe pzm off (2 * a + 1)%nat (2 * b)%nat = pzm (2 * a + 1)%nat (2 * b)%nat + off (2 * a + 1)%nat (2 * b)%nat /\
  dpe pzm off (2 * a + 1)%nat (2 * b + 1)%nat = pzm (2 * a + 1)%nat (2 * b + 1)%nat - off (2 * a + 1)%nat (2 * b + 1)%nat.
Proof. exact dpe_checkerboard. Qed.

Theorem C07_dpe_encodes : forall p a, -1 <= a <= 1 ->
  Cplus (Cexpi (dpe_px true p (acos a))) (Cexpi (dpe_px false p (acos a))) = Cmult (RtoC (2 * a)) (Cexpi p).
Proof. exact dpe_encodes. Qed.

Theorem C07_dpe_finite : forall low pzm a M, 0 <= a <= M -> 0 < M ->
  pzm - PI / 2 <= dpe_px low pzm (acos (a / M)) <= pzm + PI / 2.
Proof. exact dpe_bounded. Qed.

Theorem C07_global_phase_unit : forall u ds lam, n2 (global_phase ds lam) = 1 /\ n2 (Cmult u (global_phase ds lam)) = n2 u.
Proof. exact (fun u ds lam => conj (global_phase_unit ds lam) (global_phase_keeps_modulus u ds lam)). Qed.

Theorem C07_global_phase_arg_in_float_range : forall ds lam, 0 < lam -> Rabs ds <= 1e30 * lam -> Rabs (- 2 * PI * ds / lam) <= 1e31.
Proof. exact global_phase_arg_bounded. Qed.

(* before the repair: cos / sin of exp(-2 pi ds / lam), beyond float32 range for negative shifts *)
Theorem C07_legacy_global_phase_refuted : exists ds lam, 0 < lam /\ float32_max < legacy_phase_arg ds lam.
Proof. exact legacy_phase_refuted. Qed.

Theorem C07_legacy_global_phase_overflows : forall ds lam, 0 < lam -> ds <= - 15 * lam -> float32_max < legacy_phase_arg ds lam.
Proof. exact legacy_phase_overflows. Qed.

Theorem C07_legacy_global_phase_partial : forall ds lam, 0 < lam -> 0 <= ds -> 0 < legacy_phase_arg ds lam <= 1.
Proof. exact legacy_phase_partial. Qed.

(* non-vacuity: a concrete optimiser (adds 1 to every phase), identity forward model, three iterations *)
Example C07_instance :
  let r := sgd rfld (fun _ phi => fun i j => phi i j + 1) (fun s => s) (fun u => u) 3 (rconst 0) in
  snd r = fst r /\ fst r 2%nat 5%nat = gcf 1 (0 + 1 + 1 + 1) /\ n2 (fst r 2%nat 5%nat) = 1 /\ legacy_len 7 = 6%nat /\ window 7 = (4, 11)%nat.
Proof. cbv zeta. repeat split. apply gcf_unit. Qed.
