(* C07 — proofs about the reference model (Model.v). *)
From Coq Require Import Reals ZArith Bool Arith Lra Lia Psatz FunctionalExtensionality.
From Coquelicot Require Import Complex.
From Interval Require Import Tactic.
From OdakV Require Import Base.RealAux Wave.Fields Wave.Kernels C07.Model.
Open Scope R_scope.

(* ================================================================== atan2: cosine and sine *)
Lemma hyp_pos x y : x <> 0 \/ y <> 0 -> 0 < x * x + y * y.
Proof. intros [H|H]; nra. Qed.

Lemma sqrt_ratio x y : x <> 0 -> sqrt (1 + (y / x)²) = sqrt (x * x + y * y) / Rabs x.
Proof.
  intros Hx. replace (1 + (y / x)²) with ((x * x + y * y) / (x * x)) by (unfold Rsqr; field; exact Hx).
  rewrite sqrt_div_alt by nra. f_equal. replace (x * x) with (Rsqr x) by reflexivity. apply sqrt_Rsqr_abs.
Qed.

Lemma cos_atan2 y x : x <> 0 \/ y <> 0 -> cos (atan2 y x) = x / sqrt (x * x + y * y).
Proof.
  intros Hnz. pose proof (hyp_pos x y Hnz) as Hp.
  assert (Hs : 0 < sqrt (x * x + y * y)) by (apply sqrt_lt_R0; exact Hp).
  unfold atan2. destruct (Rlt_dec 0 x) as [Hx|Hx].
  - rewrite cos_atan, sqrt_ratio by lra. rewrite Rabs_pos_eq by lra. field. split; lra.
  - destruct (Rlt_dec x 0) as [Hx'|Hx'].
    + destruct (Rle_dec 0 y).
      * rewrite neg_cos, cos_atan, sqrt_ratio by lra. rewrite Rabs_left by lra. field. split; lra.
      * replace (atan (y / x) - PI) with (- (- atan (y / x) + PI)) by ring.
        rewrite cos_neg, neg_cos, cos_neg, cos_atan, sqrt_ratio by lra. rewrite Rabs_left by lra. field. split; lra.
    + assert (x = 0) by lra. subst x. unfold Rdiv. rewrite Rmult_0_l.
      destruct (Rlt_dec 0 y); [apply cos_PI2|]. destruct (Rlt_dec y 0); [rewrite cos_neg; apply cos_PI2|].
      exfalso. destruct Hnz; lra.
Qed.

Lemma sqrt_sq_abs y : sqrt (0 * 0 + y * y) = Rabs y.
Proof. replace (0 * 0 + y * y) with (Rsqr y) by (unfold Rsqr; ring). apply sqrt_Rsqr_abs. Qed.

Lemma sin_atan2 y x : x <> 0 \/ y <> 0 -> sin (atan2 y x) = y / sqrt (x * x + y * y).
Proof.
  intros Hnz. pose proof (hyp_pos x y Hnz) as Hp.
  assert (Hs : 0 < sqrt (x * x + y * y)) by (apply sqrt_lt_R0; exact Hp).
  unfold atan2. destruct (Rlt_dec 0 x) as [Hx|Hx].
  - rewrite sin_atan, sqrt_ratio by lra. rewrite Rabs_pos_eq by lra. field. split; lra.
  - destruct (Rlt_dec x 0) as [Hx'|Hx'].
    + destruct (Rle_dec 0 y).
      * rewrite neg_sin, sin_atan, sqrt_ratio by lra. rewrite Rabs_left by lra. field. split; lra.
      * replace (atan (y / x) - PI) with (- (- atan (y / x) + PI)) by ring.
        rewrite sin_neg, neg_sin, sin_neg, sin_atan, sqrt_ratio by lra. rewrite Rabs_left by lra. field. split; lra.
    + assert (x = 0) by lra. subst x. rewrite sqrt_sq_abs.
      destruct (Rlt_dec 0 y) as [Hy|Hy].
      * rewrite sin_PI2, Rabs_pos_eq by lra. field. lra.
      * destruct (Rlt_dec y 0) as [Hy'|Hy'].
        -- rewrite sin_neg, sin_PI2, Rabs_left by lra. field. lra.
        -- exfalso. destruct Hnz; lra.
Qed.

(* ================================================================== samples *)
Lemma cos2_sin2 p : cos p * cos p + sin p * sin p = 1.
Proof. pose proof (sin2_cos2 p) as H. unfold Rsqr in H. lra. Qed.

Lemma n2_gcf a p : n2 (gcf a p) = a * a.
Proof.
  unfold n2, gcf; cbn [fst snd].
  replace (a * cos p * (a * cos p) + a * sin p * (a * sin p)) with (a * a * (cos p * cos p + sin p * sin p)) by ring.
  rewrite cos2_sin2. ring.
Qed.

(* generate_complex_field(1, phase) has unit modulus whatever the phase *)
Lemma gcf_unit p : n2 (gcf 1 p) = 1.
Proof. rewrite n2_gcf. ring. Qed.

Lemma gcf_unit_Cmod p : Cmod (gcf 1 p) = 1.
Proof.
  unfold Cmod. replace (fst (gcf 1 p) ^ 2 + snd (gcf 1 p) ^ 2) with (n2 (gcf 1 p)) by (unfold n2; ring).
  rewrite gcf_unit. apply sqrt_1.
Qed.

Lemma amp_nonneg z : 0 <= amp z.
Proof. apply sqrt_pos. Qed.

Lemma amp_sq z : amp z * amp z = n2 z.
Proof. unfold amp, n2. apply sqrt_sqrt. nra. Qed.

Lemma amp_gcf a p : amp (gcf a p) = Rabs a.
Proof.
  unfold amp. replace (fst (gcf a p) * fst (gcf a p) + snd (gcf a p) * snd (gcf a p)) with (n2 (gcf a p)) by reflexivity.
  rewrite n2_gcf. replace (a * a) with (Rsqr a) by reflexivity. apply sqrt_Rsqr_abs.
Qed.

(* rebuilding a sample from its amplitude and phase returns the sample: every z, including 0 *)
Lemma rebuild z : gcf (amp z) (arg z) = z.
Proof.
  destruct z as [x y]. destruct (Req_dec x 0) as [Hx|Hx]; [destruct (Req_dec y 0) as [Hy|Hy]|].
  - subst. unfold gcf, amp; cbn [fst snd]. replace (0 * 0 + 0 * 0) with 0 by ring. rewrite sqrt_0. f_equal; ring.
  - assert (Hnz : x <> 0 \/ y <> 0) by (right; exact Hy).
    pose proof (hyp_pos x y Hnz) as Hp. assert (Hs : 0 < sqrt (x * x + y * y)) by (apply sqrt_lt_R0; exact Hp).
    unfold gcf, amp, arg; cbn [fst snd]. rewrite cos_atan2, sin_atan2 by exact Hnz. f_equal; field; lra.
  - assert (Hnz : x <> 0 \/ y <> 0) by (left; exact Hx).
    pose proof (hyp_pos x y Hnz) as Hp. assert (Hs : 0 < sqrt (x * x + y * y)) by (apply sqrt_lt_R0; exact Hp).
    unfold gcf, amp, arg; cbn [fst snd]. rewrite cos_atan2, sin_atan2 by exact Hnz. f_equal; field; lra.
Qed.

Lemma set_amp_amp z a : amp (set_amplitude z a) = amp a.
Proof. unfold set_amplitude. rewrite amp_gcf. apply Rabs_pos_eq, amp_nonneg. Qed.

(* ================================================================== fields *)
Lemma gcf_f_unit n m phi : phase_only n m (gcf_f rone phi).
Proof. intros i j _ _. unfold gcf_f, rone, rconst. apply gcf_unit. Qed.

Lemma rebuild_f H : gcf_f (amp_f H) (arg_f H) = H.
Proof. extensionality i; extensionality j. unfold gcf_f, amp_f, arg_f. apply rebuild. Qed.

Lemma rsq_amp u : rsq (amp_f u) = int_f u.
Proof. extensionality i; extensionality j. unfold rsq, amp_f, int_f. apply amp_sq. Qed.

Lemma amp_f_gcf_one phi : amp_f (gcf_f rone phi) = rone.
Proof.
  extensionality i; extensionality j. unfold amp_f, gcf_f, rone, rconst. rewrite amp_gcf. apply Rabs_pos_eq. lra.
Qed.

(* ================================================================== stochastic gradient descent *)
Section SGD.
Variable St : Type.
Variable step : nat -> St -> St.
Variable phase_of : St -> rfld.
Variable P : fld -> fld.

Lemma sgd_consistent n s0 : snd (sgd St step phase_of P n s0) = P (fst (sgd St step phase_of P n s0)).
Proof. reflexivity. Qed.

Lemma sgd_unit gn gm n s0 : phase_only gn gm (fst (sgd St step phase_of P n s0)).
Proof. unfold sgd, sgd_epilogue; cbn [fst]. apply gcf_f_unit. Qed.
End SGD.

(* ================================================================== Gerchberg-Saxton (PyTorch) *)
Section GSTorch.
Variables Pf Pb : fld -> fld.

Lemma gs_torch_consistent n field h0 :
  snd (gs_torch Pf Pb n field h0) = Pf (fst (gs_torch Pf Pb n field h0)).
Proof. reflexivity. Qed.

Lemma gst_body_snd field s s' : snd s = snd s' -> gst_body Pf Pb field s = gst_body Pf Pb field s'.
Proof. intros E. unfold gst_body. rewrite E. reflexivity. Qed.

Lemma gst_snd_indep n field h0 h0' :
  snd (iter n (gst_body Pf Pb field) (h0, field)) = snd (iter n (gst_body Pf Pb field) (h0', field)).
Proof.
  induction n as [|n IH]; [reflexivity|]. cbn [iter]. rewrite (gst_body_snd field _ _ IH). reflexivity.
Qed.

(* with at least one iteration the result does not depend on the (unbound) initial hologram *)
Lemma gs_torch_h0_irrelevant n field h0 h0' : gs_torch Pf Pb (S n) field h0 = gs_torch Pf Pb (S n) field h0'.
Proof.
  unfold gs_torch. cbn [iter]. rewrite (gst_body_snd field _ _ (gst_snd_indep n field h0 h0')). reflexivity.
Qed.

(* the returned hologram is the back-propagation of the last amplitude-constrained reconstruction *)
Lemma gs_torch_hologram n field h0 :
  fst (gs_torch Pf Pb (S n) field h0) = Pb (snd (iter n (gst_body Pf Pb field) (h0, field))).
Proof. reflexivity. Qed.

(* inside the loop the reconstruction carries the target's amplitude: it is NOT the propagated hologram,
   which is why the epilogue recomputes it *)
Lemma gst_loop_reconstruction_amp n field h0 :
  amp_f (snd (iter (S n) (gst_body Pf Pb field) (h0, field))) = amp_f field.
Proof.
  cbn [iter]. unfold gst_body at 1; cbn [snd]. extensionality i; extensionality j.
  unfold amp_f, setamp_f. apply set_amp_amp.
Qed.
End GSTorch.

(* ================================================================== windows, pad, crop *)
Lemma inwin_true a b c d i j : (a <= i < b)%nat -> (c <= j < d)%nat -> inwin a b c d i j = true.
Proof.
  intros [H1 H2] [H3 H4]. unfold inwin.
  rewrite (proj2 (Nat.leb_le a i) H1), (proj2 (Nat.ltb_lt i b) H2), (proj2 (Nat.leb_le c j) H3), (proj2 (Nat.ltb_lt j d) H4).
  reflexivity.
Qed.

Lemma inwin_spec a b c d i j : inwin a b c d i j = true <-> (a <= i < b)%nat /\ (c <= j < d)%nat.
Proof.
  unfold inwin. rewrite !andb_true_iff, !Nat.leb_le, !Nat.ltb_lt. tauto.
Qed.

Lemma slice_in a b c d u i j : (i < b - a)%nat -> (j < d - c)%nat -> slice a b c d u i j = u (a + i)%nat (c + j)%nat.
Proof.
  intros Hi Hj. unfold slice. rewrite (proj2 (Nat.ltb_lt i (b - a)) Hi), (proj2 (Nat.ltb_lt j (d - c)) Hj). reflexivity.
Qed.

Lemma slice_clip a h c w u : clip h w (slice a (a + h) c (c + w) u) = slice a (a + h) c (c + w) u.
Proof.
  extensionality i; extensionality j. unfold clip, inb, slice.
  replace (a + h - a)%nat with h by lia. replace (c + w - c)%nat with w by lia.
  destruct ((i <? h)%nat && (j <? w)%nat); reflexivity.
Qed.

Lemma crop_pad h w u : cropf h w (padf h w u) = clip h w u.
Proof.
  extensionality i; extensionality j. unfold cropf, slice, clip, inb.
  replace (win0 h + h - win0 h)%nat with h by lia. replace (win0 w + w - win0 w)%nat with w by lia.
  destruct (Nat.ltb_spec i h) as [Hi|Hi]; destruct (Nat.ltb_spec j w) as [Hj|Hj]; cbn [andb]; try reflexivity.
  unfold padf. rewrite inwin_true by lia.
  replace (win0 h + i - win0 h)%nat with i by lia. replace (win0 w + j - win0 w)%nat with j by lia. reflexivity.
Qed.

Lemma pad_clip h w u : padf h w (clip h w u) = padf h w u.
Proof.
  extensionality i; extensionality j. unfold padf. destruct (inwin _ _ _ _ i j) eqn:E; [|reflexivity].
  apply inwin_spec in E. apply clip_in; lia.
Qed.

Lemma crop_clip h w H : clip h w (cropf h w H) = cropf h w H.
Proof. apply slice_clip. Qed.

(* ================================================================== Gerchberg-Saxton (NumPy) *)
Section GSNumpy.
Variables h w : nat.
Variables Pf Pb : fld -> fld.

Lemma gsn_state_padded n target x0 : exists y, iter n (gsn_body h w Pf Pb target) (padf h w x0) = padf h w y.
Proof. destruct n as [|n]; [exists x0; reflexivity|]. cbn [iter]. unfold gsn_body at 1. eexists. reflexivity. Qed.

(* the returned reconstruction is the crop of the propagated zero-padded RETURNED hologram *)
Lemma gs_numpy_consistent n target x0 :
  let r := gs_numpy h w Pf Pb n target (padf h w x0) in
  snd r = cropf h w (Pf (padf h w (fst r))).
Proof.
  cbv zeta. unfold gs_numpy, gsn_epilogue; cbn [fst snd].
  destruct (gsn_state_padded n target x0) as [y Hy]. rewrite Hy.
  rewrite crop_pad, pad_clip. reflexivity.
Qed.

(* after at least one iteration the returned hologram has unit amplitude on the whole h x w grid *)
Lemma gs_numpy_unit n target H0 : phase_only h w (fst (gs_numpy h w Pf Pb (S n) target H0)).
Proof.
  intros i j Hi Hj. unfold gs_numpy, gsn_epilogue; cbn [fst iter]. unfold gsn_body at 1.
  rewrite crop_pad, clip_in by assumption.
  unfold cropf. rewrite slice_in by lia. unfold gcf_f, rone, rconst. apply gcf_unit.
Qed.

(* with zero iterations the start value is returned: unit amplitude if the start value has it *)
Lemma gs_numpy_unit_0 target x0 : phase_only h w x0 -> phase_only h w (fst (gs_numpy h w Pf Pb 0 target (padf h w x0))).
Proof.
  intros Hx i j Hi Hj. unfold gs_numpy, gsn_epilogue; cbn [fst iter]. rewrite crop_pad, clip_in by assumption. apply Hx; assumption.
Qed.

(* both returned arrays live on the input's h x w grid *)
Lemma gs_numpy_resolution n target H0 :
  let r := gs_numpy h w Pf Pb n target H0 in clip h w (fst r) = fst r /\ clip h w (snd r) = snd r.
Proof. cbv zeta. unfold gs_numpy, gsn_epilogue; cbn [fst snd]. split; apply crop_clip. Qed.
End GSNumpy.

(* ================================================================== Gerchberg-Saxton 3-D (NumPy) *)
Lemma fsum_at n f i j : fsum n f i j = csum n (fun d => f d i j).
Proof. induction n as [|n IH]; [reflexivity|]. cbn [fsum csum]. unfold fadd. rewrite IH. reflexivity. Qed.

Lemma csum_ext n f g : (forall d, (d < n)%nat -> f d = g d) -> csum n f = csum n g.
Proof. induction n as [|n IH]; intros E; [reflexivity|]. cbn [csum]. rewrite IH, E by (intros; try apply E; lia). reflexivity. Qed.

Lemma csum_unit_bound n f : (forall d, (d < n)%nat -> Cmod (f d) = 1) -> Cmod (csum n f) <= INR n.
Proof.
  induction n as [|n IH]; intros Hf.
  - cbn [csum INR]. rewrite Cmod_0. lra.
  - cbn [csum]. rewrite S_INR. eapply Rle_trans; [apply Cmod_triangle|].
    rewrite (Hf n) by lia. assert (Cmod (csum n f) <= INR n) by (apply IH; intros; apply Hf; lia). lra.
Qed.

Section GS3D.
Variables h w L : nat.
Variables Pf Pb : nat -> fld -> fld.

Lemma gs3d_resolution n targets H0 : clip h w (gs3d h w L Pf Pb n targets H0) = gs3d h w L Pf Pb n targets H0.
Proof. unfold gs3d, gs3_epilogue. apply crop_clip. Qed.

(* after at least one iteration every sample of the returned hologram is a sum of L unit phasors, one per plane *)
Lemma gs3d_sum_of_phasors n targets H0 i j : (i < h)%nat -> (j < w)%nat ->
  exists phi : nat -> R, gs3d h w L Pf Pb (S n) targets H0 i j = csum L (fun d => gcf 1 (phi d)).
Proof.
  intros Hi Hj. unfold gs3d, gs3_epilogue. cbn [iter]. set (H := iter n (gs3_body h w L Pf Pb targets) H0).
  unfold gs3_body, cropf. rewrite slice_in by lia. rewrite fsum_at.
  exists (fun d => arg_f (Pb d (gcf_f (paste (win0 h) (win0 h + h) (win0 w) (win0 w + w) (rabs_f (targets d)) (amp_f (Pf d H))) (arg_f (Pf d H)))) (win0 h + i)%nat (win0 w + j)%nat).
  apply csum_ext. intros d _.
  unfold gs3_layer, padf. rewrite inwin_true by lia. unfold cropf. rewrite slice_in by lia.
  replace (win0 h + (win0 h + i - win0 h))%nat with (win0 h + i)%nat by lia.
  replace (win0 w + (win0 w + j - win0 w))%nat with (win0 w + j)%nat by lia. reflexivity.
Qed.

(* hence it is finite: its modulus is at most the number of planes; with one plane it is phase-only *)
Lemma gs3d_bounded n targets H0 i j : (i < h)%nat -> (j < w)%nat -> Cmod (gs3d h w L Pf Pb (S n) targets H0 i j) <= INR L.
Proof.
  intros Hi Hj. destruct (gs3d_sum_of_phasors n targets H0 i j Hi Hj) as [phi E]. rewrite E.
  apply csum_unit_bound. intros d _. apply gcf_unit_Cmod.
Qed.
End GS3D.

Lemma gs3d_single_plane_unit h w Pf Pb n targets H0 : phase_only h w (gs3d h w 1 Pf Pb (S n) targets H0).
Proof.
  intros i j Hi Hj. destruct (gs3d_sum_of_phasors h w 1 Pf Pb n targets H0 i j Hi Hj) as [phi E]. rewrite E.
  cbn [csum]. replace (Cplus (RtoC 0) (gcf 1 (phi 0%nat))) with (gcf 1 (phi 0%nat)) by (unfold Cplus, RtoC, gcf; cbn [fst snd]; f_equal; ring).
  apply gcf_unit.
Qed.

Lemma half_double h : ((2 * h) / 2 = h)%nat.
Proof. rewrite Nat.mul_comm. apply Nat.div_mul. discriminate. Qed.

Lemma window_len h : (snd (window h) - fst (window h) = h)%nat.
Proof. unfold window; cbn [fst snd]. lia. Qed.

Lemma window_starts_at_pad h : fst (window h) = legacy_start h.
Proof. unfold window, legacy_start, win0; cbn [fst]. rewrite half_double. reflexivity. Qed.

Lemma legacy_len_val h : legacy_len h = (2 * (h / 2))%nat.
Proof.
  unfold legacy_len, legacy_stop, legacy_start. rewrite half_double.
  pose proof (Nat.div_le_upper_bound h 2 h) as Hd. assert (h / 2 <= h)%nat by (apply Nat.div_le_upper_bound; lia). lia.
Qed.

Lemma legacy_len_even h : Nat.even h = true -> legacy_len h = h.
Proof.
  intros He. rewrite legacy_len_val. apply Nat.even_spec in He. destruct He as [k Hk]. subst h.
  rewrite (Nat.mul_comm 2 k), Nat.div_mul by discriminate. lia.
Qed.

Lemma legacy_len_odd h : Nat.odd h = true -> legacy_len h = (h - 1)%nat.
Proof.
  intros Ho. rewrite legacy_len_val. apply Nat.odd_spec in Ho. destruct Ho as [k Hk]. subst h.
  replace (2 * k + 1)%nat with (1 + k * 2)%nat by lia. rewrite Nat.div_add by discriminate. cbn. lia.
Qed.

Lemma legacy_window_refuted : exists h, legacy_len h <> h.
Proof. exists 7%nat. vm_compute. discriminate. Qed.

(* ================================================================== floor and remainder *)
Lemma Rfloor_bounds x : Rfloor x <= x < Rfloor x + 1.
Proof. unfold Rfloor. pose proof (base_Int_part x). lra. Qed.

Lemma Rfmod_range p r : 0 < r -> 0 <= Rfmod p r < r.
Proof.
  intros Hr. unfold Rfmod. pose proof (Rfloor_bounds (p / r)) as [H1 H2].
  assert (E : p = r * (p / r)) by (field; lra).
  split.
  - assert (r * Rfloor (p / r) <= r * (p / r)) by (apply Rmult_le_compat_l; lra). lra.
  - assert (r * (p / r) < r * (Rfloor (p / r) + 1)) by (apply Rmult_lt_compat_l; lra). lra.
Qed.

Lemma Rfmod_congr p r : exists k : Z, p = Rfmod p r + IZR k * r.
Proof. exists (Int_part (p / r)). unfold Rfmod, Rfloor. ring. Qed.

Lemma pow2_IZR b : 2 ^ b = IZR (2 ^ Z.of_nat b).
Proof. rewrite <- pow_IZR. reflexivity. Qed.

Lemma pow2_pos b : 0 < 2 ^ b.
Proof. apply pow_lt. lra. Qed.

Lemma two_pi_pos : 0 < two_pi.
Proof. unfold two_pi. pose proof PI_RGT_0. lra. Qed.

(* the scaled wrapped phase lies in [0, 2^b) *)
Lemma qscaled_range b x : 0 <= Rfmod x two_pi / two_pi * 2 ^ b < 2 ^ b.
Proof.
  pose proof two_pi_pos as Ht. pose proof (pow2_pos b) as Hp. pose proof (Rfmod_range x two_pi Ht) as [H1 H2].
  assert (Hd : 0 <= Rfmod x two_pi / two_pi < 1).
  { split.
    - apply Rmult_le_pos; [exact H1 | apply Rlt_le, Rinv_0_lt_compat; exact Ht].
    - apply Rmult_lt_reg_r with two_pi; [exact Ht|]. unfold Rdiv. rewrite Rmult_assoc, Rinv_l by lra. lra. }
  split; nra.
Qed.

(* floor of a value in [0, K) for an integer K is an integer level in [0, K) *)
Lemma floor_level s (K : Z) : 0 <= s < IZR K -> exists k : Z, Rfloor s = IZR k /\ (0 <= k < K)%Z.
Proof.
  intros [H1 H2]. exists (Int_part s). split; [reflexivity|].
  pose proof (Rfloor_bounds s) as [Hb1 Hb2]. unfold Rfloor in *.
  split.
  - assert ((-1 < Int_part s)%Z) by (apply lt_IZR; lra). lia.
  - apply lt_IZR. lra.
Qed.

Lemma qlevel_int b x : exists k : Z, qlevel b x = IZR k /\ (0 <= k < 2 ^ Z.of_nat b)%Z.
Proof. unfold qlevel. apply floor_level. rewrite <- pow2_IZR. apply qscaled_range. Qed.

Lemma qlevel_range b x : 0 <= qlevel b x <= 2 ^ b - 1.
Proof.
  destruct (qlevel_int b x) as [k [Hk [H1 H2]]]. rewrite Hk, pow2_IZR. split.
  - apply IZR_le. exact H1.
  - rewrite <- minus_IZR. apply IZR_le. lia.
Qed.

(* the returned phase lies in [0, 2 pi) ... *)
Lemma qphase_range b x : 0 <= qphase b x < 2 * PI.
Proof.
  pose proof (qlevel_range b x) as [H1 H2]. pose proof (pow2_pos b) as Hp. pose proof PI_RGT_0 as Hpi.
  unfold qphase.
  assert (Hd : 0 <= qlevel b x / 2 ^ b < 1).
  { split.
    - apply Rmult_le_pos; [exact H1 | apply Rlt_le, Rinv_0_lt_compat; exact Hp].
    - apply Rmult_lt_reg_r with (2 ^ b); [exact Hp|]. unfold Rdiv. rewrite Rmult_assoc, Rinv_l by lra. lra. }
  split; nra.
Qed.

(* ... on the grid of 2^b equally spaced levels ... *)
Lemma qphase_grid b x : exists k : Z, (0 <= k < 2 ^ Z.of_nat b)%Z /\ qphase b x = IZR k * (2 * PI / 2 ^ b).
Proof.
  destruct (qlevel_int b x) as [k [Hk Hr]]. exists k. split; [exact Hr|].
  unfold qphase. rewrite Hk. pose proof (pow2_pos b). field. lra.
Qed.

(* ... at most one step below the wrapped input phase, which differs from the input by a multiple of 2 pi *)
Lemma qphase_error b x : qphase b x <= Rfmod x two_pi < qphase b x + 2 * PI / 2 ^ b.
Proof.
  pose proof (pow2_pos b) as Hp. pose proof two_pi_pos as Ht.
  pose proof (Rfloor_bounds (Rfmod x two_pi / two_pi * 2 ^ b)) as [H1 H2].
  unfold qphase, qlevel. set (s := Rfmod x two_pi / two_pi * 2 ^ b) in *.
  assert (E : Rfmod x two_pi = s / 2 ^ b * 2 * PI) by (unfold s, two_pi; field; split; [pose proof PI_RGT_0; lra | lra]).
  rewrite E. pose proof PI_RGT_0 as Hpi.
  assert (Hi : 0 < / 2 ^ b) by (apply Rinv_0_lt_compat; exact Hp).
  split.
  - unfold Rdiv. assert (Rfloor s * / 2 ^ b <= s * / 2 ^ b) by (apply Rmult_le_compat_r; lra). nra.
  - unfold Rdiv. assert (s * / 2 ^ b < (Rfloor s + 1) * / 2 ^ b) by (apply Rmult_lt_compat_r; lra). nra.
Qed.

(* float -> int casts truncate toward zero; on non-negative values this is the floor; a clamp at the top
   level (the repair of odak.learn.tools.quantize) changes nothing over the reals *)
Definition Rtrunc (x : R) : R := if Rleb 0 x then Rfloor x else - Rfloor (- x).
Lemma Rtrunc_nonneg x : 0 <= x -> Rtrunc x = Rfloor x.
Proof. intros H. unfold Rtrunc. destruct (Rleb 0 x) eqn:E; [reflexivity|]. apply Rleb_false in E. lra. Qed.

Lemma level_clamp_noop b x :
  Rmin (Rtrunc (Rfmod x two_pi / two_pi * 2 ^ b)) (2 ^ b - 1) = qlevel b x.
Proof.
  pose proof (qscaled_range b x) as [H1 H2]. rewrite Rtrunc_nonneg by exact H1.
  apply Rmin_left. apply (qlevel_range b x).
Qed.
Lemma level_trunc b x : Rtrunc (Rfmod x two_pi / two_pi * 2 ^ b) = qlevel b x.
Proof. pose proof (qscaled_range b x) as [H1 H2]. apply Rtrunc_nonneg. exact H1. Qed.

(* quantising an already quantised phase changes nothing (the returned hologram is a fixed point) *)
Lemma Int_part_IZR k : Int_part (IZR k) = k.
Proof.
  pose proof (base_Int_part (IZR k)) as [H1 H2].
  assert ((Int_part (IZR k) <= k)%Z) by (apply le_IZR; lra).
  assert ((k - 1 < Int_part (IZR k))%Z) by (apply lt_IZR; rewrite minus_IZR; lra).
  lia.
Qed.

Lemma Rfmod_small p r : 0 <= p < r -> Rfmod p r = p.
Proof.
  intros [H1 H2]. unfold Rfmod, Rfloor.
  assert (Hq : 0 <= p / r < 1).
  { assert (0 < r) by lra. split.
    - apply Rmult_le_pos; [lra | apply Rlt_le, Rinv_0_lt_compat; lra].
    - apply Rmult_lt_reg_r with r; [lra|]. unfold Rdiv. rewrite Rmult_assoc, Rinv_l by lra. lra. }
  assert (Int_part (p / r) = 0%Z).
  { pose proof (base_Int_part (p / r)) as [Ha Hb].
    assert ((Int_part (p / r) < 1)%Z) by (apply lt_IZR; lra).
    assert ((-1 < Int_part (p / r))%Z) by (apply lt_IZR; lra). lia. }
  rewrite H. simpl. ring.
Qed.

Lemma qphase_idempotent b x : qphase b (qphase b x) = qphase b x.
Proof.
  pose proof (qphase_range b x) as Hr. destruct (qphase_grid b x) as [k [Hk Hq]].
  pose proof (pow2_pos b) as Hp. pose proof PI_RGT_0 as Hpi.
  unfold qphase at 1. unfold qlevel. rewrite Rfmod_small by (unfold two_pi; exact Hr).
  rewrite Hq at 1.
  replace (IZR k * (2 * PI / 2 ^ b) / two_pi * 2 ^ b) with (IZR k) by (unfold two_pi; field; split; lra).
  unfold Rfloor. rewrite Int_part_IZR. rewrite Hq. field. lra.
Qed.

(* ================================================================== multi-colour, multiplane *)
Section MultiColor.
Variable Out : Type.
Variable RECON : (nat -> rfld) -> Out.
Variable St : Type.
Variable step : nat -> St -> St.
Variable phases_of : St -> nat -> rfld.

Lemma multicolor_consistent b n s0 :
  snd (multicolor Out RECON St step phases_of b n s0) = RECON (fst (multicolor Out RECON St step phases_of b n s0)).
Proof. reflexivity. Qed.

Lemma multicolor_displayable b n s0 f i j :
  let p := fst (multicolor Out RECON St step phases_of b n s0) f i j in
  0 <= p < 2 * PI /\ exists k : Z, (0 <= k < 2 ^ Z.of_nat b)%Z /\ p = IZR k * (2 * PI / 2 ^ b).
Proof.
  cbv zeta. unfold multicolor, multicolor_epilogue, qphase_f; cbn [fst]. split; [apply qphase_range | apply qphase_grid].
Qed.
End MultiColor.

Section MultiPlane.
Variable MODEL : nat -> fld -> fld.

(* the returned intensities are those of the hologram rebuilt from the RETURNED amplitude and phase,
   and that hologram is the loop's final hologram itself *)
Lemma multiplane_consistent H :
  let r := multiplane_epilogue MODEL H in
  snd r = (fun plane => int_f (MODEL plane (gcf_f (snd (fst r)) (fst (fst r))))) /\ gcf_f (snd (fst r)) (fst (fst r)) = H.
Proof.
  cbv zeta. unfold multiplane_epilogue, mp_reconstruct; cbn [fst snd]. split.
  - extensionality plane. apply rsq_amp.
  - apply rebuild_f.
Qed.

(* the loop builds its hologram as generate_complex_field(ones, phase): the returned amplitude is one *)
Lemma multiplane_unit phi : snd (fst (multiplane_epilogue MODEL (gcf_f rone phi))) = rone.
Proof. unfold multiplane_epilogue; cbn [fst snd]. apply amp_f_gcf_one. Qed.
End MultiPlane.

(* ================================================================== double phase *)
Lemma dpe_checkerboard pzm off (a b : nat) :
  dpe pzm off (2 * a)%nat (2 * b)%nat = pzm (2 * a)%nat (2 * b)%nat - off (2 * a)%nat (2 * b)%nat /\
  dpe pzm off (2 * a)%nat (2 * b + 1)%nat = pzm (2 * a)%nat (2 * b + 1)%nat + off (2 * a)%nat (2 * b + 1)%nat /\
  dpe pzm off (2 * a + 1)%nat (2 * b)%nat = pzm (2 * a + 1)%nat (2 * b)%nat + off (2 * a + 1)%nat (2 * b)%nat /\
  dpe pzm off (2 * a + 1)%nat (2 * b + 1)%nat = pzm (2 * a + 1)%nat (2 * b + 1)%nat - off (2 * a + 1)%nat (2 * b + 1)%nat.
Proof.
  unfold dpe, dpe_px, checker.
  replace (2 * a + 2 * b)%nat with (2 * (a + b))%nat by lia.
  replace (2 * a + (2 * b + 1))%nat with (2 * (a + b) + 1)%nat by lia.
  replace (2 * a + 1 + 2 * b)%nat with (2 * (a + b) + 1)%nat by lia.
  replace (2 * a + 1 + (2 * b + 1))%nat with (2 * (a + b + 1))%nat by lia.
  rewrite !Nat.even_add, !Nat.even_mul. cbn. repeat split; reflexivity.
Qed.

(* the principle behind the encoding: two unit phasors p -+ acos(a) average to the complex value a e^{ip} *)
Lemma dpe_encodes p a : -1 <= a <= 1 ->
  Cplus (Cexpi (dpe_px true p (acos a))) (Cexpi (dpe_px false p (acos a))) = Cmult (RtoC (2 * a)) (Cexpi p).
Proof.
  intros Ha. unfold dpe_px, Cexpi, Cplus, Cmult, RtoC; cbn [fst snd].
  rewrite cos_minus, cos_plus, sin_minus, sin_plus, (cos_acos a Ha). f_equal; ring.
Qed.

Lemma norm_amp_range a M : 0 <= a <= M -> 0 < M -> 0 <= a / M <= 1.
Proof.
  intros [H1 H2] HM. split.
  - apply Rmult_le_pos; [exact H1 | apply Rlt_le, Rinv_0_lt_compat; exact HM].
  - apply Rmult_le_reg_r with M; [exact HM|]. unfold Rdiv. rewrite Rmult_assoc, Rinv_l by lra. lra.
Qed.

Lemma acos_unit_range x : 0 <= x <= 1 -> 0 <= acos x <= PI / 2.
Proof.
  intros Hx. pose proof (acos_bound x) as [H1 H2]. split; [exact H1|].
  destruct (Rle_dec (acos x) (PI / 2)) as [Hle|Hgt]; [exact Hle|]. exfalso.
  assert (Hc : cos (acos x) < 0) by (apply cos_lt_0; pose proof PI_RGT_0; lra).
  rewrite cos_acos in Hc by lra. lra.
Qed.

(* every returned phase is within pi/2 of the zero-mean phase: finite whatever the sign of the shift *)
Lemma dpe_bounded low pzm a M : 0 <= a <= M -> 0 < M ->
  pzm - PI / 2 <= dpe_px low pzm (acos (a / M)) <= pzm + PI / 2.
Proof.
  intros Ha HM. pose proof (acos_unit_range (a / M) (norm_amp_range a M Ha HM)) as [H1 H2].
  unfold dpe_px. destruct low; lra.
Qed.

(* the global phase factor of the shift has modulus one for either sign of the depth shift *)
Lemma global_phase_unit ds lam : n2 (global_phase ds lam) = 1.
Proof. apply Cexpi_n2. Qed.
Lemma global_phase_keeps_modulus u ds lam : n2 (Cmult u (global_phase ds lam)) = n2 u.
Proof. rewrite n2_mult, global_phase_unit. ring. Qed.

(* before the repair the argument of cos / sin was exp(-2 pi ds / lam): beyond float32 range for shifts
   of more than about 14 wavelengths towards the negative side *)
Lemma legacy_phase_overflows ds lam : 0 < lam -> ds <= - 15 * lam -> float32_max < legacy_phase_arg ds lam.
Proof.
  intros Hl Hd. unfold legacy_phase_arg, float32_max.
  assert (H89 : 89 <= - 2 * PI * ds / lam).
  { assert (Hq : 15 <= - ds / lam).
    { apply Rmult_le_reg_r with lam; [exact Hl|]. unfold Rdiv. rewrite Rmult_assoc, Rinv_l by lra. lra. }
    replace (- 2 * PI * ds / lam) with (2 * PI * (- ds / lam)) by (field; lra).
    assert (3 < PI) by (pose proof PI_RGT_0; interval). nra. }
  apply Rlt_le_trans with (exp 89); [interval|].
  destruct H89 as [Hlt|Heq]; [left; apply exp_increasing; exact Hlt | right; rewrite Heq; reflexivity].
Qed.

Lemma legacy_phase_refuted : exists ds lam, 0 < lam /\ float32_max < legacy_phase_arg ds lam.
Proof. exists (-15), 1. split; [lra|]. apply legacy_phase_overflows; lra. Qed.

Lemma legacy_phase_partial ds lam : 0 < lam -> 0 <= ds -> 0 < legacy_phase_arg ds lam <= 1.
Proof.
  intros Hl Hd. unfold legacy_phase_arg. split; [apply exp_pos|].
  assert (Hn : - 2 * PI * ds / lam <= 0).
  { replace (- 2 * PI * ds / lam) with (- (2 * PI * ds * / lam)) by (field; lra).
    pose proof PI_RGT_0. assert (0 < / lam) by (apply Rinv_0_lt_compat; exact Hl).
    assert (0 <= 2 * PI * ds * / lam) by (apply Rmult_le_pos; [nra | lra]). lra. }
  rewrite <- exp_0. destruct Hn as [Hlt|Heq]; [left; apply exp_increasing; exact Hlt | right; rewrite Heq; reflexivity].
Qed.

(* the repaired argument stays far inside float32 range for every physically meaningful shift *)
Lemma global_phase_arg_bounded ds lam : 0 < lam -> Rabs ds <= 1e30 * lam -> Rabs (- 2 * PI * ds / lam) <= 1e31.
Proof.
  intros Hl Hd.
  assert (Hq : Rabs (ds / lam) <= 1e30).
  { unfold Rdiv. rewrite Rabs_mult, (Rabs_pos_eq (/ lam)) by (apply Rlt_le, Rinv_0_lt_compat; exact Hl).
    apply Rmult_le_reg_r with lam; [exact Hl|]. rewrite Rmult_assoc, Rinv_l by lra. lra. }
  replace (- 2 * PI * ds / lam) with (- (2 * PI) * (ds / lam)) by (field; lra).
  rewrite Rabs_mult, Rabs_Ropp, (Rabs_pos_eq (2 * PI)) by (pose proof PI_RGT_0; lra).
  assert (PI < 4) by interval. pose proof (Rabs_pos (ds / lam)). nra.
Qed.
