(* C07 — hologram optimisers return a displayable hologram and its true reconstruction.

   Reference model of the hologram-synthesis routines of odak:

     odak.learn.wave.classical   gerchberg_saxton, stochastic_gradient_descent, shift_w_double_phase
     odak.wave.classical         gerchberg_saxton                      (NumPy, repaired crop window)
     odak.learn.wave.optimizers  multi_color_hologram_optimizer.optimize  (+ odak.learn.tools.quantize)
     odak.learn.wave.legacy      multiplane_hologram_optimizer.optimize / reconstruct

   The optimisation loops are modelled as iteration of an ARBITRARY step function over an arbitrary
   state type (the optimiser, the loss, the random number generator and the forward model used inside
   the loop are Section variables without any contract); what is modelled exactly is what the routines
   do with the loop result before they return it: the statements after the loop (the "epilogue"),
   which the tracer cuts from the current source on every run (coq/tie/C07_Tie*.v), and for the two
   Gerchberg-Saxton routines also the loop body.

   Samples are Coquelicot complex numbers (pairs of reals); fields are functions nat -> nat -> C as in
   OdakV.Wave.Fields; real-valued images (phases, amplitudes, intensities) are nat -> nat -> R. *)
From Coq Require Import Reals ZArith Bool Arith.
From Coquelicot Require Import Complex.
From OdakV Require Import Base.RealAux Wave.Fields Wave.Kernels.
Open Scope R_scope.

Definition rfld := nat -> nat -> R.

(* ------------------------------------------------------------------------------------------
   element-wise helpers (both APIs): odak.(learn.)wave generate_complex_field, calculate_amplitude,
   calculate_phase, set_amplitude *)
Definition gcf (a p : R) : C := (a * cos p, a * sin p).
Definition amp (z : C) : R := sqrt (fst z * fst z + snd z * snd z).
Definition arg (z : C) : R := atan2 (snd z) (fst z).
Definition set_amplitude (z a : C) : C := gcf (amp a) (arg z).

Definition rconst (c : R) : rfld := fun _ _ => c.
Definition rone : rfld := rconst 1.
Definition gcf_f (a p : rfld) : fld := fun i j => gcf (a i j) (p i j).
Definition amp_f (u : fld) : rfld := fun i j => amp (u i j).
Definition arg_f (u : fld) : rfld := fun i j => arg (u i j).
Definition setamp_f (u t : fld) : fld := fun i j => set_amplitude (u i j) (t i j).
Definition rmul_f (x y : rfld) : rfld := fun i j => x i j * y i j.
Definition rsq (x : rfld) : rfld := fun i j => x i j * x i j.          (* = rmul_f x x by computation *)
Definition int_f (u : fld) : rfld := fun i j => n2 (u i j).            (* intensity |u|^2 *)

(* the hologram is phase-only: unit amplitude at every sample of the grid *)
Definition phase_only (n m : nat) (u : fld) : Prop := forall i j, (i < n)%nat -> (j < m)%nat -> n2 (u i j) = 1.

(* iteration of a loop body; the body may depend on the iteration number *)
Fixpoint iter {A : Type} (n : nat) (f : A -> A) (x : A) : A :=
  match n with O => x | S k => f (iter k f x) end.
Fixpoint iter_i {A : Type} (n : nat) (f : nat -> A -> A) (x : A) : A :=
  match n with O => x | S k => f k (iter_i k f x) end.

(* ------------------------------------------------------------------------------------------
   stochastic_gradient_descent: the loop owns an arbitrary state (phase variable, Adam moments,
   autograd tape, RNG); afterwards
       hologram = generate_complex_field(1., phase); reconstruction = propagate_beam(hologram, ...)  *)
Section SGD.
Variable St : Type.
Variable step : nat -> St -> St.        (* one iteration: forward model, loss, backward, optimiser step *)
Variable phase_of : St -> rfld.         (* the phase variable held by the optimiser *)
Variable P : fld -> fld.                (* propagate_beam with the caller's k, distance, pitch, wavelength, type, padding *)
Definition sgd_epilogue (phi : rfld) : fld * fld := (gcf_f rone phi, P (gcf_f rone phi)).
Definition sgd (n : nat) (s0 : St) : fld * fld := sgd_epilogue (phase_of (iter_i n step s0)).
End SGD.

(* ------------------------------------------------------------------------------------------
   odak.learn.wave.gerchberg_saxton: state = (hologram, reconstruction)
       hologram = P(-z) reconstruction; reconstruction = set_amplitude(P(+z) hologram, field)
   epilogue: reconstruction = P(+z) hologram.  (For zero iterations Python raises: `hologram` is unbound;
   h0 stands for that unbound value and the theorems show that it is irrelevant for n >= 1.) *)
Section GSTorch.
Variables Pf Pb : fld -> fld.
Definition gst_body (target : fld) (s : fld * fld) : fld * fld :=
  let h := Pb (snd s) in (h, setamp_f (Pf h) target).
Definition gst_epilogue (s : fld * fld) : fld * fld := (fst s, Pf (fst s)).
Definition gs_torch (n : nat) (field h0 : fld) : fld * fld :=
  gst_epilogue (iter n (gst_body field) (h0, field)).
End GSTorch.

(* ------------------------------------------------------------------------------------------
   odak.wave.gerchberg_saxton (NumPy): works on the zero-padded 2h x 2w grid; the h x w window that
   odak.tools.zero_pad fills starts at (2h)/2 - h/2 = h - h/2 (C08). *)
Definition win0 (h : nat) : nat := h - h / 2.
Definition slice (a b c d : nat) (u : fld) : fld :=
  fun i j => if (i <? b - a)%nat && (j <? d - c)%nat then u (a + i)%nat (c + j)%nat else RtoC 0.
Definition inwin (a b c d i j : nat) : bool := (a <=? i)%nat && (i <? b)%nat && (c <=? j)%nat && (j <? d)%nat.
Definition paste (a b c d : nat) (t x : rfld) : rfld :=
  fun i j => if inwin a b c d i j then t (i - a)%nat (j - c)%nat else x i j.
Definition padf (h w : nat) (u : fld) : fld :=
  fun i j => if inwin (win0 h) (win0 h + h) (win0 w) (win0 w + w) i j then u (i - win0 h)%nat (j - win0 w)%nat else RtoC 0.
Definition cropf (h w : nat) : fld -> fld := slice (win0 h) (win0 h + h) (win0 w) (win0 w + w).

Section GSNumpy.
Variables h w : nat.
Variables Pf Pb : fld -> fld.           (* propagate_beam by +distance / -distance on the padded grid *)
Definition gsn_body (target : rfld) (H : fld) : fld :=
  let R := Pf H in
  let R' := gcf_f (paste (win0 h) (win0 h + h) (win0 w) (win0 w + w) target (amp_f R)) (arg_f R) in
  let H' := Pb R' in
  padf h w (cropf h w (gcf_f rone (arg_f H'))).
Definition gsn_epilogue (H : fld) : fld * fld := (cropf h w H, cropf h w (Pf H)).
Definition gs_numpy (n : nat) (target : rfld) (H0 : fld) : fld * fld := gsn_epilogue (iter n (gsn_body target) H0).
End GSNumpy.

(* ------------------------------------------------------------------------------------------
   odak.wave.gerchberg_saxton_3d (NumPy, repaired crop window, target_type = 'no constraint'): one padded
   hologram, L planes; every iteration replaces the hologram by the SUM over the planes of the zero-padded,
   cropped, unit-amplitude back-propagated layers; only the cropped hologram is returned (no reconstruction). *)
Fixpoint fsum (n : nat) (f : nat -> fld) : fld := match n with O => fzero | S k => fadd (fsum k f) (f k) end.
Fixpoint csum (n : nat) (f : nat -> C) : C := match n with O => RtoC 0 | S k => Cplus (csum k f) (f k) end.
Definition rabs_f (x : rfld) : rfld := fun i j => Rabs (x i j).
Section GS3D.
Variables h w L : nat.
Variables Pf Pb : nat -> fld -> fld.     (* propagate_beam by +distances[d] / -distances[d] on the padded grid *)
Definition gs3_layer (target : rfld) (d : nat) (H : fld) : fld :=
  let R := Pf d H in
  let R' := gcf_f (paste (win0 h) (win0 h + h) (win0 w) (win0 w + w) (rabs_f target) (amp_f R)) (arg_f R) in
  padf h w (cropf h w (gcf_f rone (arg_f (Pb d R')))).
Definition gs3_body (targets : nat -> rfld) (H : fld) : fld := fsum L (fun d => gs3_layer (targets d) d H).
Definition gs3_epilogue (H : fld) : fld := cropf h w H.
Definition gs3d (n : nat) (targets : nat -> rfld) (H0 : fld) : fld := gs3_epilogue (iter n (gs3_body targets) H0).
End GS3D.

(* the window the code cut before the repair: centre -+ size/2 around the centre (2h)/2 = h of the padded
   grid: it starts where the padded content starts but is 2 (h/2) long *)
Definition legacy_start (h : nat) : nat := (2 * h) / 2 - h / 2.
Definition legacy_stop (h : nat) : nat := (2 * h) / 2 + h / 2.
Definition legacy_len (h : nat) : nat := legacy_stop h - legacy_start h.
(* the repaired window, as a function that can be evaluated (B2) *)
Definition window (h : nat) : nat * nat := (win0 h, win0 h + h)%nat.

(* ------------------------------------------------------------------------------------------
   multi_color_hologram_optimizer.optimize:
       phases = quantize(phases % 2pi, bits, [0, 2pi]) / 2^bits * 2 * pi; reconstruct(phases) *)
Definition two_pi : R := 2 * PI.
Definition qlevel (b : nat) (x : R) : R := Rfloor (Rfmod x two_pi / two_pi * 2 ^ b).
Definition qphase (b : nat) (x : R) : R := qlevel b x / 2 ^ b * 2 * PI.
Definition qphase_f (b : nat) (g : nat -> rfld) : nat -> rfld := fun f i j => qphase b (g f i j).
Section MultiColor.
Variable Out : Type.
Variable RECON : (nat -> rfld) -> Out.   (* propagator.reconstruct: frames of phases -> intensities *)
Definition multicolor_epilogue (b : nat) (g : nat -> rfld) : (nat -> rfld) * Out := (qphase_f b g, RECON (qphase_f b g)).
Variable St : Type.
Variable step : nat -> St -> St.
Variable phases_of : St -> nat -> rfld.
Definition multicolor (b n : nat) (s0 : St) : (nat -> rfld) * Out := multicolor_epilogue b (phases_of (iter_i n step s0)).
End MultiColor.

(* ------------------------------------------------------------------------------------------
   multiplane_hologram_optimizer.optimize: hologram H from the loop;
       phase = angle H; amplitude = |H|; intensities[p] = |model_p (generate_complex_field(amplitude, phase))|^2 *)
Section MultiPlane.
Variable MODEL : nat -> fld -> fld.
Definition mp_reconstruct (a p : rfld) : nat -> rfld := fun plane => rsq (amp_f (MODEL plane (gcf_f a p))).
Definition multiplane_epilogue (H : fld) : rfld * rfld * (nat -> rfld) := (arg_f H, amp_f H, mp_reconstruct (amp_f H) (arg_f H)).
End MultiPlane.

(* ------------------------------------------------------------------------------------------
   shift_w_double_phase: global phase of the shift, amplitude normalisation, double-phase encoding *)
Definition global_phase (ds lam : R) : C := Cexpi (- 2 * PI * ds / lam).
(* before the repair the code took cos / sin of exp(-2 pi ds / lam) *)
Definition legacy_phase_arg (ds lam : R) : R := exp (- 2 * PI * ds / lam).
Definition float32_max : R := 340282346638528859811704183484516925440.

Definition checker (i j : nat) : bool := Nat.even (i + j).
Definition dpe_px (low : bool) (pzm off : R) : R := if low then pzm - off else pzm + off.
Definition dpe (pzm off : rfld) : rfld := fun i j => dpe_px (checker i j) (pzm i j) (off i j).
