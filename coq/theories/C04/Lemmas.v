(* C04 — proofs about the model (real analysis over the continuous kernels, Gaussian-beam algebra). *)
From Coq Require Import Reals Lra Psatz QArith Qreals.
From Coquelicot Require Import Complex.
From OdakV Require Import Base.RealAux Wave.Fields Wave.Kernels C04.Model.
Open Scope R_scope.

(* side conditions of field *)
Lemma sq_pos_of_neq x : x <> 0 -> 0 < x * x.
Proof. intros H. destruct (Rtotal_order x 0) as [Hx | [Hx | Hx]]; [nra | contradiction | nra]. Qed.
Ltac sqpos := repeat match goal with H : ?x <> 0 |- _ =>
  let T := constr:(0 < x * x) in
  lazymatch goal with _ : T |- _ => fail | _ => idtac end; pose proof (sq_pos_of_neq x H) end.
Ltac kw k w0 := assert (k * w0 ^ 2 <> 0) by (apply Rmult_integral_contrapositive_currified; [assumption | apply pow_nonzero; assumption]);
  sqpos; assert (0 < w0 ^ 4) by nra; assert (0 < w0 * w0 * (k * k)) by nra.
Ltac nz := repeat split; first [assumption | apply PI_neq0 | lra | nra | (intro; nra)].

(* ------------------------------------------------------------------ paraxial expansion of the square root *)
Lemma sqrt_paraxial x : 0 <= x <= 1 -> 0 <= (1 - x / 2) - sqrt (1 - x) <= x ^ 2 / 2.
Proof.
  intros [H0 H1].
  assert (Hs0 : 0 <= sqrt (1 - x)) by apply sqrt_pos.
  assert (Hs2 : sqrt (1 - x) * sqrt (1 - x) = 1 - x) by (apply sqrt_sqrt; lra).
  set (s := sqrt (1 - x)) in *.
  assert (Hs1 : s <= 1) by nra.
  assert (E : (1 - x / 2) - s = (1 - s) ^ 2 / 2) by nra.
  rewrite E. split; [nra|].
  assert (Ex : x = (1 - s) * (1 + s)) by nra.
  assert (0 <= (1 - s) ^ 2) by nra.
  assert (Hq : x ^ 2 = (1 - s) ^ 2 * (1 + s) ^ 2) by (rewrite Ex at 1; ring).
  rewrite Hq. assert (1 <= (1 + s) ^ 2) by nra. nra.
Qed.
(* the bound is attained to first order: the difference is exactly (1 - sqrt(1-x))^2 / 2 *)
Lemma sqrt_paraxial_exact x : 0 <= x <= 1 -> (1 - x / 2) - sqrt (1 - x) = (1 - sqrt (1 - x)) ^ 2 / 2.
Proof.
  intros [H0 H1]. assert (Hs2 : sqrt (1 - x) * sqrt (1 - x) = 1 - x) by (apply sqrt_sqrt; lra). nra.
Qed.

Lemma sin2_nonneg lam fx fy : 0 <= sin2 lam fx fy.
Proof. unfold sin2. assert (0 <= lam ^ 2) by nra. assert (0 <= fx ^ 2 + fy ^ 2) by nra. nra. Qed.
Lemma kz_as_sin2 lam fx fy : kz_as lam fx fy = wavenum lam * sqrt (1 - sin2 lam fx fy).
Proof. unfold kz_as, wavenum, sin2. f_equal. f_equal. ring. Qed.
Lemma kz_tf_sin2 lam fx fy : lam <> 0 -> kz_tf lam fx fy = wavenum lam * (1 - sin2 lam fx fy / 2).
Proof. intros Hl. unfold kz_tf, wavenum, sin2. field. exact Hl. Qed.

(* Fresnel transfer function = paraxial expansion of the angular spectrum; the error is of fourth order in
   the propagation angle and the Fresnel phase never lags *)
Lemma as_tf_gap lam fx fy : 0 < lam -> sin2 lam fx fy <= 1 ->
  0 <= kz_tf lam fx fy - kz_as lam fx fy <= wavenum lam * (sin2 lam fx fy ^ 2 / 2).
Proof.
  intros Hl Hx. rewrite kz_as_sin2, kz_tf_sin2 by lra.
  pose proof (sin2_nonneg lam fx fy) as H0.
  pose proof (sqrt_paraxial (sin2 lam fx fy) (conj H0 Hx)) as [Ha Hb].
  assert (Hk : 0 < wavenum lam) by (unfold wavenum; apply Rdiv_lt_0_compat; [pose proof PI_RGT_0; lra | lra]).
  set (x := sin2 lam fx fy) in *. set (s := sqrt (1 - x)) in *. split; nra.
Qed.
Lemma as_tf_close lam z fx fy : 0 < lam -> sin2 lam fx fy <= 1 ->
  Rabs (ph_as lam z fx fy - ph_tf lam z fx fy) <= Rabs (wavenum lam * z) * (sin2 lam fx fy ^ 2 / 2).
Proof.
  intros Hl Hx. unfold ph_as, ph_tf.
  pose proof (as_tf_gap lam fx fy Hl Hx) as [Ha Hb].
  assert (Hk : 0 < wavenum lam) by (unfold wavenum; apply Rdiv_lt_0_compat; [pose proof PI_RGT_0; lra | lra]).
  replace (z * kz_as lam fx fy - z * kz_tf lam fx fy) with (- z * (kz_tf lam fx fy - kz_as lam fx fy)) by ring.
  rewrite !Rabs_mult, Rabs_Ropp. rewrite (Rabs_pos_eq (wavenum lam)) by lra.
  rewrite (Rabs_pos_eq (kz_tf lam fx fy - kz_as lam fx fy)) by lra.
  pose proof (Rabs_pos z). nra.
Qed.

(* ------------------------------------------------------------------ same physics: dispersion relations *)
(* every plane-wave component exp i(2 pi fx x + 2 pi fy y + kz z) of the angular-spectrum kernel solves the
   Helmholtz equation; the Fresnel kernel obeys its paraxial form kz = k - (kx^2 + ky^2) / 2k *)
Lemma as_dispersion lam fx fy : lam <> 0 -> sin2 lam fx fy <= 1 ->
  kz_as lam fx fy ^ 2 + (2 * PI * fx) ^ 2 + (2 * PI * fy) ^ 2 = wavenum lam ^ 2.
Proof.
  intros Hl Hx. rewrite kz_as_sin2.
  assert (Hs : sqrt (1 - sin2 lam fx fy) * sqrt (1 - sin2 lam fx fy) = 1 - sin2 lam fx fy) by (apply sqrt_sqrt; lra).
  replace ((wavenum lam * sqrt (1 - sin2 lam fx fy)) ^ 2) with (wavenum lam ^ 2 * (sqrt (1 - sin2 lam fx fy) * sqrt (1 - sin2 lam fx fy))) by ring.
  rewrite Hs. unfold wavenum, sin2. field. exact Hl.
Qed.
Lemma tf_dispersion lam fx fy : lam <> 0 ->
  kz_tf lam fx fy = wavenum lam - ((2 * PI * fx) ^ 2 + (2 * PI * fy) ^ 2) / (2 * wavenum lam).
Proof. intros Hl. unfold kz_tf, wavenum. field. split; [exact Hl | apply PI_neq0]. Qed.
Lemma tf_quadratic lam z fx fy : ph_tf lam z fx fy = wavenum lam * z + tf_quad lam z * (fx ^ 2 + fy ^ 2).
Proof. unfold ph_tf, kz_tf, wavenum, tf_quad. ring. Qed.

(* ------------------------------------------------------------------ same direction: +z *)
Lemma wavenum_pos lam : 0 < lam -> 0 < wavenum lam.
Proof. intros Hl. unfold wavenum. apply Rdiv_lt_0_compat; [pose proof PI_RGT_0; lra | lra]. Qed.
Lemma kz_as_pos lam fx fy : 0 < lam -> sin2 lam fx fy < 1 -> 0 < kz_as lam fx fy.
Proof.
  intros Hl Hx. rewrite kz_as_sin2. apply Rmult_lt_0_compat; [apply wavenum_pos, Hl | apply sqrt_lt_R0; lra].
Qed.
Lemma kz_tf_pos lam fx fy : 0 < lam -> sin2 lam fx fy < 2 -> 0 < kz_tf lam fx fy.
Proof.
  intros Hl Hx. rewrite kz_tf_sin2 by lra. apply Rmult_lt_0_compat; [apply wavenum_pos, Hl | lra].
Qed.
Lemma kz_on_axis lam : 0 < lam -> kz_as lam 0 0 = wavenum lam /\ kz_tf lam 0 0 = wavenum lam.
Proof.
  intros Hl. split.
  - rewrite kz_as_sin2. unfold sin2. replace (1 - lam ^ 2 * (0 ^ 2 + 0 ^ 2)) with 1 by ring. rewrite sqrt_1. ring.
  - unfold kz_tf, wavenum. ring.
Qed.
(* the phase every method accumulates grows with z: all kernels describe the wave exp(+i kz z) *)
Lemma forward_direction lam fx fy z1 z2 : 0 < lam -> sin2 lam fx fy < 1 -> z1 < z2 ->
  ph_as lam z1 fx fy < ph_as lam z2 fx fy /\ ph_tf lam z1 fx fy < ph_tf lam z2 fx fy /\
  ph_tf_legacy lam z2 fx fy < ph_tf_legacy lam z1 fx fy.
Proof.
  intros Hl Hx Hz. pose proof (kz_as_pos lam fx fy Hl Hx). assert (Hx2 : sin2 lam fx fy < 2) by lra.
  pose proof (kz_tf_pos lam fx fy Hl Hx2). unfold ph_as, ph_tf, ph_tf_legacy. repeat split; nra.
Qed.
Lemma tf_legacy_is_backwards lam z fx fy : ph_tf_legacy lam z fx fy = ph_tf lam (- z) fx fy.
Proof. unfold ph_tf_legacy, ph_tf. ring. Qed.

(* ------------------------------------------------------------------ the Fresnel pair: impulse response <-> transfer function
   FT [exp (i a r^2)] (f) = (i pi / a) exp (- i pi^2 f^2 / a)   (cited, Goodman 4.1; not proved here).
   With a = k / 2z this is the statement that the coefficients and the prefactor of odak's impulse response
   are those of its transfer function. *)
Lemma ir_tf_pair_coeff lam z : lam <> 0 -> z <> 0 -> - (PI ^ 2 / ir_quad (wavenum lam) z) = tf_quad lam z.
Proof. intros Hl Hz. assert (Hp := PI_neq0). unfold ir_quad, tf_quad, wavenum. field. repeat split; assumption. Qed.
Lemma ir_tf_pair_prefactor lam z : lam <> 0 -> z <> 0 ->
  Cmult (ir_pref lam z) (Cmult Ci (RtoC (PI / ir_quad (wavenum lam) z))) = RtoC 1.
Proof.
  intros Hl Hz. unfold ir_pref, ir_quad, wavenum, Cdiv, Cmult, Cinv, Ci, RtoC; simpl.
  assert (PI <> 0) by apply PI_neq0. f_equal; field; repeat split; assumption.
Qed.
Lemma ir_tf_signs k lam z : 0 < k -> 0 < lam -> z <> 0 -> ir_quad k z * tf_quad lam z < 0.
Proof.
  intros Hk Hl Hz. unfold ir_quad, tf_quad.
  assert (Hp := PI_RGT_0).
  replace (k / (2 * z) * - (PI * lam * z)) with (- (k * PI * lam / 2)) by (field; exact Hz).
  assert (0 < k * PI) by (apply Rmult_lt_0_compat; lra).
  assert (0 < k * PI * lam) by (apply Rmult_lt_0_compat; lra). lra.
Qed.
Lemma ir_quad_sign k z : 0 < k -> (0 < z -> 0 < ir_quad k z) /\ (z < 0 -> ir_quad k z < 0).
Proof.
  intros Hk. unfold ir_quad. split; intros Hz.
  - apply Rdiv_lt_0_compat; lra.
  - replace (k / (2 * z)) with (- (k / (2 * - z))) by (field; lra).
    assert (0 < k / (2 * - z)) by (apply Rdiv_lt_0_compat; lra). lra.
Qed.
(* modulus of one weighted sample of the impulse response: weight / (lam |z|) *)
Lemma ir_pref_n2 lam z : lam <> 0 -> z <> 0 -> n2 (ir_pref lam z) = / (lam * z) ^ 2.
Proof.
  intros Hl Hz. unfold ir_pref, n2, Cdiv, Cmult, Cinv, Ci, RtoC; simpl. field. split; assumption.
Qed.
Lemma ir_sample_n2 wgt k lam z r2 : lam <> 0 -> z <> 0 -> n2 (ir_sample wgt k lam z r2) = (wgt / (lam * z)) ^ 2.
Proof.
  intros Hl Hz. unfold ir_sample. rewrite !n2_mult, Cexpi_n2, ir_pref_n2 by assumption.
  unfold n2, RtoC; simpl. field. split; assumption.
Qed.
(* real and imaginary part of a sample, as the tracer sees them *)
Lemma ir_sample_parts wgt k lam z r2 : lam <> 0 -> z <> 0 ->
  ir_sample wgt k lam z r2 = (wgt * sin (ir_quad k z * r2) / (lam * z), - (wgt * cos (ir_quad k z * r2) / (lam * z))).
Proof.
  intros Hl Hz. unfold ir_sample, ir_pref, Cexpi, Cdiv, Cmult, Cinv, Ci, RtoC; simpl.
  f_equal; field; split; assumption.
Qed.

(* ------------------------------------------------------------------ thin lens *)
Lemma lens_focus k f z : k <> 0 -> f <> 0 -> z <> 0 -> (lens_quad k f + ir_quad k z = 0 <-> z = f).
Proof.
  intros Hk Hf Hz. unfold lens_quad, ir_quad. split; intros H.
  - assert (E : - (k / (2 * f)) + k / (2 * z) = k * (f - z) / (2 * f * z)) by (field; split; assumption).
    rewrite E in H. apply Rmult_eq_compat_r with (r := 2 * f * z) in H.
    unfold Rdiv in H. rewrite Rmult_assoc, Rinv_l, Rmult_0_l, Rmult_1_r in H
      by (repeat apply Rmult_integral_contrapositive_currified; try assumption; lra).
    apply Rmult_integral in H. destruct H as [H | H]; [contradiction | lra].
  - subst z. field. exact Hf.
Qed.
(* the conjugated impulse response / transfer function (and equally the pre-repair NumPy lens) focus at -f *)
Lemma lens_focus_conjugated k f z : k <> 0 -> f <> 0 -> z <> 0 -> (lens_quad k f + ir_quad k (- z) = 0 <-> z = - f).
Proof.
  intros Hk Hf Hz. unfold lens_quad, ir_quad. split; intros H.
  - assert (E : - (k / (2 * f)) + k / (2 * - z) = - (k * (f + z)) / (2 * f * z)) by (field; split; assumption).
    rewrite E in H. apply Rmult_eq_compat_r with (r := 2 * f * z) in H.
    unfold Rdiv in H. rewrite Rmult_assoc, Rinv_l, Rmult_0_l, Rmult_1_r in H
      by (repeat apply Rmult_integral_contrapositive_currified; try assumption; lra).
    assert (H' : k * (f + z) = 0) by lra.
    apply Rmult_integral in H'. destruct H' as [H' | H']; [contradiction | lra].
  - subst z. field. exact Hf.
Qed.
Lemma lens_legacy_focus k f z : k <> 0 -> f <> 0 -> z <> 0 -> (lens_quad_legacy k f + ir_quad k z = 0 <-> z = - f).
Proof.
  intros Hk Hf Hz.
  replace (lens_quad_legacy k f + ir_quad k z) with (- (lens_quad k f + ir_quad k (- z)))
    by (unfold lens_quad_legacy, lens_quad, ir_quad; field; split; assumption).
  rewrite <- (lens_focus_conjugated k f z Hk Hf Hz). split; intros H; lra.
Qed.
Lemma lens_quad_sign k f : 0 < k -> 0 < f -> lens_quad k f < 0 /\ 0 < lens_quad_legacy k f.
Proof.
  intros Hk Hf. unfold lens_quad, lens_quad_legacy.
  assert (0 < k / (2 * f)) by (apply Rdiv_lt_0_compat; lra). lra.
Qed.

(* ------------------------------------------------------------------ Gaussian beam *)
Lemma cz_lambda lam z : lam <> 0 -> cz (wavenum lam) z = lam * z / PI.
Proof. intros Hl. unfold cz, wavenum. field. nz. Qed.
(* spectrum of the waist times the Fresnel transfer function = spectrum of the beam of parameter s(z):
   -pi^2 f^2 s + i tf_quad f^2 = -pi^2 f^2 (s + i lam z / pi) *)
Lemma gauss_q lam z (s : C) f2 : lam <> 0 ->
  Cplus (Cmult (RtoC (- (PI ^ 2 * f2))) s) (0, tf_quad lam z * f2) = Cmult (RtoC (- (PI ^ 2 * f2))) (q_prop (wavenum lam) z s).
Proof.
  intros Hl. unfold q_prop. rewrite cz_lambda by exact Hl. destruct s as [a b].
  unfold Cplus, Cmult, RtoC, tf_quad; simpl. f_equal; field; apply PI_neq0.
Qed.
Lemma gauss_q_waist lam z w0 f2 : lam <> 0 ->
  Cplus (RtoC (- (PI ^ 2 * w0 ^ 2 * f2))) (0, tf_quad lam z * f2) = Cmult (RtoC (- (PI ^ 2 * f2))) (gq (wavenum lam) w0 z).
Proof.
  intros Hl. pose proof (gauss_q lam z (RtoC (w0 ^ 2)) f2 Hl) as H.
  replace (gq (wavenum lam) w0 z) with (q_prop (wavenum lam) z (RtoC (w0 ^ 2)))
    by (unfold q_prop, gq, Cplus, RtoC; simpl; f_equal; ring).
  rewrite <- H. unfold Cplus, Cmult, RtoC; simpl. f_equal; ring.
Qed.
(* the conjugated kernel sends s to s - i lam z / pi: the beam of distance -z *)
Lemma gauss_q_legacy lam z (s : C) f2 : lam <> 0 ->
  Cplus (Cmult (RtoC (- (PI ^ 2 * f2))) s) (0, - (tf_quad lam z * f2)) = Cmult (RtoC (- (PI ^ 2 * f2))) (q_prop_legacy (wavenum lam) z s).
Proof.
  intros Hl. unfold q_prop_legacy. rewrite cz_lambda by exact Hl. destruct s as [a b].
  unfold Cplus, Cmult, RtoC, tf_quad; simpl. f_equal; field; apply PI_neq0.
Qed.
Lemma q_prop_legacy_is_backwards k z s : k <> 0 -> q_prop_legacy k z s = q_prop k (- z) s.
Proof. intros Hk. unfold q_prop_legacy, q_prop, cz. f_equal. f_equal. field. exact Hk. Qed.
Lemma q_prop_add k z1 z2 s : k <> 0 -> q_prop k z2 (q_prop k z1 s) = q_prop k (z1 + z2) s.
Proof.
  intros Hk. destruct s as [a b]. unfold q_prop, cz, Cplus; simpl. f_equal; field; exact Hk.
Qed.
Lemma gq_is_prop k w0 z : gq k w0 z = q_prop k z (RtoC (w0 ^ 2)).
Proof. unfold gq, q_prop, Cplus, RtoC; simpl. f_equal; ring. Qed.

Lemma gq_den_pos k w0 z : w0 <> 0 -> 0 < (w0 ^ 2) ^ 2 + cz k z ^ 2.
Proof. intros Hw. assert (0 < w0 ^ 2) by nra. nra. Qed.
Lemma zR_neq0 k w0 : k <> 0 -> w0 <> 0 -> zR k w0 <> 0.
Proof.
  intros Hk Hw. unfold zR. assert (Hw2 : w0 ^ 2 <> 0) by (apply pow_nonzero; exact Hw).
  intros E. assert (E2 : k * w0 ^ 2 = 0) by lra. apply Rmult_integral in E2. tauto.
Qed.
Lemma gauss_w2_pos k w0 z : k <> 0 -> w0 <> 0 -> 0 < gauss_w2 k w0 z.
Proof. intros Hk Hw. unfold gauss_w2. assert (0 < w0 ^ 2) by nra. nra. Qed.
(* 1/s = 1/w^2 - i beta *)
Lemma gauss_inv k w0 z : k <> 0 -> w0 <> 0 -> Cinv (gq k w0 z) = (1 / gauss_w2 k w0 z, - gauss_beta k w0 z).
Proof.
  intros Hk Hw. pose proof (gq_den_pos k w0 z Hw) as Hd. pose proof (zR_neq0 k w0 Hk Hw) as Hz.
  unfold Cinv, gq, gauss_w2, gauss_beta; simpl.
  assert (Hd' : w0 ^ 2 * (w0 ^ 2 * 1) + cz k z * (cz k z * 1) <> 0) by nra.
  assert (Hd2 : w0 ^ 2 * w0 ^ 2 + cz k z * cz k z <> 0) by nra.
  f_equal.
  - unfold zR, cz in *. field. repeat split; try assumption. nra.
  - unfold Rdiv. ring.
Qed.
Lemma gauss_width k w0 z : k <> 0 -> w0 <> 0 -> 1 / fst (Cinv (gq k w0 z)) = w0 ^ 2 * (1 + (z / zR k w0) ^ 2).
Proof.
  intros Hk Hw. rewrite gauss_inv by assumption. simpl. pose proof (gauss_w2_pos k w0 z Hk Hw).
  pose proof (zR_neq0 k w0 Hk Hw). sqpos. unfold gauss_w2 in *. field. nz.
Qed.
(* wavefront curvature: the exponent - r^2 / s has the imaginary part + beta r^2 and beta has the sign of z
   (diverging behind the waist, like the impulse response exp(+i k r^2 / 2z)) *)
Lemma gauss_curv_sign k w0 z : 0 < k -> w0 <> 0 ->
  (0 < z -> snd (Cinv (gq k w0 z)) < 0) /\ (z < 0 -> 0 < snd (Cinv (gq k w0 z))) /\ (z = 0 -> snd (Cinv (gq k w0 z)) = 0).
Proof.
  intros Hk Hw. rewrite gauss_inv by (try assumption; lra). simpl.
  pose proof (gq_den_pos k w0 z Hw) as Hd. unfold gauss_beta.
  assert (Hc : cz k z = z * (2 / k)) by (unfold cz; field; lra).
  assert (H2k : 0 < 2 / k) by (apply Rdiv_lt_0_compat; lra).
  repeat split; intros Hz.
  - assert (0 < cz k z) by (rewrite Hc; nra).
    assert (0 < cz k z / ((w0 ^ 2) ^ 2 + cz k z ^ 2)) by (apply Rdiv_lt_0_compat; assumption). lra.
  - assert (0 < - cz k z) by (rewrite Hc; nra).
    assert (0 < - cz k z / ((w0 ^ 2) ^ 2 + cz k z ^ 2)) by (apply Rdiv_lt_0_compat; assumption).
    replace (- (cz k z / ((w0 ^ 2) ^ 2 + cz k z ^ 2))) with (- cz k z / ((w0 ^ 2) ^ 2 + cz k z ^ 2)) by (field; lra). lra.
  - subst z. rewrite Hc. unfold Rdiv. rewrite !Rmult_0_l. lra.
Qed.
Lemma gauss_beta_sign k w0 z : 0 < k -> w0 <> 0 -> (0 < z -> 0 < gauss_beta k w0 z) /\ (z < 0 -> gauss_beta k w0 z < 0).
Proof.
  intros Hk Hw. pose proof (gauss_curv_sign k w0 z Hk Hw) as [Ha [Hb _]].
  rewrite gauss_inv in Ha, Hb by (try assumption; lra). simpl in *. split; intros Hz; [specialize (Ha Hz) | specialize (Hb Hz)]; lra.
Qed.
Lemma gauss_beta_radius k w0 z : k <> 0 -> w0 <> 0 -> z <> 0 -> gauss_beta k w0 z = k / (2 * gauss_radius k w0 z).
Proof.
  intros Hk Hw Hz. kw k w0.
  unfold gauss_beta, gauss_radius, zR, cz. field. nz.
Qed.
(* on-axis amplitude w0 / w(z) *)
Lemma gauss_amplitude k w0 z : k <> 0 -> w0 <> 0 ->
  n2 (Cdiv (RtoC (w0 ^ 2)) (gq k w0 z)) = gauss_amp2 k w0 z.
Proof.
  intros Hk Hw. kw k w0.
  unfold gauss_amp2, gauss_w2, n2, Cdiv, Cmult, Cinv, gq, RtoC; simpl.
  unfold zR, cz. field. nz.
Qed.
Lemma gauss_waist k w0 : k <> 0 -> w0 <> 0 ->
  gauss_w2 k w0 0 = w0 ^ 2 /\ gauss_beta k w0 0 = 0 /\ gauss_amp2 k w0 0 = 1.
Proof.
  intros Hk Hw. kw k w0.
  unfold gauss_amp2, gauss_w2, gauss_beta, zR, cz. repeat split; field; nz.
Qed.
(* amplitude and width do not see the sign of z, the curvature does: it is the observable that separates
   a kernel from its conjugate *)
Lemma gauss_even_odd k w0 z : k <> 0 -> w0 <> 0 ->
  gauss_w2 k w0 (- z) = gauss_w2 k w0 z /\ gauss_amp2 k w0 (- z) = gauss_amp2 k w0 z /\ gauss_beta k w0 (- z) = - gauss_beta k w0 z.
Proof.
  intros Hk Hw. kw k w0.
  assert (E : gauss_w2 k w0 (- z) = gauss_w2 k w0 z) by (unfold gauss_w2, zR; field; nz).
  repeat split; [exact E | unfold gauss_amp2; rewrite E; reflexivity |].
  unfold gauss_beta, cz. field. nz.
Qed.
(* squared normalised overlap of the beam with the beam of the opposite curvature: 1 / (1 + (z/zR)^2) *)
Lemma gauss_conj_overlap k w0 z : k <> 0 -> w0 <> 0 ->
  n2 (Cdiv (RtoC (2 * fst (Cinv (gq k w0 z)))) (Cmult (RtoC 2) (Cinv (gq k w0 z)))) = 1 / (1 + (z / zR k w0) ^ 2).
Proof.
  intros Hk Hw. kw k w0.
  unfold n2, Cdiv, Cmult, Cinv, RtoC, gq; simpl.
  unfold zR, cz. field. nz.
Qed.

(* ------------------------------------------------------------------ Gaussian beam through the library's lens *)
Definition tpar (k w0 f : R) : R := zR k w0 / f.
Lemma tpar_neq0 k w0 f : k <> 0 -> w0 <> 0 -> f <> 0 -> tpar k w0 f <> 0.
Proof.
  intros Hk Hw Hf. unfold tpar, Rdiv. apply Rmult_integral_contrapositive_currified;
    [apply zR_neq0; assumption | apply Rinv_neq_0_compat; exact Hf].
Qed.
Lemma q_lens_value k w0 f : k <> 0 -> w0 <> 0 -> f <> 0 ->
  q_lens k w0 f = (w0 ^ 2 / (1 + tpar k w0 f ^ 2), - (w0 ^ 2 * tpar k w0 f / (1 + tpar k w0 f ^ 2))).
Proof.
  intros Hk Hw Hf. kw k w0.
  unfold q_lens, q_phase, lens_quad, Cinv, Cplus, RtoC; simpl. unfold tpar, zR.
  f_equal; field; nz.
Qed.
(* contrast between the two candidate focal planes: exactly 1 + 4 (zR / f)^2 in favour of +f *)
Lemma lens_gauss_contrast k w0 f : k <> 0 -> w0 <> 0 -> f <> 0 ->
  on_axis k (q_lens k w0 f) f = (1 + 4 * tpar k w0 f ^ 2) * on_axis k (q_lens k w0 f) (- f).
Proof.
  intros Hk Hw Hf. rewrite q_lens_value by assumption.
  pose proof (tpar_neq0 k w0 f Hk Hw Hf) as Ht.
  assert (Ecf : cz k f = w0 ^ 2 / tpar k w0 f) by (unfold cz, tpar, zR; field; nz).
  assert (Ecf' : cz k (- f) = - (w0 ^ 2 / tpar k w0 f)) by (unfold cz, tpar, zR; field; nz).
  unfold on_axis, q_prop, Cplus, n2; simpl. rewrite Ecf, Ecf'.
  set (t := tpar k w0 f) in *. sqpos. assert (0 < w0 ^ 4) by nra. assert (0 < t ^ 2) by nra.
  field. nz.
Qed.
(* the conjugated kernel inverts it: with the pre-repair transfer function +f and -f swap their roles *)
Lemma lens_gauss_contrast_legacy k w0 f : k <> 0 -> w0 <> 0 -> f <> 0 ->
  on_axis_legacy k (q_lens k w0 f) (- f) = (1 + 4 * tpar k w0 f ^ 2) * on_axis_legacy k (q_lens k w0 f) f.
Proof.
  intros Hk Hw Hf. pose proof (lens_gauss_contrast k w0 f Hk Hw Hf) as H.
  unfold on_axis_legacy. rewrite !q_prop_legacy_is_backwards by exact Hk. rewrite Ropp_involutive. exact H.
Qed.
(* in the plane z = f the spot has the classical radius w0 f / zR = lam f / (pi w0), the wavefront is ... *)
Lemma lens_gauss_spot k w0 f : k <> 0 -> w0 <> 0 -> f <> 0 ->
  1 / fst (Cinv (q_prop k f (q_lens k w0 f))) = (w0 * f / zR k w0) ^ 2.
Proof.
  intros Hk Hw Hf. rewrite q_lens_value by assumption.
  pose proof (tpar_neq0 k w0 f Hk Hw Hf) as Ht. pose proof (zR_neq0 k w0 Hk Hw) as Hz.
  assert (Ecf : cz k f = w0 ^ 2 / tpar k w0 f) by (unfold cz, tpar, zR; field; nz).
  replace (w0 * f / zR k w0) with (w0 / tpar k w0 f) by (unfold tpar; field; nz).
  unfold q_prop, Cplus, Cinv; simpl. rewrite Ecf.
  set (t := tpar k w0 f) in *. sqpos. assert (0 < w0 ^ 4) by nra. assert (0 < t ^ 2) by nra.
  field. nz.
Qed.
(* the on-axis intensity in the focal plane exceeds the intensity at the lens by (zR/f)^2 (1 + (zR/f)^2) / ... : it is > 1
   exactly when the beam is focused, and the plane -f is always dimmer than the lens plane *)
Lemma lens_gauss_gain k w0 f : k <> 0 -> w0 <> 0 -> f <> 0 ->
  on_axis k (q_lens k w0 f) f = tpar k w0 f ^ 2 /\ on_axis k (q_lens k w0 f) (- f) < 1.
Proof.
  intros Hk Hw Hf. pose proof (lens_gauss_contrast k w0 f Hk Hw Hf) as Hc.
  assert (E : on_axis k (q_lens k w0 f) f = tpar k w0 f ^ 2).
  { rewrite q_lens_value by assumption.
    pose proof (tpar_neq0 k w0 f Hk Hw Hf) as Ht.
    assert (Ecf : cz k f = w0 ^ 2 / tpar k w0 f) by (unfold cz, tpar, zR; field; nz).
    unfold on_axis, q_prop, Cplus, n2; simpl. rewrite Ecf.
    set (t := tpar k w0 f) in *. sqpos. assert (0 < w0 ^ 4) by nra. assert (0 < t ^ 2) by nra.
    field. nz. }
  split; [exact E|]. rewrite E in Hc.
  pose proof (tpar_neq0 k w0 f Hk Hw Hf) as Ht. sqpos.
  set (t := tpar k w0 f) in *. set (I := on_axis k (q_lens k w0 f) (- f)) in *. nra.
Qed.

(* ------------------------------------------------------------------ the executable copy over Q agrees with the real model *)
Lemma Q2R_zero : Q2R 0 = 0.
Proof. unfold Q2R; simpl. lra. Qed.
Lemma Q2R_one : Q2R 1 = 1.
Proof. unfold Q2R; simpl. lra. Qed.
Lemma Q2R_two : Q2R 2 = 2.
Proof. unfold Q2R; simpl. lra. Qed.
Lemma Q2R_four : Q2R 4 = 4.
Proof. unfold Q2R; simpl. lra. Qed.
Lemma Q2R_neq0 q : ~ (q == 0)%Q <-> Q2R q <> 0.
Proof.
  split; intros H E; apply H.
  - apply eqR_Qeq. rewrite E, Q2R_zero. reflexivity.
  - rewrite (Qeq_eqR _ _ E). apply Q2R_zero.
Qed.
Lemma two_neq0 : ~ (2 == 0)%Q.
Proof. discriminate. Qed.
Lemma Q2R_q_zR k w0 : Q2R (q_zR k w0) = zR (Q2R k) (Q2R w0).
Proof.
  unfold q_zR, zR. rewrite Q2R_div by exact two_neq0. rewrite !Q2R_mult, Q2R_two. simpl. field.
Qed.
Section QModel.
Variables k w0 z f : Q.
Hypothesis Hk : ~ (k == 0)%Q.
Hypothesis Hw : ~ (w0 == 0)%Q.
Let Hk' : Q2R k <> 0 := proj1 (Q2R_neq0 k) Hk.
Let Hw' : Q2R w0 <> 0 := proj1 (Q2R_neq0 w0) Hw.
Lemma q_zR_neq0 : ~ (q_zR k w0 == 0)%Q.
Proof. apply Q2R_neq0. rewrite Q2R_q_zR. apply zR_neq0; assumption. Qed.
Lemma Q2R_q_w2 : Q2R (q_w2 k w0 z) = gauss_w2 (Q2R k) (Q2R w0) (Q2R z).
Proof.
  unfold q_w2, gauss_w2. rewrite Q2R_mult, Q2R_plus, !Q2R_mult, Q2R_one, Q2R_div by exact q_zR_neq0.
  rewrite Q2R_q_zR. simpl. ring.
Qed.
Lemma q_w2_neq0 : ~ (q_w2 k w0 z == 0)%Q.
Proof.
  apply Q2R_neq0. rewrite Q2R_q_w2. pose proof (gauss_w2_pos (Q2R k) (Q2R w0) (Q2R z) Hk' Hw'). lra.
Qed.
Lemma Q2R_q_amp2 : Q2R (q_amp2 k w0 z) = gauss_amp2 (Q2R k) (Q2R w0) (Q2R z).
Proof.
  unfold q_amp2, gauss_amp2. rewrite Q2R_div by exact q_w2_neq0. rewrite Q2R_mult, Q2R_q_w2. simpl. field.
  pose proof (gauss_w2_pos (Q2R k) (Q2R w0) (Q2R z) Hk' Hw'). lra.
Qed.
Lemma Q2R_cz : Q2R (2 * z / k) = cz (Q2R k) (Q2R z).
Proof. unfold cz. rewrite Q2R_div by exact Hk. rewrite Q2R_mult, Q2R_two. reflexivity. Qed.
Lemma q_beta_den : Q2R (w0 * w0 * (w0 * w0) + 2 * z / k * (2 * z / k)) = (Q2R w0 ^ 2) ^ 2 + cz (Q2R k) (Q2R z) ^ 2.
Proof. rewrite Q2R_plus, !Q2R_mult, Q2R_cz. simpl. ring. Qed.
Lemma Q2R_q_beta : Q2R (q_beta k w0 z) = gauss_beta (Q2R k) (Q2R w0) (Q2R z).
Proof.
  unfold q_beta, gauss_beta.
  assert (Hd : ~ (w0 * w0 * (w0 * w0) + 2 * z / k * (2 * z / k) == 0)%Q).
  { apply Q2R_neq0. rewrite q_beta_den. pose proof (gq_den_pos (Q2R k) (Q2R w0) (Q2R z) Hw'). lra. }
  rewrite Q2R_div by exact Hd. rewrite q_beta_den, Q2R_cz. reflexivity.
Qed.
Hypothesis Hf : ~ (f == 0)%Q.
Let Hf' : Q2R f <> 0 := proj1 (Q2R_neq0 f) Hf.
Lemma Q2R_q_contrast : Q2R (q_contrast k w0 f) = 1 + 4 * tpar (Q2R k) (Q2R w0) (Q2R f) ^ 2.
Proof.
  unfold q_contrast, tpar. rewrite Q2R_plus, !Q2R_mult, Q2R_one, Q2R_four, Q2R_div by exact Hf.
  rewrite Q2R_q_zR. simpl. ring.
Qed.
Lemma Q2R_q_spot2 : Q2R (q_spot2 k w0 f) = (Q2R w0 * Q2R f / zR (Q2R k) (Q2R w0)) ^ 2.
Proof.
  unfold q_spot2. rewrite Q2R_mult, Q2R_div by exact q_zR_neq0. rewrite Q2R_mult, Q2R_q_zR. simpl. ring.
Qed.
End QModel.
(* the values computed by vm_compute are those of the real model (Qred does not change the value) *)
Lemma q_predict_sound k w0 z f : ~ (k == 0)%Q -> ~ (w0 == 0)%Q -> ~ (f == 0)%Q ->
  List.map Q2R (q_predict k w0 z f) =
  (gauss_w2 (Q2R k) (Q2R w0) (Q2R z) :: gauss_amp2 (Q2R k) (Q2R w0) (Q2R z) :: gauss_beta (Q2R k) (Q2R w0) (Q2R z)
   :: (1 + 4 * tpar (Q2R k) (Q2R w0) (Q2R f) ^ 2) :: (Q2R w0 * Q2R f / zR (Q2R k) (Q2R w0)) ^ 2 :: nil)%list.
Proof.
  intros Hk Hw Hf. unfold q_predict. cbn [List.map].
  rewrite !(Qeq_eqR _ _ (Qred_correct _)).
  rewrite Q2R_q_w2, Q2R_q_amp2, Q2R_q_beta, Q2R_q_contrast, Q2R_q_spot2 by assumption. reflexivity.
Qed.

(* ------------------------------------------------------------------ statements in the shape the per-run tie uses *)
Lemma sin2_grid_le_1 lam fx fy : 0 <= 1 - (lam * fx) ^ 2 - (lam * fy) ^ 2 -> sin2 lam fx fy <= 1.
Proof. intros H. unfold sin2. nra. Qed.
(* pa, pt: traced phases of an angular-spectrum and a Fresnel transfer-function sample at an in-band frequency *)
Lemma tie_as_tf lam dx z fx fy pa pt : 0 < dx -> 0 < lam -> lam * lam <= 2 * (dx * dx) ->
  Rabs fx <= 1 / (2 * dx) -> Rabs fy <= 1 / (2 * dx) ->
  pa = z * kz_as lam fx fy -> pt = z * kz_tf lam fx fy ->
  pa = ph_as lam z fx fy /\ pt = ph_tf lam z fx fy /\
  Rabs (pa - pt) <= Rabs (wavenum lam * z) * (sin2 lam fx fy ^ 2 / 2) /\
  pt = wavenum lam * z + tf_quad lam z * (fx ^ 2 + fy ^ 2) /\
  (0 < z -> 0 <= pa /\ 0 < pt) /\ (z < 0 -> pa <= 0 /\ pt < 0).
Proof.
  intros Hd Hl Hg Hx Hy Ea Et.
  pose proof (as_all_propagating lam dx fx fy Hl Hd Hg Hx Hy) as Hp.
  pose proof (sin2_grid_le_1 lam fx fy Hp) as Hs.
  assert (Hka : 0 <= kz_as lam fx fy).
  { rewrite kz_as_sin2. apply Rmult_le_pos; [apply Rlt_le, wavenum_pos, Hl | apply sqrt_pos]. }
  assert (Hkt : 0 < kz_tf lam fx fy) by (apply kz_tf_pos; [exact Hl | lra]).
  subst pa pt. repeat split; try reflexivity.
  - apply as_tf_close; assumption.
  - apply tf_quadratic.
  - nra.
  - nra.
  - nra.
  - nra.
Qed.
Lemma sqrt_scale lam q : 0 < lam -> sqrt (1 / lam ^ 2 - q) = sqrt (1 - lam ^ 2 * q) / lam.
Proof.
  intros Hl. replace (1 / lam ^ 2 - q) with ((1 - lam ^ 2 * q) * (/ lam * / lam)) by (field; lra).
  destruct (Rle_lt_dec 0 (1 - lam ^ 2 * q)) as [Hp | Hn].
  - rewrite sqrt_mult_alt by exact Hp. rewrite sqrt_square by (apply Rlt_le, Rinv_0_lt_compat; exact Hl). reflexivity.
  - assert (Hi : 0 < / lam * / lam) by (apply Rmult_lt_0_compat; apply Rinv_0_lt_compat; exact Hl).
    rewrite (sqrt_neg_0 (1 - lam ^ 2 * q)) by lra. rewrite sqrt_neg_0 by nra. unfold Rdiv. ring.
Qed.
Lemma blgrid_in_band dx n i : 0 < dx -> (2 <= n)%nat -> (i < n)%nat -> Rabs (blgrid dx n i) <= 1 / (2 * dx).
Proof.
  intros Hd Hn Hi. unfold blgrid.
  assert (Hn1 : 0 < INR (n - 1)) by (apply lt_0_INR; lia).
  assert (Hn0 : 2 <= INR n) by (change 2 with (INR 2); apply le_INR; exact Hn).
  assert (Hi1 : 0 <= INR i <= INR (n - 1)) by (split; [apply pos_INR | apply le_INR; lia]).
  set (t := INR i / INR (n - 1)).
  assert (Ht : 0 <= t <= 1).
  { unfold t. split; [apply Rmult_le_pos; [lra | apply Rlt_le, Rinv_0_lt_compat; lra]|].
    apply Rmult_le_reg_r with (INR (n - 1)); [lra|]. unfold Rdiv. rewrite Rmult_assoc, Rinv_l by lra. lra. }
  set (e := / (2 * INR n)).
  assert (He : 0 < e <= / 4).
  { unfold e. split; [apply Rinv_0_lt_compat; lra|]. apply Rinv_le_contravar; lra. }
  replace (- (1 / (2 * dx)) + / 2 / (2 * (dx * INR n)) + INR i * ((1 / dx - 2 * (/ 2 / (2 * (dx * INR n)))) / INR (n - 1)))
    with ((1 / (2 * dx)) * ((1 - e) * (2 * t - 1))) by (unfold t, e; field; repeat split; lra).
  assert (Hh : 0 < 1 / (2 * dx)) by (apply Rdiv_lt_0_compat; lra).
  assert (Hb : -1 <= (1 - e) * (2 * t - 1) <= 1) by (split; nra).
  apply Rabs_le. split; nra.
Qed.
Lemma sumsq_nonneg a b : 0 <= a ^ 2 + b ^ 2.
Proof. nra. Qed.
Lemma ir_phase_sign k z r2 : 0 < k -> 0 <= r2 -> (0 < z -> 0 <= ir_quad k z * r2) /\ (z < 0 -> ir_quad k z * r2 <= 0).
Proof. intros Hk Hr. destruct (ir_quad_sign k z Hk) as [Ha Hb]. split; intros Hz; [specialize (Ha Hz) | specialize (Hb Hz)]; nra. Qed.
Lemma lens_phase_sign k f r2 : 0 < k -> 0 < f -> 0 <= r2 -> lens_quad k f * r2 <= 0.
Proof. intros Hk Hf Hr. destruct (lens_quad_sign k f Hk Hf) as [Ha _]. nra. Qed.
(* lens phase + impulse-response chirp: one quadratic phase whose coefficient vanishes exactly at z = f *)
Lemma lens_ir_sum k f z r2 : lens_quad k f * r2 + ir_quad k z * r2 = (lens_quad k f + ir_quad k z) * r2.
Proof. ring. Qed.
Lemma lens_ir_cancel k f r2 : f <> 0 -> lens_quad k f * r2 + ir_quad k f * r2 = 0.
Proof. intros Hf. unfold lens_quad, ir_quad. field. exact Hf. Qed.

(* ------------------------------------------------------------------ band limit *)
Lemma bl_root_pos z L : 1 <= sqrt ((2 * z / L) ^ 2 + 1).
Proof. rewrite <- sqrt_1 at 1. apply sqrt_le_1_alt. assert (0 <= (2 * z / L) ^ 2) by nra. lra. Qed.
Lemma bl_limit_pos lam z L : 0 < lam -> 0 < bl_limit lam z L <= 1 / lam.
Proof.
  intros Hl. unfold bl_limit. pose proof (bl_root_pos z L) as Hr. set (s := sqrt ((2 * z / L) ^ 2 + 1)) in *.
  assert (Hi : 0 < / lam) by (apply Rinv_0_lt_compat; exact Hl).
  assert (Hs : 0 < / s <= 1).
  { split; [apply Rinv_0_lt_compat; lra|]. rewrite <- Rinv_1. apply Rinv_le_contravar; lra. }
  unfold Rdiv. rewrite !Rmult_1_l. split; nra.
Qed.
Lemma bl_limit_even lam z L : bl_limit lam (- z) L = bl_limit lam z L.
Proof. unfold bl_limit. f_equal. f_equal. f_equal. f_equal. unfold Rdiv. ring. Qed.
(* the cut-off is where the sampling theorem stops holding for the transfer function on a window of extent L *)
Lemma bl_limit_sampling lam z L f : 0 < lam -> 0 < L -> 0 <= f -> f < 1 / lam ->
  (Rabs z * f / sqrt (1 / lam ^ 2 - f ^ 2) <= L / 2 <-> f <= bl_limit lam z L).
Proof.
  intros Hl HL Hf0 Hf1.
  assert (Hil : 0 < 1 / lam) by (apply Rdiv_lt_0_compat; lra).
  assert (Hd : 0 < 1 / lam ^ 2 - f ^ 2).
  { replace (1 / lam ^ 2) with ((1 / lam) ^ 2) by (field; lra). nra. }
  set (d := 1 / lam ^ 2 - f ^ 2) in *.
  assert (Hs : 0 < sqrt d) by (apply sqrt_lt_R0; exact Hd).
  assert (Hss : sqrt d * sqrt d = d) by (apply sqrt_sqrt; lra).
  pose proof (bl_root_pos z L) as Hr.
  set (A := (2 * z / L) ^ 2 + 1) in *.
  assert (HA : 1 <= A) by (unfold A; assert (0 <= (2 * z / L) ^ 2) by nra; lra).
  assert (Hrr : sqrt A * sqrt A = A) by (apply sqrt_sqrt; lra).
  assert (Hb : bl_limit lam z L = 1 / (sqrt A * lam)) by (unfold bl_limit; fold A; field; split; lra).
  assert (Hbp : 0 < sqrt A * lam) by nra.
  assert (Ez : Rabs z * Rabs z = z * z) by (unfold Rabs; destruct (Rcase_abs z); ring).
  pose proof (Rabs_pos z) as Hz0.
  (* both statements are equivalent to f^2 A lam^2 <= 1 *)
  assert (K : f ^ 2 * (A * lam ^ 2) <= 1 <-> 4 * (z * z) * f ^ 2 <= L ^ 2 * d).
  { unfold A, d. replace (f ^ 2 * (((2 * z / L) ^ 2 + 1) * lam ^ 2) <= 1) with (f ^ 2 * (((2 * z / L) ^ 2 + 1) * lam ^ 2) <= 1) by reflexivity.
    assert (E1 : f ^ 2 * (((2 * z / L) ^ 2 + 1) * lam ^ 2) - 1 = (lam ^ 2 / L ^ 2) * (4 * (z * z) * f ^ 2 - L ^ 2 * (1 / lam ^ 2 - f ^ 2))) by (field; split; lra).
    assert (Hc : 0 < lam ^ 2 / L ^ 2) by (apply Rdiv_lt_0_compat; nra).
    split; intros H; nra. }
  split; intros H.
  - rewrite Hb. apply Rmult_le_reg_r with (sqrt A * lam); [exact Hbp|].
    replace (1 / (sqrt A * lam) * (sqrt A * lam)) with 1 by (field; split; lra).
    assert (H2 : Rabs z * f <= L / 2 * sqrt d).
    { apply Rmult_le_reg_r with (/ sqrt d); [apply Rinv_0_lt_compat; exact Hs|].
      replace (L / 2 * sqrt d * / sqrt d) with (L / 2) by (field; lra). exact H. }
    assert (H3 : 4 * (z * z) * f ^ 2 <= L ^ 2 * d).
    { rewrite <- Ez. assert (0 <= Rabs z * f) by nra. assert (0 <= L / 2 * sqrt d) by nra.
      assert (Hsq : (Rabs z * f) * (Rabs z * f) <= (L / 2 * sqrt d) * (L / 2 * sqrt d)) by (apply Rmult_le_compat; assumption).
      replace ((L / 2 * sqrt d) * (L / 2 * sqrt d)) with (L ^ 2 / 4 * (sqrt d * sqrt d)) in Hsq by field. rewrite Hss in Hsq. nra. }
    apply K in H3.
    assert (H4 : (f * (sqrt A * lam)) * (f * (sqrt A * lam)) <= 1 * 1).
    { replace ((f * (sqrt A * lam)) * (f * (sqrt A * lam))) with (f ^ 2 * ((sqrt A * sqrt A) * lam ^ 2)) by ring. rewrite Hrr. lra. }
    assert (0 <= f * (sqrt A * lam)) by nra. nra.
  - rewrite Hb in H.
    assert (H1 : f * (sqrt A * lam) <= 1).
    { apply Rmult_le_compat_r with (r := sqrt A * lam) in H; [|lra].
      replace (1 / (sqrt A * lam) * (sqrt A * lam)) with 1 in H by (field; split; lra). exact H. }
    assert (H2 : f ^ 2 * (A * lam ^ 2) <= 1).
    { assert (0 <= f * (sqrt A * lam)) by nra.
      assert (Hsq : (f * (sqrt A * lam)) * (f * (sqrt A * lam)) <= 1 * 1) by (apply Rmult_le_compat; assumption).
      replace ((f * (sqrt A * lam)) * (f * (sqrt A * lam))) with (f ^ 2 * ((sqrt A * sqrt A) * lam ^ 2)) in Hsq by ring. rewrite Hrr in Hsq. lra. }
    apply K in H2.
    apply Rmult_le_reg_r with (sqrt d); [exact Hs|].
    replace (Rabs z * f / sqrt d * sqrt d) with (Rabs z * f) by (field; lra).
    assert (Hq : (Rabs z * f) * (Rabs z * f) <= (L / 2 * sqrt d) * (L / 2 * sqrt d)).
    { replace ((L / 2 * sqrt d) * (L / 2 * sqrt d)) with (L ^ 2 / 4 * (sqrt d * sqrt d)) by field. rewrite Hss.
      replace ((Rabs z * f) * (Rabs z * f)) with ((Rabs z * Rabs z) * f ^ 2) by ring. rewrite Ez. nra. }
    assert (0 <= Rabs z * f) by nra. assert (0 <= L / 2 * sqrt d) by nra. nra.
Qed.
(* a sample passes the mask iff both of its frequencies are below the cut-off of their own axis *)
Lemma bl_pass_true lam z Lx Ly fx fy : bl_pass lam z Lx Ly fx fy = true <-> Rabs fx < bl_limit lam z Lx /\ Rabs fy < bl_limit lam z Ly.
Proof. unfold bl_pass. rewrite Bool.andb_true_iff, !Rltb_true. tauto. Qed.
(* whatever passes is a propagating wave on each axis *)
Lemma bl_pass_propagating lam z Lx Ly fx fy : 0 < lam -> bl_pass lam z Lx Ly fx fy = true -> Rabs fx < 1 / lam /\ Rabs fy < 1 / lam.
Proof.
  intros Hl H. apply bl_pass_true in H. destruct H as [Hx Hy].
  pose proof (bl_limit_pos lam z Lx Hl). pose proof (bl_limit_pos lam z Ly Hl). split; lra.
Qed.
