(* C04 — property theorems: all propagation methods model the same physics and the same +z direction.
   Continuous-domain statements about the quantities every kernel samples (OdakV.C04.Model); the traced
   exponents, prefactors and weights of the current /repo sources are tied to them on every run by
   coq/tie/C04_TieA.v, C04_TieB.v (for all real dx, lambda, k, z, f), the discretisation error is only
   observed (direct oracles).  PARTIAL: the Fourier integrals behind the Fresnel pair and the Gaussian beam
   (FT exp(i a r^2) = (i pi / a) exp(-i pi^2 f^2 / a)) are cited, their algebra is proved. *)
From Coq Require Import Reals QArith Qreals List Lra Psatz.
From Coquelicot Require Import Coquelicot.
From OdakV Require Import Base.RealAux Wave.Fields Wave.Kernels C04.Model C04.Lemmas C04.Paraxial.
Open Scope R_scope.

(* ---- the Fresnel transfer function is the paraxial expansion of the angular spectrum *)
Theorem C04_sqrt_paraxial : forall x, 0 <= x <= 1 -> 0 <= (1 - x / 2) - sqrt (1 - x) <= x ^ 2 / 2.
Proof. exact sqrt_paraxial. Qed.
Theorem C04_as_tf_close : forall lam z fx fy, 0 < lam -> sin2 lam fx fy <= 1 ->
  Rabs (ph_as lam z fx fy - ph_tf lam z fx fy) <= Rabs (wavenum lam * z) * (sin2 lam fx fy ^ 2 / 2).
Proof. exact as_tf_close. Qed.
(* ... on every in-band frequency of a pitch dx >= lambda / sqrt 2, with the signs of both phases *)
Theorem C04_as_tf_on_grid : forall lam dx z fx fy pa pt, 0 < dx -> 0 < lam -> lam * lam <= 2 * (dx * dx) ->
  Rabs fx <= 1 / (2 * dx) -> Rabs fy <= 1 / (2 * dx) ->
  pa = z * kz_as lam fx fy -> pt = z * kz_tf lam fx fy ->
  pa = ph_as lam z fx fy /\ pt = ph_tf lam z fx fy /\
  Rabs (pa - pt) <= Rabs (wavenum lam * z) * (sin2 lam fx fy ^ 2 / 2) /\
  pt = wavenum lam * z + tf_quad lam z * (fx ^ 2 + fy ^ 2) /\
  (0 < z -> 0 <= pa /\ 0 < pt) /\ (z < 0 -> pa <= 0 /\ pt < 0).
Proof. exact tie_as_tf. Qed.

(* ---- same physics: Helmholtz dispersion and its paraxial form *)
Theorem C04_as_dispersion : forall lam fx fy, lam <> 0 -> sin2 lam fx fy <= 1 ->
  kz_as lam fx fy ^ 2 + (2 * PI * fx) ^ 2 + (2 * PI * fy) ^ 2 = wavenum lam ^ 2.
Proof. exact as_dispersion. Qed.
Theorem C04_tf_dispersion : forall lam fx fy, lam <> 0 ->
  kz_tf lam fx fy = wavenum lam - ((2 * PI * fx) ^ 2 + (2 * PI * fy) ^ 2) / (2 * wavenum lam).
Proof. exact tf_dispersion. Qed.

(* ---- same direction: the phase of every transfer function grows with z (wave exp(+i kz z)), on axis it is k z *)
Theorem C04_forward_direction : forall lam fx fy z1 z2, 0 < lam -> sin2 lam fx fy < 1 -> z1 < z2 ->
  ph_as lam z1 fx fy < ph_as lam z2 fx fy /\ ph_tf lam z1 fx fy < ph_tf lam z2 fx fy /\
  ph_tf_legacy lam z2 fx fy < ph_tf_legacy lam z1 fx fy.
Proof. exact forward_direction. Qed.
Theorem C04_on_axis_wavenumber : forall lam, 0 < lam -> kz_as lam 0 0 = wavenum lam /\ kz_tf lam 0 0 = wavenum lam.
Proof. exact kz_on_axis. Qed.

(* ---- band-limited angular spectrum: the cut-off is exactly where the transfer function stops being sampled on a window of
   extent L (local frequency |z| f / sqrt(1/lam^2 - f^2) <= L/2), it is even in z and never beyond the evanescent boundary *)
Theorem C04_bl_limit_sampling : forall lam z L f, 0 < lam -> 0 < L -> 0 <= f -> f < 1 / lam ->
  (Rabs z * f / sqrt (1 / lam ^ 2 - f ^ 2) <= L / 2 <-> f <= bl_limit lam z L).
Proof. exact bl_limit_sampling. Qed.
Theorem C04_bl_limit_bounds : forall lam z L, 0 < lam -> 0 < bl_limit lam z L <= 1 / lam.
Proof. exact bl_limit_pos. Qed.
Theorem C04_bl_limit_even : forall lam z L, bl_limit lam (- z) L = bl_limit lam z L.
Proof. exact bl_limit_even. Qed.
Theorem C04_bl_pass_true : forall lam z Lx Ly fx fy,
  bl_pass lam z Lx Ly fx fy = true <-> Rabs fx < bl_limit lam z Lx /\ Rabs fy < bl_limit lam z Ly.
Proof. exact bl_pass_true. Qed.

(* ---- impulse response <-> transfer function: coefficients, prefactor and signs of the Fresnel pair *)
Theorem C04_ir_tf_pair_coeff : forall lam z, lam <> 0 -> z <> 0 -> - (PI ^ 2 / ir_quad (wavenum lam) z) = tf_quad lam z.
Proof. exact ir_tf_pair_coeff. Qed.
Theorem C04_ir_tf_pair_prefactor : forall lam z, lam <> 0 -> z <> 0 ->
  Cmult (ir_pref lam z) (Cmult Ci (RtoC (PI / ir_quad (wavenum lam) z))) = RtoC 1.
Proof. exact ir_tf_pair_prefactor. Qed.
Theorem C04_ir_tf_signs : forall k lam z, 0 < k -> 0 < lam -> z <> 0 -> ir_quad k z * tf_quad lam z < 0.
Proof. exact ir_tf_signs. Qed.
Theorem C04_ir_sample_modulus : forall wgt k lam z r2, lam <> 0 -> z <> 0 -> n2 (ir_sample wgt k lam z r2) = (wgt / (lam * z)) ^ 2.
Proof. exact ir_sample_n2. Qed.

(* ---- Gaussian beam: the Fresnel transfer function maps the complex width s to s + i lam z / pi ... *)
Theorem C04_gauss_q : forall lam z (s : C) f2, lam <> 0 ->
  Cplus (Cmult (RtoC (- (PI ^ 2 * f2))) s) (0, tf_quad lam z * f2) = Cmult (RtoC (- (PI ^ 2 * f2))) (q_prop (wavenum lam) z s).
Proof. exact gauss_q. Qed.
Theorem C04_gauss_q_waist : forall lam z w0 f2, lam <> 0 ->
  Cplus (RtoC (- (PI ^ 2 * w0 ^ 2 * f2))) (0, tf_quad lam z * f2) = Cmult (RtoC (- (PI ^ 2 * f2))) (gq (wavenum lam) w0 z).
Proof. exact gauss_q_waist. Qed.
Theorem C04_gauss_steps_compose : forall k z1 z2 s, k <> 0 -> q_prop k z2 (q_prop k z1 s) = q_prop k (z1 + z2) s.
Proof. exact q_prop_add. Qed.
(* ... and 1/s = 1/w(z)^2 - i beta(z) gives width, amplitude and wavefront curvature of the closed form *)
Theorem C04_gauss_inverse_width : forall k w0 z, k <> 0 -> w0 <> 0 -> Cinv (gq k w0 z) = (1 / gauss_w2 k w0 z, - gauss_beta k w0 z).
Proof. exact gauss_inv. Qed.
Theorem C04_gauss_width : forall k w0 z, k <> 0 -> w0 <> 0 -> 1 / fst (Cinv (gq k w0 z)) = w0 ^ 2 * (1 + (z / zR k w0) ^ 2).
Proof. exact gauss_width. Qed.
Theorem C04_gauss_amplitude : forall k w0 z, k <> 0 -> w0 <> 0 -> n2 (Cdiv (RtoC (w0 ^ 2)) (gq k w0 z)) = gauss_amp2 k w0 z.
Proof. exact gauss_amplitude. Qed.
Theorem C04_gauss_curv_sign : forall k w0 z, 0 < k -> w0 <> 0 ->
  (0 < z -> snd (Cinv (gq k w0 z)) < 0) /\ (z < 0 -> 0 < snd (Cinv (gq k w0 z))) /\ (z = 0 -> snd (Cinv (gq k w0 z)) = 0).
Proof. exact gauss_curv_sign. Qed.
Theorem C04_gauss_radius : forall k w0 z, k <> 0 -> w0 <> 0 -> z <> 0 -> gauss_beta k w0 z = k / (2 * gauss_radius k w0 z).
Proof. exact gauss_beta_radius. Qed.
(* amplitude and width are even in z, the curvature is odd: it is the observable that tells a kernel from its conjugate *)
Theorem C04_gauss_even_odd : forall k w0 z, k <> 0 -> w0 <> 0 ->
  gauss_w2 k w0 (- z) = gauss_w2 k w0 z /\ gauss_amp2 k w0 (- z) = gauss_amp2 k w0 z /\ gauss_beta k w0 (- z) = - gauss_beta k w0 z.
Proof. exact gauss_even_odd. Qed.
Theorem C04_gauss_conj_overlap : forall k w0 z, k <> 0 -> w0 <> 0 ->
  n2 (Cdiv (RtoC (2 * fst (Cinv (gq k w0 z)))) (Cmult (RtoC 2) (Cinv (gq k w0 z)))) = 1 / (1 + (z / zR k w0) ^ 2).
Proof. exact gauss_conj_overlap. Qed.

(* ---- the closed form (UU + i VV = (w0^2 / s) exp (- (x^2 + y^2) / s), OdakV.C04.Paraxial) solves the paraxial wave equation
   u_z = (i / 2k) (u_xx + u_yy) with the Gaussian waist as initial value, and every plane-wave component multiplied by the
   Fresnel transfer function solves the same equation: the kernel is the exact propagator of the equation of the closed form *)
Theorem C04_gauss_solves_paraxial : forall k w0, w0 <> 0 -> forall x y z,
  Derive (fun t => UU k w0 x y t) z = - (cc k / 4) * (Derive_n (fun t => VV k w0 t y z) 2 x + Derive_n (fun t => VV k w0 x t z) 2 y) /\
  Derive (fun t => VV k w0 x y t) z = (cc k / 4) * (Derive_n (fun t => UU k w0 t y z) 2 x + Derive_n (fun t => UU k w0 x t z) 2 y).
Proof. exact gauss_solves_paraxial. Qed.
Theorem C04_gauss_initial : forall k w0, w0 <> 0 -> forall x y,
  UU k w0 x y 0 = exp (- ((x ^ 2 + y ^ 2) / w0 ^ 2)) /\ VV k w0 x y 0 = 0.
Proof. exact gauss_initial. Qed.
Theorem C04_gauss_field_parts : forall k w0, k <> 0 -> w0 <> 0 -> forall q z,
  Cmult (Cdiv (RtoC (w0 ^ 2)) (gq k w0 z)) (Cmult (RtoC (exp (- (q / gauss_w2 k w0 z)))) (Cexpi (gauss_beta k w0 z * q))) = (UQ k w0 q z, VQ k w0 q z).
Proof. exact gauss_field_parts. Qed.
Theorem C04_mode_is_transfer_function : forall lam fx fy x y z,
  (MA lam fx fy x y z, MB lam fx fy x y z) =
  Cmult (Cexpi (2 * PI * (fx * x + fy * y))) (Cmult (Cexpi (ph_tf lam z fx fy)) (Cexpi (- (wavenum lam * z)))).
Proof. exact mode_is_transfer_function. Qed.
Theorem C04_mode_solves_paraxial : forall lam fx fy, lam <> 0 -> forall x y z,
  Derive (fun t => MA lam fx fy x y t) z = - (2 / wavenum lam / 4) * (Derive_n (fun t => MB lam fx fy t y z) 2 x + Derive_n (fun t => MB lam fx fy x t z) 2 y) /\
  Derive (fun t => MB lam fx fy x y t) z = (2 / wavenum lam / 4) * (Derive_n (fun t => MA lam fx fy t y z) 2 x + Derive_n (fun t => MA lam fx fy x t z) 2 y).
Proof. exact mode_solves_paraxial. Qed.

(* ---- the library's lens focuses at +f *)
Theorem C04_lens_focus : forall k f z, k <> 0 -> f <> 0 -> z <> 0 -> (lens_quad k f + ir_quad k z = 0 <-> z = f).
Proof. exact lens_focus. Qed.
Theorem C04_lens_gauss_contrast : forall k w0 f, k <> 0 -> w0 <> 0 -> f <> 0 ->
  on_axis k (q_lens k w0 f) f = (1 + 4 * tpar k w0 f ^ 2) * on_axis k (q_lens k w0 f) (- f).
Proof. exact lens_gauss_contrast. Qed.
Theorem C04_lens_gauss_gain : forall k w0 f, k <> 0 -> w0 <> 0 -> f <> 0 ->
  on_axis k (q_lens k w0 f) f = tpar k w0 f ^ 2 /\ on_axis k (q_lens k w0 f) (- f) < 1.
Proof. exact lens_gauss_gain. Qed.
Theorem C04_lens_gauss_spot : forall k w0 f, k <> 0 -> w0 <> 0 -> f <> 0 ->
  1 / fst (Cinv (q_prop k f (q_lens k w0 f))) = (w0 * f / zR k w0) ^ 2.
Proof. exact lens_gauss_spot. Qed.

(* ---- regression statements about the three defects repaired for this property: each of them put the focus at -f
   (conjugated Fresnel transfer function, 849454b; NumPy lens exp(+i k/2 sin(r^2/f)), b9918cf) *)
Theorem C04_tf_legacy_backwards : forall lam z fx fy, ph_tf_legacy lam z fx fy = ph_tf lam (- z) fx fy.
Proof. exact tf_legacy_is_backwards. Qed.
Theorem C04_lens_focus_conjugated : forall k f z, k <> 0 -> f <> 0 -> z <> 0 -> (lens_quad k f + ir_quad k (- z) = 0 <-> z = - f).
Proof. exact lens_focus_conjugated. Qed.
Theorem C04_lens_legacy_focus : forall k f z, k <> 0 -> f <> 0 -> z <> 0 -> (lens_quad_legacy k f + ir_quad k z = 0 <-> z = - f).
Proof. exact lens_legacy_focus. Qed.
Theorem C04_lens_gauss_contrast_legacy : forall k w0 f, k <> 0 -> w0 <> 0 -> f <> 0 ->
  on_axis_legacy k (q_lens k w0 f) (- f) = (1 + 4 * tpar k w0 f ^ 2) * on_axis_legacy k (q_lens k w0 f) f.
Proof. exact lens_gauss_contrast_legacy. Qed.

(* ---- the executable closed-form predictions evaluated inside Coq on every run are those of the real model *)
Theorem C04_q_predict_sound : forall k w0 z f : Q, ~ (k == 0)%Q -> ~ (w0 == 0)%Q -> ~ (f == 0)%Q ->
  List.map Q2R (q_predict k w0 z f) =
  (gauss_w2 (Q2R k) (Q2R w0) (Q2R z) :: gauss_amp2 (Q2R k) (Q2R w0) (Q2R z) :: gauss_beta (Q2R k) (Q2R w0) (Q2R z)
   :: (1 + 4 * tpar (Q2R k) (Q2R w0) (Q2R f) ^ 2) :: (Q2R w0 * Q2R f / zR (Q2R k) (Q2R w0)) ^ 2 :: nil)%list.
Proof. exact q_predict_sound. Qed.

(* non-vacuity: lambda = 1/2, pitch 1/2 (>= lambda / sqrt 2), the corner frequency of the grid, waist 4, z = f = 64 *)
Example C04_nonvacuous :
  (0 < / 2 /\ / 2 * / 2 <= 2 * (/ 2 * / 2) /\ Rabs 1 <= 1 / (2 * / 2) /\ sin2 (/ 2) 1 1 <= 1 /\ 0 < sin2 (/ 2) 1 1) /\
  (wavenum (/ 2) <> 0 /\ (4 : R) <> 0 /\ (64 : R) <> 0 /\ 1 < 1 + 4 * tpar (wavenum (/ 2)) 4 64 ^ 2) /\
  q_predict (4 # 1) (2 # 1) (8 # 1) (8 # 1) = ((8 # 1) :: (1 # 2) :: (1 # 8) :: (5 # 1) :: (4 # 1) :: nil)%Q.
Proof.
  assert (Hw : 0 < wavenum (/ 2)) by (apply wavenum_pos; lra).
  split; [|split].
  - unfold sin2. rewrite Rabs_R1. repeat split; lra.
  - repeat split; try lra.
    assert (Ht : tpar (wavenum (/ 2)) 4 64 <> 0) by (apply tpar_neq0; lra).
    pose proof (sq_pos_of_neq _ Ht). nra.
  - vm_compute. reflexivity.
Qed.
