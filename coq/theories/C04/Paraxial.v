(* C04 — the closed-form Gaussian beam of OdakV.C04.Model solves the paraxial wave equation
      d/dz u = (i / 2k) (d2/dx2 + d2/dy2) u,     u (x, y, 0) = exp (- (x^2 + y^2) / w0^2),
   and so does every plane-wave component multiplied by the Fresnel transfer function (without its carrier
   exp (i k z)): the transfer function is the exact propagator of the equation the closed form solves.
   Real and imaginary parts, derivatives by Coquelicot's auto_derive. *)
From Coq Require Import Reals Lra Psatz.
From Coquelicot Require Import Coquelicot.
From OdakV Require Import Base.RealAux Wave.Fields Wave.Kernels C04.Model C04.Lemmas.
Open Scope R_scope.

Section G.
Variables k w0 : R.
Hypothesis Hk : k <> 0.
Hypothesis Hw : w0 <> 0.
Definition cc := 2 / k.
Definition DD (z : R) := (w0 ^ 2) ^ 2 + (cc * z) ^ 2.
Definition pp (z : R) := w0 ^ 2 / DD z.
Definition bb (z : R) := cc * z / DD z.
(* real and imaginary part of (w0^2 / s) exp (- q / s), s = w0^2 + i cc z, q = x^2 + y^2 *)
Definition UQ (q z : R) : R := w0 ^ 2 * exp (- (pp z * q)) * (pp z * cos (bb z * q) + bb z * sin (bb z * q)).
Definition VQ (q z : R) : R := w0 ^ 2 * exp (- (pp z * q)) * (pp z * sin (bb z * q) - bb z * cos (bb z * q)).
Definition UU (x y z : R) : R := UQ (x ^ 2 + y ^ 2) z.
Definition VV (x y z : R) : R := VQ (x ^ 2 + y ^ 2) z.
(* d/dq *)
Definition UQ1 (q z : R) : R := w0 ^ 2 * exp (- (pp z * q)) * ((bb z ^ 2 - pp z ^ 2) * cos (bb z * q) - 2 * pp z * bb z * sin (bb z * q)).
Definition VQ1 (q z : R) : R := w0 ^ 2 * exp (- (pp z * q)) * ((bb z ^ 2 - pp z ^ 2) * sin (bb z * q) + 2 * pp z * bb z * cos (bb z * q)).

Lemma DD_pos z : 0 < DD z.
Proof. unfold DD. assert (0 < w0 ^ 2) by nra. nra. Qed.

Lemma UU_x x y z : is_derive (fun t => UU t y z) x (2 * x * UQ1 (x ^ 2 + y ^ 2) z).
Proof. unfold UU, UQ, UQ1. auto_derive; [exact I | simpl pow; ring]. Qed.
Lemma VV_x x y z : is_derive (fun t => VV t y z) x (2 * x * VQ1 (x ^ 2 + y ^ 2) z).
Proof. unfold VV, VQ, VQ1. auto_derive; [exact I | simpl pow; ring]. Qed.
(* second derivative in x: d/dx (2 x F1(q)) = 2 F1 + 4 x^2 F2 *)
Definition UQ2 (q z : R) : R := w0 ^ 2 * exp (- (pp z * q)) * ((pp z ^ 3 - 3 * pp z * bb z ^ 2) * cos (bb z * q) + (3 * pp z ^ 2 * bb z - bb z ^ 3) * sin (bb z * q)).
Definition VQ2 (q z : R) : R := w0 ^ 2 * exp (- (pp z * q)) * ((pp z ^ 3 - 3 * pp z * bb z ^ 2) * sin (bb z * q) - (3 * pp z ^ 2 * bb z - bb z ^ 3) * cos (bb z * q)).
Lemma UU_xx x y z : is_derive (fun t => 2 * t * UQ1 (t ^ 2 + y ^ 2) z) x (2 * UQ1 (x ^ 2 + y ^ 2) z + 4 * x ^ 2 * UQ2 (x ^ 2 + y ^ 2) z).
Proof. unfold UQ1, UQ2. auto_derive; [exact I | simpl pow; ring]. Qed.
Lemma VV_xx x y z : is_derive (fun t => 2 * t * VQ1 (t ^ 2 + y ^ 2) z) x (2 * VQ1 (x ^ 2 + y ^ 2) z + 4 * x ^ 2 * VQ2 (x ^ 2 + y ^ 2) z).
Proof. unfold VQ1, VQ2. auto_derive; [exact I | simpl pow; ring]. Qed.
(* derivative in z *)
Lemma DD_neq z : DD z <> 0.
Proof. pose proof (DD_pos z). lra. Qed.
Lemma DD_z z : is_derive DD z (2 * cc ^ 2 * z).
Proof. unfold DD. auto_derive; [exact I | simpl pow; ring]. Qed.
Lemma pp_z' z : is_derive pp z (- (2 * cc * pp z * bb z)).
Proof.
  unfold pp at 1. 
  evar (d : R). assert (H : is_derive (fun t => w0 ^ 2 / DD t) z d).
  { auto_derive. - split; [eexists; apply DD_z | split; [apply DD_neq | exact I]]. - change (fun x : R => DD x) with DD. rewrite (is_derive_unique _ _ _ (DD_z z)). unfold d. reflexivity. }
  replace (- (2 * cc * pp z * bb z)) with d; [exact H|]. unfold d, pp, bb. field. apply DD_neq.
Qed.
Lemma bb_z' z : is_derive bb z (cc * (pp z ^ 2 - bb z ^ 2)).
Proof.
  unfold bb at 1.
  evar (d : R). assert (H : is_derive (fun t => cc * t / DD t) z d).
  { auto_derive. - split; [eexists; apply DD_z | split; [apply DD_neq | exact I]]. - change (fun x : R => DD x) with DD. rewrite (is_derive_unique _ _ _ (DD_z z)). unfold d. reflexivity. }
  replace (cc * (pp z ^ 2 - bb z ^ 2)) with d; [exact H|]. unfold d, pp, bb, DD. field. intro E. apply (DD_neq z). unfold DD.
  match type of E with ?P = 0 => transitivity P; [ring | exact E] end.
Qed.
Definition UQz (q z : R) : R :=
  let P' := - (2 * cc * pp z * bb z) in let B' := cc * (pp z ^ 2 - bb z ^ 2) in
  w0 ^ 2 * exp (- (pp z * q)) * (- (P' * q) * (pp z * cos (bb z * q) + bb z * sin (bb z * q))
     + P' * cos (bb z * q) - pp z * (B' * q) * sin (bb z * q) + B' * sin (bb z * q) + bb z * (B' * q) * cos (bb z * q)).
Definition VQz (q z : R) : R :=
  let P' := - (2 * cc * pp z * bb z) in let B' := cc * (pp z ^ 2 - bb z ^ 2) in
  w0 ^ 2 * exp (- (pp z * q)) * (- (P' * q) * (pp z * sin (bb z * q) - bb z * cos (bb z * q))
     + P' * sin (bb z * q) + pp z * (B' * q) * cos (bb z * q) - B' * cos (bb z * q) + bb z * (B' * q) * sin (bb z * q)).
Lemma UQ_z q z : is_derive (fun t => UQ q t) z (UQz q z).
Proof.
  unfold UQ, UQz. auto_derive.
  - repeat match goal with
    | |- _ /\ _ => split
    | |- True => exact I
    | |- ex_derive (fun x => pp x) ?t => exists (- (2 * cc * pp t * bb t)); exact (pp_z' t)
    | |- ex_derive (fun x => bb x) ?t => exists (cc * (pp t ^ 2 - bb t ^ 2)); exact (bb_z' t)
    end.
  - change (fun x : R => pp x) with pp. change (fun x : R => bb x) with bb.
    rewrite (is_derive_unique _ _ _ (pp_z' z)), (is_derive_unique _ _ _ (bb_z' z)). simpl pow. ring.
Qed.
Lemma VQ_z q z : is_derive (fun t => VQ q t) z (VQz q z).
Proof.
  unfold VQ, VQz. auto_derive.
  - repeat match goal with
    | |- _ /\ _ => split
    | |- True => exact I
    | |- ex_derive (fun x => pp x) ?t => exists (- (2 * cc * pp t * bb t)); exact (pp_z' t)
    | |- ex_derive (fun x => bb x) ?t => exists (cc * (pp t ^ 2 - bb t ^ 2)); exact (bb_z' t)
    end.
  - change (fun x : R => pp x) with pp. change (fun x : R => bb x) with bb.
    rewrite (is_derive_unique _ _ _ (pp_z' z)), (is_derive_unique _ _ _ (bb_z' z)). simpl pow. ring.
Qed.
(* the paraxial wave equation u_z = (i cc / 4) (u_xx + u_yy), written for F(q), q = x^2 + y^2: Laplacian = 4 F' + 4 q F'' *)
Lemma paraxial_identity q z :
  UQz q z = - (cc / 4) * (4 * VQ1 q z + 4 * q * VQ2 q z) /\ VQz q z = (cc / 4) * (4 * UQ1 q z + 4 * q * UQ2 q z).
Proof. unfold UQz, VQz, UQ1, VQ1, UQ2, VQ2. cbv zeta. split; field. Qed.

(* ---- the statement with Derive *)
Lemma UU_sym x y z : UU x y z = UU y x z.
Proof. unfold UU. f_equal. ring. Qed.
Lemma VV_sym x y z : VV x y z = VV y x z.
Proof. unfold VV. f_equal. ring. Qed.
Lemma UU_d2x x y z : Derive_n (fun t => UU t y z) 2 x = 2 * UQ1 (x ^ 2 + y ^ 2) z + 4 * x ^ 2 * UQ2 (x ^ 2 + y ^ 2) z.
Proof.
  simpl. rewrite (Derive_ext _ (fun t => 2 * t * UQ1 (t ^ 2 + y ^ 2) z)) by (intros t; apply is_derive_unique, UU_x).
  apply is_derive_unique, UU_xx.
Qed.
Lemma VV_d2x x y z : Derive_n (fun t => VV t y z) 2 x = 2 * VQ1 (x ^ 2 + y ^ 2) z + 4 * x ^ 2 * VQ2 (x ^ 2 + y ^ 2) z.
Proof.
  simpl. rewrite (Derive_ext _ (fun t => 2 * t * VQ1 (t ^ 2 + y ^ 2) z)) by (intros t; apply is_derive_unique, VV_x).
  apply is_derive_unique, VV_xx.
Qed.
Lemma UU_d2y x y z : Derive_n (fun t => UU x t z) 2 y = 2 * UQ1 (x ^ 2 + y ^ 2) z + 4 * y ^ 2 * UQ2 (x ^ 2 + y ^ 2) z.
Proof.
  rewrite (Derive_n_ext _ (fun t => UU t x z)) by (intros t; apply UU_sym). rewrite UU_d2x.
  replace (y ^ 2 + x ^ 2) with (x ^ 2 + y ^ 2) by ring. reflexivity.
Qed.
Lemma VV_d2y x y z : Derive_n (fun t => VV x t z) 2 y = 2 * VQ1 (x ^ 2 + y ^ 2) z + 4 * y ^ 2 * VQ2 (x ^ 2 + y ^ 2) z.
Proof.
  rewrite (Derive_n_ext _ (fun t => VV t x z)) by (intros t; apply VV_sym). rewrite VV_d2x.
  replace (y ^ 2 + x ^ 2) with (x ^ 2 + y ^ 2) by ring. reflexivity.
Qed.
Theorem gauss_solves_paraxial x y z :
  Derive (fun t => UU x y t) z = - (cc / 4) * (Derive_n (fun t => VV t y z) 2 x + Derive_n (fun t => VV x t z) 2 y) /\
  Derive (fun t => VV x y t) z = (cc / 4) * (Derive_n (fun t => UU t y z) 2 x + Derive_n (fun t => UU x t z) 2 y).
Proof.
  assert (Eu : Derive (fun t => UU x y t) z = UQz (x ^ 2 + y ^ 2) z) by (apply is_derive_unique; unfold UU; apply UQ_z).
  assert (Ev : Derive (fun t => VV x y t) z = VQz (x ^ 2 + y ^ 2) z) by (apply is_derive_unique; unfold VV; apply VQ_z).
  rewrite Eu, Ev, UU_d2x, UU_d2y, VV_d2x, VV_d2y.
  destruct (paraxial_identity (x ^ 2 + y ^ 2) z) as [E1 E2]. rewrite E1, E2. split; ring.
Qed.
Lemma gauss_initial x y : UU x y 0 = exp (- ((x ^ 2 + y ^ 2) / w0 ^ 2)) /\ VV x y 0 = 0.
Proof.
  assert (Hw2 : w0 ^ 2 <> 0) by (apply pow_nonzero; exact Hw).
  assert (Ep : pp 0 = 1 / w0 ^ 2) by (unfold pp, DD; field; exact Hw).
  assert (Eb : bb 0 = 0) by (unfold bb, DD; field; exact Hw).
  unfold UU, VV, UQ, VQ. rewrite Ep, Eb, !Rmult_0_l, cos_0, sin_0.
  replace (1 / w0 ^ 2 * (x ^ 2 + y ^ 2)) with ((x ^ 2 + y ^ 2) / w0 ^ 2) by (field; exact Hw).
  split; field; exact Hw.
Qed.
(* bridge to the model: pp = 1 / w(z)^2, bb = beta(z), (UQ, VQ) = (w0^2 / s) exp (- q / s) *)
Lemma pp_model z : pp z = 1 / gauss_w2 k w0 z.
Proof. kw k w0. unfold pp, gauss_w2, DD, cc, zR. field. nz. Qed.
Lemma bb_model z : bb z = gauss_beta k w0 z.
Proof.
  pose proof (DD_neq z) as Hd. unfold bb, gauss_beta, DD, cc, cz in *.
  replace (2 / k * z) with (2 * z / k) in * by (field; exact Hk). reflexivity.
Qed.
Lemma gauss_field_parts q z :
  Cmult (Cdiv (RtoC (w0 ^ 2)) (gq k w0 z)) (Cmult (RtoC (exp (- (q / gauss_w2 k w0 z)))) (Cexpi (gauss_beta k w0 z * q))) = (UQ q z, VQ q z).
Proof.
  unfold Cdiv. rewrite gauss_inv by assumption. unfold UQ, VQ. rewrite <- bb_model.
  replace (q / gauss_w2 k w0 z) with (pp z * q) by (rewrite pp_model; field; pose proof (gauss_w2_pos k w0 z Hk Hw); lra).
  replace (1 / gauss_w2 k w0 z) with (pp z) by apply pp_model.
  unfold Cmult, Cexpi, RtoC; simpl. f_equal; ring.
Qed.
End G.

(* ---- a plane-wave component under the Fresnel transfer function (carrier exp(i k z) removed) solves the same equation *)
Section Mode.
Variables lam fx fy : R.
Hypothesis Hl : lam <> 0.
Definition theta (x y z : R) : R := 2 * PI * (fx * x + fy * y) + (kz_tf lam fx fy - wavenum lam) * z.
Definition MA (x y z : R) : R := cos (theta x y z).
Definition MB (x y z : R) : R := sin (theta x y z).
Lemma mode_is_transfer_function x y z : (MA x y z, MB x y z) = Cmult (Cexpi (2 * PI * (fx * x + fy * y))) (Cmult (Cexpi (ph_tf lam z fx fy)) (Cexpi (- (wavenum lam * z)))).
Proof.
  rewrite <- !Cexpi_add. unfold MA, MB, theta, Cexpi, ph_tf. f_equal; f_equal; ring.
Qed.
Lemma mode_dz x y z : is_derive (fun t => MA x y t) z (- (kz_tf lam fx fy - wavenum lam) * MB x y z) /\
                      is_derive (fun t => MB x y t) z ((kz_tf lam fx fy - wavenum lam) * MA x y z).
Proof. unfold MA, MB, theta. split; auto_derive; try exact I; ring. Qed.
Lemma mode_d2x x y z : Derive_n (fun t => MA t y z) 2 x = - (2 * PI * fx) ^ 2 * MA x y z /\ Derive_n (fun t => MB t y z) 2 x = - (2 * PI * fx) ^ 2 * MB x y z.
Proof.
  simpl. split.
  - rewrite (Derive_ext _ (fun t => - (2 * PI * fx) * MB t y z)) by (intros t; apply is_derive_unique; unfold MA, MB, theta; auto_derive; [exact I | ring]).
    apply is_derive_unique. unfold MA, MB, theta. auto_derive; [exact I | ring].
  - rewrite (Derive_ext _ (fun t => (2 * PI * fx) * MA t y z)) by (intros t; apply is_derive_unique; unfold MA, MB, theta; auto_derive; [exact I | ring]).
    apply is_derive_unique. unfold MA, MB, theta. auto_derive; [exact I | ring].
Qed.
Lemma mode_d2y x y z : Derive_n (fun t => MA x t z) 2 y = - (2 * PI * fy) ^ 2 * MA x y z /\ Derive_n (fun t => MB x t z) 2 y = - (2 * PI * fy) ^ 2 * MB x y z.
Proof.
  simpl. split.
  - rewrite (Derive_ext _ (fun t => - (2 * PI * fy) * MB x t z)) by (intros t; apply is_derive_unique; unfold MA, MB, theta; auto_derive; [exact I | ring]).
    apply is_derive_unique. unfold MA, MB, theta. auto_derive; [exact I | ring].
  - rewrite (Derive_ext _ (fun t => (2 * PI * fy) * MA x t z)) by (intros t; apply is_derive_unique; unfold MA, MB, theta; auto_derive; [exact I | ring]).
    apply is_derive_unique. unfold MA, MB, theta. auto_derive; [exact I | ring].
Qed.
Theorem mode_solves_paraxial x y z :
  Derive (fun t => MA x y t) z = - (2 / wavenum lam / 4) * (Derive_n (fun t => MB t y z) 2 x + Derive_n (fun t => MB x t z) 2 y) /\
  Derive (fun t => MB x y t) z = (2 / wavenum lam / 4) * (Derive_n (fun t => MA t y z) 2 x + Derive_n (fun t => MA x t z) 2 y).
Proof.
  destruct (mode_dz x y z) as [Ha Hb]. destruct (mode_d2x x y z) as [Ax Bx]. destruct (mode_d2y x y z) as [Ay By].
  assert (Ea : Derive (fun t => MA x y t) z = - (kz_tf lam fx fy - wavenum lam) * MB x y z) by (apply is_derive_unique; exact Ha).
  assert (Eb : Derive (fun t => MB x y t) z = (kz_tf lam fx fy - wavenum lam) * MA x y z) by (apply is_derive_unique; exact Hb).
  rewrite Ax, Bx, Ay, By, Ea, Eb.
  unfold kz_tf, wavenum. assert (Hp := PI_neq0). split; field; split; assumption.
Qed.
End Mode.
