(* C04 — all propagation methods model the same physics and the same +z direction.

   Model of the continuous-domain quantities that odak's propagation kernels and lens phases sample:
   the phases of the angular-spectrum and Fresnel transfer functions, the quadratic coefficients of
   the Fresnel transfer function, the Fresnel impulse response and the thin lens, the sample grids the
   code evaluates them on, and the paraxial Gaussian beam in its complex-width form
        u_s (r^2) = (w0^2 / s) exp (- r^2 / s),     s (z) = w0^2 + i 2 z / k.
   (time convention exp(-i w t): a wave travelling towards +z carries exp(+i k z)).
   Definitions only; all proofs are in Lemmas.v.  The last block is an executable copy over Q of the
   closed-form predictions; it is evaluated inside Coq on the inputs of every run (route B2). *)
From Coq Require Import Reals QArith.
From Coquelicot Require Import Complex.
From OdakV Require Import Base.RealAux Wave.Fields Wave.Kernels.
Open Scope R_scope.

Definition wavenum (lam : R) : R := 2 * PI / lam.

(* ---- transfer functions: phase of the kernel at the spatial frequency (fx, fy) for the distance z.
   kz_as, kz_tf are the reference formulas of OdakV.Wave.Kernels (written from the optics). *)
Definition ph_as (lam z fx fy : R) : R := z * kz_as lam fx fy.
Definition ph_tf (lam z fx fy : R) : R := z * kz_tf lam fx fy.
(* the kernel odak shipped before commit 849454b: the conjugate *)
Definition ph_tf_legacy (lam z fx fy : R) : R := - (z * kz_tf lam fx fy).
(* lam^2 (fx^2 + fy^2): the squared sine of the propagation angle *)
Definition sin2 (lam fx fy : R) : R := lam ^ 2 * (fx ^ 2 + fy ^ 2).

(* ---- quadratic coefficients *)
Definition tf_quad (lam z : R) : R := - (PI * lam * z).        (* of fx^2 + fy^2 in the Fresnel transfer function *)
Definition ir_quad (k z : R) : R := k / (2 * z).               (* of x^2 + y^2 in the Fresnel impulse response    *)
Definition lens_quad (k f : R) : R := - (k / (2 * f)).         (* of x^2 + y^2 in the thin-lens phase             *)
Definition lens_quad_legacy (k f : R) : R := k / (2 * f).      (* first-order coefficient of the pre-repair NumPy lens exp(+i k/2 sin(r^2/f)) *)
Definition ir_pref (lam z : R) : C := Cdiv (RtoC 1) (Cmult Ci (RtoC (lam * z))).    (* 1 / (i lam z) *)
(* one sample of the impulse response with the quadrature weight wgt of the convolution integral *)
Definition ir_sample (wgt k lam z r2 : R) : C := Cmult (RtoC wgt) (Cmult (ir_pref lam z) (Cexpi (ir_quad k z * r2))).

(* ---- sample grids of the code: n samples from -n dx/2 to +n dx/2, end points included (lens, impulse
   response); the frequency grid fgrid is in OdakV.Wave.Kernels; the band-limited kernel of the torch API
   uses a grid pulled in by a quarter of a frequency step at both ends *)
Definition xgrid (dx : R) (n i : nat) : R := - (INR n * dx / 2) + INR i * (INR n * dx / INR (n - 1)).
Definition blgrid (dx : R) (n i : nat) : R :=
  (- (1 / (2 * dx)) + / 2 / (2 * (dx * INR n))) + INR i * ((1 / dx - 2 * (/ 2 / (2 * (dx * INR n)))) / INR (n - 1)).

(* ---- band limit of the band-limited angular spectrum (Matsushima & Shimobaba 2009, eq. 13): on an axis of extent L the
   transfer function exp(i 2 pi z sqrt(1/lam^2 - f^2)) is sampled at the pitch 1/L; its local frequency |z| f / sqrt(1/lam^2 - f^2)
   stays below L/2 exactly for |f| <= bl_limit.  bl_pass: the 0/1 mask of a frequency sample, each axis with its own extent *)
Definition bl_limit (lam z L : R) : R := 1 / sqrt ((2 * z / L) ^ 2 + 1) / lam.
Definition bl_pass (lam z Lx Ly fx fy : R) : bool := andb (Rltb (Rabs fx) (bl_limit lam z Lx)) (Rltb (Rabs fy) (bl_limit lam z Ly)).

(* ---- Gaussian beam, complex width s *)
Definition cz (k z : R) : R := 2 * z / k.                      (* = lam z / PI *)
Definition gq (k w0 z : R) : C := (w0 ^ 2, cz k z).
Definition zR (k w0 : R) : R := k * w0 ^ 2 / 2.                 (* Rayleigh range *)
Definition gauss_w2 (k w0 z : R) : R := w0 ^ 2 * (1 + (z / zR k w0) ^ 2).              (* squared 1/e radius of the amplitude *)
Definition gauss_beta (k w0 z : R) : R := cz k z / ((w0 ^ 2) ^ 2 + cz k z ^ 2).      (* wavefront: phase = + beta r^2 *)
Definition gauss_amp2 (k w0 z : R) : R := w0 ^ 2 / gauss_w2 k w0 z.                    (* squared on-axis modulus (1 at the waist) *)
Definition gauss_radius (k w0 z : R) : R := z + zR k w0 ^ 2 / z.                       (* radius of curvature *)
(* free propagation by z: s -> s + i 2 z / k;  the conjugated (legacy) kernel: s -> s - i 2 z / k *)
Definition q_prop (k z : R) (s : C) : C := Cplus s (0, cz k z).
Definition q_prop_legacy (k z : R) (s : C) : C := Cplus s (0, - cz k z).
(* multiplication by exp (i c r^2): 1/s -> 1/s - i c *)
Definition q_phase (c : R) (s : C) : C := Cinv (Cplus (Cinv s) (0, - c)).
(* collimated Gaussian of waist w0 behind the library's lens of focal length f *)
Definition q_lens (k w0 f : R) : C := q_phase (lens_quad k f) (RtoC (w0 ^ 2)).
(* on-axis intensity after propagating the beam of parameter s1 (unit on-axis amplitude) by z *)
Definition on_axis (k : R) (s1 : C) (z : R) : R := n2 s1 / n2 (q_prop k z s1).
Definition on_axis_legacy (k : R) (s1 : C) (z : R) : R := n2 s1 / n2 (q_prop_legacy k z s1).

(* ---- executable copy over Q of the closed-form predictions (k is the float handed to the library) *)
Open Scope Q_scope.
Definition q_zR (k w0 : Q) : Q := k * (w0 * w0) / 2.
Definition q_w2 (k w0 z : Q) : Q := (w0 * w0) * (1 + (z / q_zR k w0) * (z / q_zR k w0)).
Definition q_amp2 (k w0 z : Q) : Q := (w0 * w0) / q_w2 k w0 z.
Definition q_beta (k w0 z : Q) : Q := (2 * z / k) / ((w0 * w0) * (w0 * w0) + (2 * z / k) * (2 * z / k)).
Definition q_contrast (k w0 f : Q) : Q := 1 + 4 * ((q_zR k w0 / f) * (q_zR k w0 / f)).
Definition q_spot2 (k w0 f : Q) : Q := (w0 * f / q_zR k w0) * (w0 * f / q_zR k w0).
(* all predictions of one case, as a list *)
Definition q_predict (k w0 z f : Q) : list Q :=
  (Qred (q_w2 k w0 z) :: Qred (q_amp2 k w0 z) :: Qred (q_beta k w0 z) :: Qred (q_contrast k w0 f) :: Qred (q_spot2 k w0 f) :: nil)%list.
Close Scope Q_scope.
