(* C16 — proofs. *)
From Coq Require Import ZArith Reals List Bool Lia Lra.
From Flocq Require Import Core IEEE754.BinarySingleNaN.
From OdakV Require Import Base.RealAux C16.Model.
Import ListNotations.

(* ================================================================== 1. abstract planes *)
Lemma sum_upto_zero n f : (forall j, (j < n)%nat -> f j = 0%R) -> sum_upto n f = 0%R.
Proof.
  induction n as [|k IH]; intros H; simpl; [reflexivity|].
  rewrite IH by (intros; apply H; lia). rewrite H by lia. lra.
Qed.

Lemma sum_upto_single n f i :
  (i < n)%nat -> (forall j, (j < n)%nat -> j <> i -> f j = 0%R) -> sum_upto n f = f i.
Proof.
  induction n as [|k IH]; intros Hi H; [lia|]. simpl.
  destruct (Nat.eq_dec i k) as [->|Hne].
  - rewrite sum_upto_zero by (intros; apply H; lia). lra.
  - rewrite IH by (try lia; intros; apply H; lia). rewrite (H k) by lia. lra.
Qed.

Lemma sum_upto_ext n f g : (forall j, (j < n)%nat -> f j = g j) -> sum_upto n f = sum_upto n g.
Proof. induction n as [|k IH]; intros H; simpl; [reflexivity|]. rewrite IH, H by (intros; try apply H; lia). reflexivity. Qed.

Section PlanesFacts.
  Variable P : Type.
  Variable n : nat.
  Variable m : nat -> P -> bool.

  Lemma others_off p i : (i < n)%nat -> m i p = true ->
    (forall j, (j < n)%nat -> m j p = true -> j = i) -> forall j, (j < n)%nat -> j <> i -> m j p = false.
  Proof. intros _ _ U j Hj Hne. destruct (m j p) eqn:E; [|reflexivity]. exfalso. apply Hne, U; assumption. Qed.

  Lemma masks_disjoint p i j : exactly_one P n m p -> (i < n)%nat -> (j < n)%nat -> m i p = true -> m j p = true -> i = j.
  Proof. intros (k & _ & _ & U) Hi Hj A B. rewrite (U i Hi A), (U j Hj B). reflexivity. Qed.

  Lemma masks_cover p : exactly_one P n m p -> exists i, (i < n)%nat /\ m i p = true.
  Proof. intros (k & Hk & A & _). exists k. split; assumption. Qed.

  Lemma masks_sum_one p : exactly_one P n m p -> sum_upto n (fun i => b2R (m i p)) = 1%R.
  Proof.
    intros (k & Hk & A & U). rewrite (sum_upto_single n _ k Hk).
    - rewrite A. reflexivity.
    - intros j Hj Hne. rewrite (others_off p k Hk A U j Hj Hne). reflexivity.
  Qed.

  Lemma targets_sum (img : image P) ch p : exactly_one P n m p ->
    sum_upto n (fun i => target P m img i ch p) = img ch p.
  Proof.
    intros (k & Hk & A & U). rewrite (sum_upto_single n _ k Hk).
    - unfold target. rewrite A. simpl. lra.
    - intros j Hj Hne. unfold target. rewrite (others_off p k Hk A U j Hj Hne). simpl. lra.
  Qed.

  Lemma focus_is_image (img : image P) ch p : exactly_one P n m p -> focus P n m img ch p = img ch p.
  Proof. apply targets_sum. Qed.

  (* a pixel of plane i keeps its value in target i and is zero in every other target *)
  Lemma target_in_plane (img : image P) i ch p : m i p = true -> target P m img i ch p = img ch p.
  Proof. intros A. unfold target. rewrite A. simpl. lra. Qed.
  Lemma target_off_plane (img : image P) i ch p : m i p = false -> target P m img i ch p = 0%R.
  Proof. intros A. unfold target. rewrite A. simpl. lra. Qed.

  (* the code before the repair: every channel of the all-in-focus target is the sum over channels *)
  Lemma focus_legacy_channel_sum (img : image P) C ch p : exactly_one P n m p ->
    focus_legacy P n m img C ch p = sum_upto C (fun c => img c p).
  Proof.
    intros (k & Hk & A & U). unfold focus_legacy. rewrite (sum_upto_single n _ k Hk).
    - apply sum_upto_ext. intros c _. apply target_in_plane, A.
    - intros j Hj Hne. apply sum_upto_zero. intros c _. apply target_off_plane, (others_off p k Hk A U j Hj Hne).
  Qed.

  Lemma focus_legacy_one_channel (img : image P) p : exactly_one P n m p -> focus_legacy P n m img 1 0 p = img 0%nat p.
  Proof. intros H. rewrite focus_legacy_channel_sum by exact H. simpl. lra. Qed.

  (* ---------------- defocus *)
  Variable pix : list P.
  Variable blur : nat -> (P -> R) -> (P -> R).
  Variable nsig : nat -> nat -> nat.

  Lemma sum_list_nonneg_zero (l : list R) : (forall x, In x l -> 0 <= x)%R -> (sum_list l <= 0)%R -> forall x, In x l -> x = 0%R.
  Proof.
    induction l as [|a l IH]; intros Hp Hs x Hx; [destruct Hx|].
    assert (Hl : (0 <= sum_list l)%R).
    { clear -Hp. induction l as [|b l IH]; simpl; [lra|]. assert (0 <= b)%R by (apply Hp; right; left; reflexivity).
      assert (0 <= sum_list l)%R by (apply IH; intros y Hy; apply Hp; destruct Hy as [Hy|Hy]; [left; exact Hy|right; right; exact Hy]). lra. }
    assert (Ha : (0 <= a)%R) by (apply Hp; left; reflexivity).
    simpl in Hs. destruct Hx as [<-|Hx]; [lra|].
    apply IH; [intros y Hy; apply Hp; right; exact Hy|lra|exact Hx].
  Qed.

  Lemma defocus_keeps_focus (img : image P) mult i ch p :
    (forall f q, In q pix -> blur 0 f q = f q) ->            (* the nsigma = 0 kernel is the delta kernel *)
    (forall q, In q pix -> exactly_one P n m q) ->
    (forall q, In q pix -> 0 <= img ch q)%R ->                (* images are non-negative *)
    In p pix -> (i < n)%nat -> m i p = true ->
    defocus P n m pix blur nsig img mult i ch p = (mult * img ch p)%R.
  Proof.
    intros Hb Hex Hpos Hp Hi A. unfold defocus. f_equal.
    destruct (Hex p Hp) as (k & Hk & Ak & U).
    assert (k = i) by (symmetry; apply U; assumption). subst k.
    rewrite (sum_upto_single n _ i Hi).
    - unfold level. rewrite Nat.eqb_refl, (Hb _ p Hp), A. simpl. rewrite Rabs_R1.
      unfold total. rewrite (targets_sum img ch p (Hex p Hp)).
      destruct (Rltb 0 (plane_sum P m pix img i ch)) eqn:G; [lra|].
      apply Rltb_false in G. symmetry.
      rewrite <- (target_in_plane img i ch p A).
      apply (sum_list_nonneg_zero (map (target P m img i ch) pix)).
      + intros x Hx. apply in_map_iff in Hx. destruct Hx as (q & <- & Hq). unfold target.
        apply Rmult_le_pos; [apply Hpos, Hq|]. destruct (m i q); simpl; lra.
      + exact G.
      + apply in_map. exact Hp.
    - intros j Hj Hne. rewrite (others_off p i Hi A U j Hj Hne). simpl. rewrite Rabs_R0.
      destruct (Rltb 0 (plane_sum P m pix img j ch)); lra.
  Qed.

  (* a single plane: the target is the image itself, with and without defocus *)
  Lemma single_plane_target (img : image P) ch p : n = 1%nat -> exactly_one P n m p -> target P m img 0 ch p = img ch p.
  Proof. intros -> (k & Hk & A & _). assert (k = 0%nat) by lia. subst k. apply target_in_plane, A. Qed.
End PlanesFacts.

(* ---------------- masks of a quantiser *)
Lemma qmask_exactly_one (P : Type) (rho : P -> Z) n p :
  (0 <= rho p < Z.of_nat n)%Z -> exactly_one P n (qmask rho) p.
Proof.
  intros H. exists (Z.to_nat (rho p)). unfold qmask. split; [lia|]. split.
  - apply Z.eqb_eq. lia.
  - intros j _ E. apply Z.eqb_eq in E. lia.
Qed.

(* the same for a real-valued quantised depth, as the code has it *)
Lemma rmask_exactly_one (P : Type) (rq : P -> R) n p :
  plane_number_in_range n (rq p) -> exactly_one P n (rmask rq) p.
Proof.
  intros (k & E & Hk). exists (Z.to_nat k). unfold rmask. rewrite E. split; [lia|]. split.
  - apply Reqb_true. f_equal. lia.
  - intros j _ A. apply Reqb_true in A. apply eq_IZR in A. lia.
Qed.

Lemma rmask_disjoint (P : Type) (rq : P -> R) i j p : rmask rq i p = true -> rmask rq j p = true -> i = j.
Proof. unfold rmask. intros A B. apply Reqb_true in A, B. rewrite A in B. apply eq_IZR in B. lia. Qed.

(* every "integer part" style quantiser of a value in [0, n) is a plane number: floor, floor(x + 1/2), ... *)
Lemma Int_part_in_range n y : (0 <= y < INR n)%R -> plane_number_in_range n (IZR (Int_part y)).
Proof.
  intros [H0 H1]. exists (Int_part y). split; [reflexivity|].
  destruct (base_Int_part y) as [A B]. rewrite INR_IZR_INZ in H1. set (k := Int_part y) in *. clearbody k. split.
  - assert (H : (-1 < IZR k)%R) by lra. apply lt_IZR in H. lia.
  - assert (H : (IZR k < IZR (Z.of_nat n))%R) by lra. apply lt_IZR in H. exact H.
Qed.

Lemma set_targets_any_quantiser (P : Type) (rq : P -> R) n (img : image P) ch p :
  plane_number_in_range n (rq p) ->
  let m := rmask rq in
  exactly_one P n m p /\
  sum_upto n (fun i => b2R (m i p)) = 1%R /\
  sum_upto n (fun i => target P m img i ch p) = img ch p /\
  focus P n m img ch p = img ch p.
Proof.
  intros Hq m. assert (E : exactly_one P n m p) by (apply rmask_exactly_one, Hq).
  split; [exact E|]. split; [apply masks_sum_one, E|]. split; [apply targets_sum, E|apply focus_is_image, E].
Qed.

Lemma depth_out_range n x : plane_number_in_range n x -> (0 <= depth_out n x <= 1)%R.
Proof.
  intros (k & -> & Hk). unfold depth_out, divider.
  destruct (Nat.eqb (n - 1) 0) eqn:E.
  - apply Nat.eqb_eq in E. assert (k = 0%Z) by lia. subst k. simpl. lra.
  - apply Nat.eqb_neq in E. assert (Hp : (0 < INR (n - 1))%R) by (apply lt_0_INR; lia).
    assert (Hk1 : (IZR k <= INR (n - 1))%R).
    { rewrite INR_IZR_INZ. apply IZR_le. lia. }
    assert (Hk0 : (0 <= IZR k)%R) by (apply IZR_le; lia).
    split.
    + apply Rmult_le_pos; [exact Hk0|]. left. apply Rinv_0_lt_compat, Hp.
    + apply Rmult_le_reg_r with (INR (n - 1)); [exact Hp|]. unfold Rdiv. rewrite Rmult_assoc, Rinv_l by lra. lra.
Qed.

(* without the range condition the masks are still pairwise disjoint *)
Lemma qmask_disjoint (P : Type) (rho : P -> Z) i j p : qmask rho i p = true -> qmask rho j p = true -> i = j.
Proof. unfold qmask. intros A B. apply Z.eqb_eq in A, B. lia. Qed.

Lemma focus_legacy_refuted :
  exists (img : image unit), exactly_one unit 1 (qmask (fun _ => 0%Z)) tt /\
    focus_legacy unit 1 (qmask (fun _ => 0%Z)) img 3 0 tt <> img 0%nat tt.
Proof.
  exists (fun _ _ => 1%R). split; [apply qmask_exactly_one; simpl; lia|].
  unfold focus_legacy, target, qmask. simpl. lra.
Qed.

(* ================================================================== 2. quantisers *)
Lemma Znearest_range x k : (0 <= x <= IZR k)%R -> (0 <= ZnearestE x <= k)%Z.
Proof.
  intros [H0 H1]. split.
  - apply Z.le_trans with (Zfloor x); [apply Zfloor_lub; exact H0|apply Znearest_ge_floor].
  - apply Z.le_trans with (Zceil x); [apply Znearest_le_ceil|apply Zceil_glb; exact H1].
Qed.

Lemma round_range n d : (1 <= n)%Z -> (0 <= d <= 1)%R -> (0 <= quantR n d < n)%Z.
Proof.
  intros Hn [H0 H1]. unfold quantR.
  assert (Hk : (0 <= IZR (n - 1))%R) by (apply IZR_le; lia).
  assert (0 <= ZnearestE (d * IZR (n - 1)) <= n - 1)%Z; [|lia].
  apply Znearest_range. split; [apply Rmult_le_pos; assumption|].
  rewrite <- (Rmult_1_l (IZR (n - 1))) at 2. apply Rmult_le_compat_r; assumption.
Qed.

Lemma quantR_single d : quantR 1 d = 0%Z.
Proof. unfold quantR. simpl. rewrite Rmult_0_r. apply (@Zrnd_IZR ZnearestE _ 0%Z). Qed.

(* ---------------- round half up (the tracer's Rround) *)
Lemma Reqb_IZR a b : Reqb (IZR a) (IZR b) = Z.eqb a b.
Proof.
  unfold Reqb. destruct (Req_EM_T (IZR a) (IZR b)) as [E|E].
  - apply eq_IZR in E. subst. symmetry. apply Z.eqb_refl.
  - symmetry. apply Z.eqb_neq. intros ->. apply E. reflexivity.
Qed.

Lemma Rabs_ite01 (c : bool) : Rabs (if c then 1 else 0) = (if c then 1 else 0)%R.
Proof. destruct c; [apply Rabs_R1|apply Rabs_R0]. Qed.

Lemma Rround_quantF n d : Rround (d * IZR (n - 1)) = IZR (quantF n d).
Proof. reflexivity. Qed.

Lemma quantF_range n d : (1 <= n)%Z -> (0 <= d <= 1)%R -> (0 <= quantF n d < n)%Z.
Proof.
  intros Hn [H0 H1]. unfold quantF.
  assert (Hk : (0 <= IZR (n - 1))%R) by (apply IZR_le; lia).
  assert (Hx : (0 <= d * IZR (n - 1) <= IZR (n - 1))%R).
  { split; [apply Rmult_le_pos; assumption|]. rewrite <- (Rmult_1_l (IZR (n - 1))) at 2. apply Rmult_le_compat_r; assumption. }
  destruct (base_Int_part (d * IZR (n - 1) + / 2)) as [A B].
  set (k := Int_part (d * IZR (n - 1) + / 2)) in *. clearbody k.
  split.
  - assert (-1 < IZR k)%R by lra. apply lt_IZR in H. lia.
  - assert (IZR k < IZR n)%R by (pose proof (minus_IZR n 1) as E; lra). apply lt_IZR in H. exact H.
Qed.

(* ---------------- binary32 *)
Local Existing Instance Hprec32.
Local Existing Instance Hmax32.

Lemma fexp32_FLT : fexp32 = FLT_exp (-149) 24.
Proof. reflexivity. Qed.

Lemma format_small_int k : (Z.abs k < 2 ^ 24)%Z -> generic_format radix2 fexp32 (IZR k).
Proof.
  intros H. rewrite fexp32_FLT. apply generic_format_FLT.
  exists (Float radix2 k 0); simpl; [unfold F2R; simpl; ring|exact H|lia].
Qed.

Lemma rnd32_range x k : (0 <= k < 2 ^ 24)%Z -> (0 <= x <= IZR k)%R -> (0 <= rnd32 x <= IZR k)%R.
Proof.
  intros Hk [H0 H1]. split.
  - apply round_ge_generic; [apply fexp_correct; exact Hprec32|apply valid_rnd_N|apply generic_format_0|exact H0].
  - apply round_le_generic; [apply fexp_correct; exact Hprec32|apply valid_rnd_N|apply format_small_int; lia|exact H1].
Qed.

Lemma small_lt_emax k : (0 <= k < 2 ^ 24)%Z -> forall x, (0 <= x <= IZR k)%R -> Rlt_bool (Rabs x) (bpow radix2 emax32) = true.
Proof.
  intros Hk x [H0 H1]. apply Rlt_bool_true. rewrite Rabs_pos_eq by exact H0.
  apply Rle_lt_trans with (IZR k); [exact H1|].
  apply Rlt_le_trans with (IZR (2 ^ 24)); [apply IZR_lt; lia|].
  change (2 ^ 24)%Z with (Zpower radix2 24). rewrite IZR_Zpower by lia. apply bpow_le. unfold emax32. lia.
Qed.

Lemma Z2B_correct k : (0 <= k < 2 ^ 24)%Z -> B2R (Z2B k) = IZR k /\ is_finite (Z2B k) = true.
Proof.
  intros Hk. unfold Z2B, D2B. simpl fst; simpl snd.
  pose proof (binary_normalize_correct prec32 emax32 Hprec32 Hmax32 mode_NE k 0 false) as H.
  cbv zeta in H.
  assert (E : F2R (Float radix2 k 0) = IZR k) by (unfold F2R; simpl; ring).
  rewrite E in H. simpl round_mode in H.
  change (SpecFloat.fexp prec32 emax32) with fexp32 in H.
  rewrite (round_generic radix2 fexp32 ZnearestE (IZR k)) in H by (apply format_small_int; lia).
  assert (Hr : (0 <= IZR k <= IZR k)%R) by (split; [apply IZR_le; lia|lra]).
  rewrite (small_lt_emax k Hk _ Hr) in H.
  destruct H as (A & B & _). split; assumption.
Qed.

Lemma round_FIX0 rnd x : round radix2 (FIX_exp 0) rnd x = IZR (rnd x).
Proof.
  unfold round, F2R, scaled_mantissa, cexp, FIX_exp. simpl. rewrite Rmult_1_r, Rmult_1_r. reflexivity.
Qed.

(* what the float32 quantiser computes, in terms of real-number rounding operators *)
Lemma q32Z_spec n d : (1 <= n <= 2 ^ 24)%Z -> is_finite d = true -> (0 <= B2R d <= 1)%R ->
  q32Z n d = ZnearestE (rnd32 (B2R d * IZR (n - 1))).
Proof.
  intros Hn Hf [H0 H1]. unfold q32Z, q32.
  destruct (Z2B_correct (n - 1)) as [Zr Zf]; [lia|].
  set (nf := Z2B (n - 1)) in *.
  assert (Hx : (0 <= B2R d * IZR (n - 1) <= IZR (n - 1))%R).
  { assert (0 <= IZR (n - 1))%R by (apply IZR_le; lia). split; [apply Rmult_le_pos; assumption|].
    rewrite <- (Rmult_1_l (IZR (n - 1))) at 2. apply Rmult_le_compat_r; assumption. }
  pose proof (Bmult_correct prec32 emax32 Hprec32 Hmax32 mode_NE d nf) as Hm.
  simpl round_mode in Hm. change (SpecFloat.fexp prec32 emax32) with fexp32 in Hm. rewrite Zr in Hm.
  assert (Hr : (0 <= rnd32 (B2R d * IZR (n - 1)) <= IZR (n - 1))%R) by (apply rnd32_range; [lia|exact Hx]).
  rewrite (small_lt_emax (n - 1) ltac:(lia) _ Hr) in Hm.
  destruct Hm as (Mr & Mf & _).
  set (pr := Bmult mode_NE d nf) in *.
  destruct (Bnearbyint_correct prec32 emax32 Hmax32 mode_NE pr) as (Nr & Nf & _).
  simpl round_mode in Nr. rewrite round_FIX0 in Nr.
  apply eq_IZR. rewrite (Btrunc_correct prec32 emax32 Hmax32), round_FIX0, Nr, Ztrunc_IZR, Mr. reflexivity.
Qed.

Lemma q32Z_range n d : (1 <= n <= 2 ^ 24)%Z -> is_finite d = true -> (0 <= B2R d <= 1)%R ->
  (0 <= q32Z n d < n)%Z.
Proof.
  intros Hn Hf Hd. rewrite q32Z_spec by assumption.
  assert (0 <= ZnearestE (rnd32 (B2R d * IZR (n - 1))) <= n - 1)%Z; [|lia].
  apply Znearest_range. apply rnd32_range; [lia|].
  destruct Hd as [H0 H1]. assert (0 <= IZR (n - 1))%R by (apply IZR_le; lia). split; [apply Rmult_le_pos; assumption|].
  rewrite <- (Rmult_1_l (IZR (n - 1))) at 2. apply Rmult_le_compat_r; assumption.
Qed.

(* when the float32 product is exact the float32 and the real quantiser agree *)
Lemma q32Z_exact n d : (1 <= n <= 2 ^ 24)%Z -> is_finite d = true -> (0 <= B2R d <= 1)%R ->
  generic_format radix2 fexp32 (B2R d * IZR (n - 1)) -> q32Z n d = quantR n (B2R d).
Proof. intros Hn Hf Hd G. rewrite q32Z_spec by assumption. unfold quantR. rewrite round_generic; [reflexivity|apply valid_rnd_N|exact G]. Qed.

(* ================================================================== 3. interval slicing *)
Lemma sorted_mono ps a b : sorted_adj ps -> (a <= b)%nat -> (b < length ps)%nat -> (nth a ps 0 <= nth b ps 0)%R.
Proof.
  intros Hs Hab Hb. induction b as [|b IH]; [replace a with 0%nat by lia; lra|].
  destruct (Nat.eq_dec a (S b)) as [->|Hne]; [lra|].
  apply Rle_trans with (nth b ps 0%R); [apply IH; lia|apply Hs; lia].
Qed.

Lemma slice_exists ps d : let N := (length ps - 1)%nat in sorted_adj ps -> (d <= nth N ps 0)%R ->
  forall t k, (N - 1 - k = t)%nat -> (k < N)%nat -> (nth k ps 0 <= d)%R ->
  exists i, (i < N)%nat /\ slice_maskR ps i d = true.
Proof.
  intros N Hs Hd t. induction t as [|t IH]; intros k Ht Hk Hl.
  - exists k. split; [exact Hk|]. unfold slice_maskR. fold N.
    replace (S k <? N)%nat with false by (symmetry; apply Nat.ltb_ge; lia).
    replace (S k) with N by lia. apply andb_true_intro. split; apply Rleb_true; assumption.
  - destruct (Rlt_dec d (nth (S k) ps 0%R)) as [Hlt|Hge].
    + exists k. split; [exact Hk|]. unfold slice_maskR. fold N.
      replace (S k <? N)%nat with true by (symmetry; apply Nat.ltb_lt; lia).
      apply andb_true_intro. split; [apply Rleb_true; assumption|apply Rltb_true; assumption].
    + apply (IH (S k)); [lia|lia|lra].
Qed.

Lemma intervals_partition (P : Type) (depth : P -> R) ps p :
  let N := (length ps - 1)%nat in
  (1 <= N)%nat -> sorted_adj ps -> (nth 0 ps 0 <= depth p <= nth N ps 0)%R ->
  exactly_one P N (fun i q => slice_maskR ps i (depth q)) p.
Proof.
  intros N HN Hs [Hlo Hhi].
  destruct (slice_exists ps (depth p) Hs Hhi (N - 1 - 0)%nat 0%nat eq_refl ltac:(fold N; lia) Hlo) as (i & Hi & A).
  fold N in Hi. exists i. split; [exact Hi|]. split; [exact A|].
  assert (U : forall a b, (a < b)%nat -> (b < N)%nat -> slice_maskR ps a (depth p) = true -> slice_maskR ps b (depth p) = true -> False).
  { intros a b Hab Hb Ma Mb. unfold slice_maskR in Ma, Mb. fold N in Ma, Mb.
    apply andb_prop in Ma. destruct Ma as [_ Ma]. apply andb_prop in Mb. destruct Mb as [Mb _].
    replace (S a <? N)%nat with true in Ma by (symmetry; apply Nat.ltb_lt; lia).
    apply Rltb_true in Ma. apply Rleb_true in Mb.
    assert (nth (S a) ps 0 <= nth b ps 0)%R by (apply sorted_mono; [exact Hs|lia|unfold N in Hb; lia]). lra. }
  intros j Hj B. destruct (lt_eq_lt_dec j i) as [[H|H]|H]; [exfalso; apply (U j i); assumption|exact H|exfalso; apply (U i j); assumption].
Qed.

(* the float32 comparisons decide the same intervals as the real ones on the float values *)
Lemma Rle_bool_Rleb x y : Rle_bool x y = Rleb x y.
Proof. unfold Rleb. destruct (Rle_dec x y); [apply Rle_bool_true; assumption|apply Rle_bool_false; lra]. Qed.
Lemma Rlt_bool_Rltb x y : Rlt_bool x y = Rltb x y.
Proof. unfold Rltb. destruct (Rlt_dec x y); [apply Rlt_bool_true; assumption|apply Rlt_bool_false; lra]. Qed.

Lemma nth_map_B2R (ps : list f32) i : nth i (map (@B2R prec32 emax32) ps) 0%R = B2R (nth i ps B0).
Proof. change 0%R with (@B2R prec32 emax32 B0). apply map_nth. Qed.

Lemma slice_mask32_R (ps : list f32) i d :
  (forall f, In f ps -> is_finite f = true) -> is_finite d = true -> (S i < length ps)%nat ->
  slice_mask32 ps i d = slice_maskR (map (@B2R prec32 emax32) ps) i (B2R d).
Proof.
  intros Hf Hd Hi. unfold slice_mask32, slice_maskR. rewrite map_length, !nth_map_B2R.
  assert (F1 : is_finite (nth i ps B0) = true) by (apply Hf, nth_In; lia).
  assert (F2 : is_finite (nth (S i) ps B0) = true) by (apply Hf, nth_In; lia).
  rewrite !Bleb_correct, Bltb_correct by assumption. rewrite !Rle_bool_Rleb, Rlt_bool_Rltb. reflexivity.
Qed.

Lemma intervals_partition32 (P : Type) (depth : P -> f32) (ps : list f32) p :
  let N := (length ps - 1)%nat in
  (1 <= N)%nat -> (forall f, In f ps -> is_finite f = true) -> (forall q, is_finite (depth q) = true) ->
  sorted_adj (map (@B2R prec32 emax32) ps) ->
  (B2R (nth 0 ps B0) <= B2R (depth p) <= B2R (nth N ps B0))%R ->
  exactly_one P N (fun i q => slice_mask32 ps i (depth q)) p.
Proof.
  intros N HN Hf Hd Hs Hr.
  pose proof (intervals_partition P (fun q => B2R (depth q)) (map (@B2R prec32 emax32) ps) p) as H.
  cbv zeta in H. rewrite map_length in H. fold N in H. rewrite !nth_map_B2R in H.
  destruct (H HN Hs Hr) as (i & Hi & A & U).
  exists i. split; [exact Hi|]. split.
  - rewrite slice_mask32_R; [exact A|exact Hf|apply Hd|unfold N, f32 in *; lia].
  - intros j Hj B. apply U; [exact Hj|]. rewrite <- slice_mask32_R; [exact B|exact Hf|apply Hd|unfold N, f32 in *; lia].
Qed.

(* ================================================================== 4. executable list versions *)
Lemma count_true_app a b : count_true (a ++ b) = (count_true a + count_true b)%nat.
Proof. unfold count_true. rewrite filter_app, app_length. reflexivity. Qed.

Lemma count_true_single b : count_true [b] = if b then 1%nat else 0%nat.
Proof. destruct b; reflexivity. Qed.

Lemma count_eqb_seq q n :
  count_true (map (fun i => Z.eqb q (Z.of_nat i)) (seq 0 n)) = if ((0 <=? q) && (q <? Z.of_nat n))%Z then 1%nat else 0%nat.
Proof.
  induction n as [|n IH]; [simpl; destruct (Z.leb_spec 0 q), (Z.ltb_spec q 0); simpl; try reflexivity; lia|].
  rewrite seq_S, map_app, count_true_app, IH. cbn [map Nat.add]. rewrite count_true_single.
  destruct (Z.leb_spec 0 q), (Z.ltb_spec q (Z.of_nat n)), (Z.ltb_spec q (Z.of_nat (S n))), (Z.eqb_spec q (Z.of_nat n));
    cbn [andb Nat.add]; try reflexivity; lia.
Qed.

Lemma column_masks_of n qs k : (k < length qs)%nat ->
  column (masks_of n qs) k = map (fun i => Z.eqb (nth k qs 0%Z) (Z.of_nat i)) (seq 0 n).
Proof.
  intros Hk. unfold column, masks_of. rewrite map_map. apply map_ext. intros i.
  rewrite (nth_indep _ false ((fun q => Z.eqb q (Z.of_nat i)) 0%Z)) by (rewrite map_length; exact Hk).
  apply (map_nth (fun q => Z.eqb q (Z.of_nat i))).
Qed.

Lemma masks_of_partition n qs k : (k < length qs)%nat -> (0 <= nth k qs 0 < Z.of_nat n)%Z ->
  count_true (column (masks_of n qs) k) = 1%nat.
Proof.
  intros Hk [H0 H1]. rewrite column_masks_of by exact Hk. rewrite count_eqb_seq.
  replace (0 <=? nth k qs 0)%Z with true by (symmetry; apply Z.leb_le; exact H0).
  replace (nth k qs 0 <? Z.of_nat n)%Z with true by (symmetry; apply Z.ltb_lt; exact H1). reflexivity.
Qed.


Lemma exec_masks_partition n depth k :
  (1 <= Z.of_nat n <= 2 ^ 24)%Z -> (forall x, In x depth -> valid_depth x) -> (k < length depth)%nat ->
  count_true (column (exec_masks n depth) k) = 1%nat.
Proof.
  intros Hn Hv Hk. unfold exec_masks. apply masks_of_partition; unfold exec_quant; [rewrite map_length; exact Hk|].
  rewrite (nth_indep _ 0%Z ((fun d => q32Z (Z.of_nat n) (D2B d)) (0%Z, 0%Z))) by (rewrite map_length; exact Hk).
  rewrite (map_nth (fun d => q32Z (Z.of_nat n) (D2B d))).
  destruct (Hv (nth k depth (0%Z, 0%Z))) as [Hf Hr]; [apply nth_In; exact Hk|].
  apply q32Z_range; assumption.
Qed.

Lemma count_true_cons b l : count_true (b :: l) = ((if b then 1 else 0) + count_true l)%nat.
Proof. unfold count_true. simpl. destruct b; reflexivity. Qed.

Lemma count_seq_zero (g : nat -> bool) N : (forall j, (j < N)%nat -> g j = false) -> count_true (map g (seq 0 N)) = 0%nat.
Proof.
  induction N as [|N IH]; intros H; [reflexivity|].
  rewrite seq_S, map_app, count_true_app, IH by (intros; apply H; lia). cbn [map Nat.add].
  rewrite count_true_single, H by lia. reflexivity.
Qed.

Lemma count_seq_one (g : nat -> bool) N i : (i < N)%nat -> g i = true ->
  (forall j, (j < N)%nat -> j <> i -> g j = false) -> count_true (map g (seq 0 N)) = 1%nat.
Proof.
  induction N as [|N IH]; intros Hi A H; [lia|].
  rewrite seq_S, map_app, count_true_app. cbn [map Nat.add]. rewrite count_true_single.
  destruct (Nat.eq_dec i N) as [->|Hne].
  - rewrite count_seq_zero by (intros; apply H; lia). rewrite A. reflexivity.
  - rewrite IH by (try lia; try assumption; intros; apply H; lia). rewrite (H N) by lia. reflexivity.
Qed.

Lemma exactly_one_count (P : Type) N (m : nat -> P -> bool) p :
  exactly_one P N m p -> count_true (map (fun i => m i p) (seq 0 N)) = 1%nat.
Proof.
  intros (i & Hi & A & U). apply (count_seq_one _ N i Hi A).
  intros j Hj Hne. apply (others_off P N m p i Hi A U j Hj Hne).
Qed.

Lemma D2B_zero_finite : is_finite (D2B (0%Z, 0%Z)) = true.
Proof. reflexivity. Qed.

Lemma exec_slice_partition ps depth k :
  let N := (length ps - 1)%nat in
  (1 <= N)%nat -> (forall x, In x ps -> is_finite (D2B x) = true) ->
  (forall x, In x depth -> is_finite (D2B x) = true) ->
  sorted_adj (map (@B2R prec32 emax32) (map D2B ps)) ->
  (k < length depth)%nat ->
  (B2R (D2B (nth 0 ps (0, 0)%Z)) <= B2R (D2B (nth k depth (0, 0)%Z)) <= B2R (D2B (nth N ps (0, 0)%Z)))%R ->
  count_true (column (exec_slice_masks ps depth) k) = 1%nat.
Proof.
  intros N HN Hp Hd Hs Hk Hr. unfold exec_slice_masks, column. rewrite map_map. fold N.
  rewrite (map_ext _ (fun i => slice_mask32 (map D2B ps) i (D2B (nth k depth (0, 0)%Z)))).
  2:{ intros i. rewrite (nth_indep _ false ((fun d => slice_mask32 (map D2B ps) i (D2B d)) (0, 0)%Z)) by (rewrite map_length; exact Hk).
      apply (map_nth (fun d => slice_mask32 (map D2B ps) i (D2B d))). }
  pose proof (intervals_partition32 nat (fun q => D2B (nth q depth (0, 0)%Z)) (map D2B ps) k) as H.
  cbv zeta in H. rewrite map_length in H. fold N in H.
  apply (exactly_one_count nat N (fun i q => slice_mask32 (map D2B ps) i (D2B (nth q depth (0, 0)%Z))) k).
  apply H.
  - exact HN.
  - intros f Hf. apply in_map_iff in Hf. destruct Hf as (x & <- & Hx). apply Hp, Hx.
  - intros q. destruct (Nat.lt_ge_cases q (length depth)) as [Hq|Hq]; [apply Hd, nth_In, Hq|rewrite nth_overflow by exact Hq; apply D2B_zero_finite].
  - exact Hs.
  - change B0 with (D2B (0, 0)%Z). rewrite !(map_nth D2B). exact Hr.
Qed.

(* ---------------- the executable all-in-focus target is the image *)
Lemma map_nth_dflt (A B : Type) (f : A -> B) l k d d' : f d' = d -> nth k (map f l) d = f (nth k l d').
Proof. intros <-. apply map_nth. Qed.

Lemma nth_apply_mask chn mk k : length chn = length mk ->
  nth k (apply_mask chn mk) 0%Z = if nth k mk false then nth k chn 0%Z else 0%Z.
Proof.
  intros HL. unfold apply_mask.
  rewrite (map_nth_dflt _ _ _ _ k 0%Z (0%Z, false) eq_refl), combine_nth by exact HL. reflexivity.
Qed.

Lemma nth_addl a b k : length a = length b -> nth k (addl a b) 0%Z = (nth k a 0 + nth k b 0)%Z.
Proof.
  intros HL. unfold addl.
  rewrite (map_nth_dflt _ _ _ _ k 0%Z (0%Z, 0%Z) eq_refl), combine_nth by exact HL. reflexivity.
Qed.

Lemma length_apply_mask chn mk : length chn = length mk -> length (apply_mask chn mk) = length chn.
Proof. intros HL. unfold apply_mask. rewrite map_length, combine_length, HL. apply Nat.min_id. Qed.

Lemma length_addl a b : length a = length b -> length (addl a b) = length a.
Proof. intros HL. unfold addl. rewrite map_length, combine_length, HL. apply Nat.min_id. Qed.

Lemma fold_focus chn masks : (forall row, In row masks -> length row = length chn) ->
  forall acc, length acc = length chn ->
  let r := fold_left (fun acc mk => addl acc (apply_mask chn mk)) masks acc in
  length r = length chn /\
  forall k, nth k r 0%Z = (nth k acc 0 + nth k chn 0 * Z.of_nat (count_true (column masks k)))%Z.
Proof.
  induction masks as [|mk rest IH]; intros Hrow acc Hacc; cbn zeta.
  - simpl. split; [exact Hacc|]. intros k. unfold column, count_true. simpl. lia.
  - simpl fold_left.
    assert (Hmk : length chn = length mk) by (symmetry; apply Hrow; left; reflexivity).
    assert (Hl : length (addl acc (apply_mask chn mk)) = length chn).
    { rewrite length_addl; [exact Hacc|]. rewrite length_apply_mask by exact Hmk. exact Hacc. }
    destruct (IH (fun row H => Hrow row (or_intror H)) _ Hl) as [L1 L2]. split; [exact L1|].
    intros k. rewrite L2, nth_addl, nth_apply_mask by (try exact Hmk; rewrite length_apply_mask by exact Hmk; exact Hacc).
    unfold column. cbn [map]. rewrite count_true_cons. fold (column rest k).
    destruct (nth k mk false); cbn [Nat.add]; lia.
Qed.

Lemma nth_zeros (A : Type) (l : list A) k : nth k (map (fun _ => 0%Z) l) 0%Z = 0%Z.
Proof. revert k. induction l as [|a l IH]; intros [|k]; simpl; try reflexivity. apply IH. Qed.

Lemma focus_of_is_image masks img L :
  (forall chn, In chn img -> length chn = L) -> (forall row, In row masks -> length row = L) ->
  (forall k, (k < L)%nat -> count_true (column masks k) = 1%nat) ->
  focus_of masks img = img.
Proof.
  intros Hc Hr H1. unfold focus_of. rewrite <- (map_id img) at 2. apply map_ext_in. intros chn Hin.
  pose proof (Hc chn Hin) as HL.
  destruct (fold_focus chn masks (fun row H => eq_trans (Hr row H) (eq_sym HL)) (map (fun _ => 0%Z) chn) (map_length _ _)) as [L1 L2].
  apply (nth_ext _ _ 0%Z 0%Z L1). intros k Hk. rewrite L1 in Hk.
  rewrite L2, nth_zeros, H1 by (rewrite <- HL; exact Hk). lia.
Qed.

Lemma length_rows_masks_of n qs row : In row (masks_of n qs) -> length row = length qs.
Proof. unfold masks_of. intros H. apply in_map_iff in H. destruct H as (i & <- & _). apply map_length. Qed.

Lemma exec_focus_is_image n depth img :
  (1 <= Z.of_nat n <= 2 ^ 24)%Z -> (forall x, In x depth -> valid_depth x) ->
  (forall chn, In chn img -> length chn = length depth) ->
  let '(_, mk, _, foc) := exec_set_targets n depth img in foc = img.
Proof.
  intros Hn Hv Hc. unfold exec_set_targets. apply (focus_of_is_image _ img (length depth)).
  - exact Hc.
  - intros row Hrow. unfold exec_masks in Hrow. apply length_rows_masks_of in Hrow. rewrite Hrow. unfold exec_quant. apply map_length.
  - intros k Hk. apply exec_masks_partition; assumption.
Qed.

(* the float32 product rounds: a depth value where the float32 and the real quantiser differ
   (n = 4, depth = 0x1.555556p-3: 3*depth = 0.50000001 in R, 0.5 in binary32, tie -> even) *)
Lemma quantisers_differ :
  q32Z 4 (D2B (11184811, -26)%Z) = 0%Z /\ quantR 4 (11184811 / 67108864)%R = 1%Z.
Proof.
  split; [vm_compute; reflexivity|]. unfold quantR. apply Znearest_imp.
  change (IZR (4 - 1)) with 3%R. apply Rabs_def1; lra.
Qed.

(* ================================================================== 5. end-to-end statements *)
Lemma set_targets_float32 (P : Type) (depth : P -> f32) n (img : image P) ch p :
  (1 <= Z.of_nat n <= 2 ^ 24)%Z -> is_finite (depth p) = true -> (0 <= B2R (depth p) <= 1)%R ->
  let m := qmask (fun q => q32Z (Z.of_nat n) (depth q)) in
  exactly_one P n m p /\
  sum_upto n (fun i => target P m img i ch p) = img ch p /\
  focus P n m img ch p = img ch p.
Proof.
  intros Hn Hf Hd m.
  assert (E : exactly_one P n m p) by (apply qmask_exactly_one; apply q32Z_range; assumption).
  split; [exact E|]. split; [apply targets_sum, E|apply focus_is_image, E].
Qed.

Lemma set_targets_real (P : Type) (depth : P -> R) n (img : image P) ch p :
  (1 <= n)%nat -> (0 <= depth p <= 1)%R ->
  let m := qmask (fun q => quantR (Z.of_nat n) (depth q)) in
  exactly_one P n m p /\
  sum_upto n (fun i => target P m img i ch p) = img ch p /\
  focus P n m img ch p = img ch p.
Proof.
  intros Hn Hd m.
  assert (E : exactly_one P n m p) by (apply qmask_exactly_one; apply round_range; [lia|exact Hd]).
  split; [exact E|]. split; [apply targets_sum, E|apply focus_is_image, E].
Qed.

Lemma set_targets_halfup (P : Type) (depth : P -> R) n (img : image P) ch p :
  (1 <= n)%nat -> (0 <= depth p <= 1)%R ->
  let m := qmask (fun q => quantF (Z.of_nat n) (depth q)) in
  exactly_one P n m p /\
  sum_upto n (fun i => b2R (m i p)) = 1%R /\
  sum_upto n (fun i => target P m img i ch p) = img ch p /\
  focus P n m img ch p = img ch p.
Proof.
  intros Hn Hd m.
  assert (E : exactly_one P n m p) by (apply qmask_exactly_one; apply quantF_range; [lia|exact Hd]).
  split; [exact E|]. split; [apply masks_sum_one, E|]. split; [apply targets_sum, E|apply focus_is_image, E].
Qed.

Lemma slice_targets_sum (P : Type) (depth : P -> R) ps (img : image P) ch p :
  let N := (length ps - 1)%nat in
  (1 <= N)%nat -> sorted_adj ps -> (nth 0 ps 0 <= depth p <= nth N ps 0)%R ->
  let m := fun i q => slice_maskR ps i (depth q) in
  sum_upto N (fun i => b2R (m i p)) = 1%R /\ sum_upto N (fun i => target P m img i ch p) = img ch p.
Proof.
  intros N HN Hs Hr m. pose proof (intervals_partition P depth ps p HN Hs Hr) as E.
  split; [apply (masks_sum_one P N m p E)|apply (targets_sum P N m img ch p E)].
Qed.

Lemma single_plane_real (P : Type) (depth : P -> R) (img : image P) ch p :
  target P (qmask (fun q => quantR 1 (depth q))) img 0 ch p = img ch p.
Proof. apply target_in_plane. unfold qmask. rewrite quantR_single. reflexivity. Qed.

Lemma single_plane_float32 (P : Type) (depth : P -> f32) (img : image P) ch p :
  is_finite (depth p) = true -> (0 <= B2R (depth p) <= 1)%R ->
  target P (qmask (fun q => q32Z 1 (depth q))) img 0 ch p = img ch p.
Proof.
  intros Hf Hd. apply target_in_plane. unfold qmask.
  pose proof (q32Z_range 1 (depth p) ltac:(lia) Hf Hd). apply Z.eqb_eq. simpl. lia.
Qed.

Lemma single_plane_slice (P : Type) (depth : P -> R) a b (img : image P) ch p :
  (a <= depth p <= b)%R -> target P (fun i q => slice_maskR [a; b] i (depth q)) img 0 ch p = img ch p.
Proof.
  intros [H0 H1]. apply target_in_plane. unfold slice_maskR. simpl.
  apply andb_true_intro. split; apply Rleb_true; assumption.
Qed.

Lemma single_plane_defocus (P : Type) (pix : list P) blur nsig (rho : P -> Z) (img : image P) mult ch p :
  (forall f q, In q pix -> blur 0%nat f q = f q) -> (forall q, In q pix -> rho q = 0%Z) ->
  (forall q, In q pix -> 0 <= img ch q)%R -> In p pix ->
  defocus P 1 (qmask rho) pix blur nsig img mult 0 ch p = (mult * img ch p)%R.
Proof.
  intros Hb Hr Hpos Hp. apply defocus_keeps_focus; try assumption; try lia.
  - intros q Hq. apply qmask_exactly_one. rewrite (Hr q Hq). simpl. lia.
  - unfold qmask. rewrite (Hr p Hp). reflexivity.
Qed.

(* non-vacuity helpers: 1/2 is a valid depth value *)
Lemma valid_depth_half : valid_depth (1, -1)%Z.
Proof.
  unfold valid_depth. split; [reflexivity|].
  replace (B2R (D2B (1, -1)%Z)) with (/2)%R; [lra|].
  pose proof (binary_normalize_correct prec32 emax32 Hprec32 Hmax32 mode_NE 1 (-1) false) as H. cbv zeta in H.
  assert (E : F2R (Float radix2 1 (-1)) = (/2)%R) by (unfold F2R; simpl; lra).
  rewrite E in H. simpl round_mode in H. change (SpecFloat.fexp prec32 emax32) with fexp32 in H.
  assert (G : generic_format radix2 fexp32 (/2)).
  { rewrite fexp32_FLT. apply generic_format_FLT. exists (Float radix2 1 (-1)); simpl; [unfold F2R; simpl; lra|lia|lia]. }
  rewrite (round_generic radix2 fexp32 ZnearestE (/2) G) in H.
  rewrite Rlt_bool_true in H.
  - destruct H as (A & _). unfold D2B. simpl fst. simpl snd. symmetry. exact A.
  - rewrite Rabs_pos_eq by lra. apply Rlt_le_trans with 1%R; [lra|]. change 1%R with (bpow radix2 0). apply bpow_le. unfold emax32. lia.
Qed.

(* the executable model driven by observed plane numbers *)
Lemma exec_from_quant_correct n qs img :
  (forall k, (k < length qs)%nat -> (0 <= nth k qs 0 < Z.of_nat n)%Z) ->
  (forall chn, In chn img -> length chn = length qs) ->
  let '(mk, _, foc) := exec_from_quant n qs img in
  (forall k, (k < length qs)%nat -> count_true (column mk k) = 1%nat) /\ foc = img.
Proof.
  intros Hq Hc. unfold exec_from_quant.
  assert (P1 : forall k, (k < length qs)%nat -> count_true (column (masks_of n qs) k) = 1%nat)
    by (intros k Hk; apply masks_of_partition; [exact Hk|apply Hq, Hk]).
  split; [exact P1|].
  apply (focus_of_is_image _ img (length qs)); [exact Hc| |exact P1].
  intros row Hrow. apply length_rows_masks_of in Hrow. exact Hrow.
Qed.
