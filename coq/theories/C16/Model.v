(* C16 — depth-plane slicing partitions the image exactly.  Definitions only.

   Modelled code (odak/learn/wave/loss.py, odak/learn/perception/util.py):
     multiplane_loss.set_targets / perceptual_multiplane_loss.set_targets  (identical bodies)
         depth_q   = round_half_even( fl32( depth * (n-1) ) )
         mask_i    = (depth_q == i)                       i = 0 .. n-1, the same mask for every channel
         target_i  = image[ch] * mask_i
         focus[ch] = sum_i target_i[ch]                   (repaired; legacy: every slice added to EVERY channel)
     add_defocus_blur
         total[ch] = sum_i target_i[ch]
         target_i[ch] <- multiplier * sum_j [ sum(target_j[ch]) > 0 ] conv(total[ch], K(i,j)) * |mask_j|
         K(i,i) = K(nsigma = 0) = the one-hot (delta) kernel
     slice_rgbd_targets
         mask_i = (p_i <= depth) and (depth < p_{i+1})      i < N-1
         mask_{N-1} = (p_{N-1} <= depth) and (depth <= p_N)  (last interval closed)

   Layers:  1. abstract planes (any pixel type, any family of masks);
            2. the quantiser over R (Flocq ZnearestE) and over IEEE binary32 (Flocq BinarySingleNaN);
            3. interval slicing over R and over binary32;
            4. executable list versions of 2 and 3, evaluated by vm_compute in the per-run
               correspondence (route B2).                                                        *)
From Coq Require Import ZArith Reals List Bool Lia Lra.
From Flocq Require Import Core IEEE754.BinarySingleNaN.
From OdakV Require Import Base.RealAux.
Import ListNotations.

(* ------------------------------------------------------------------ 1. abstract planes *)
Definition b2R (b : bool) : R := if b then 1%R else 0%R.

Fixpoint sum_upto (n : nat) (f : nat -> R) : R :=
  match n with O => 0%R | S k => (sum_upto k f + f k)%R end.

Definition sum_list (l : list R) : R := fold_right Rplus 0%R l.

Section Planes.
  Variable P : Type.                               (* pixel positions *)
  Variable n : nat.                                (* number of planes *)
  Variable m : nat -> P -> bool.                   (* mask of plane i *)

  (* pixel p belongs to exactly one of the planes 0..n-1 *)
  Definition exactly_one (p : P) : Prop :=
    exists i, (i < n)%nat /\ m i p = true /\ forall j, (j < n)%nat -> m j p = true -> j = i.

  Definition image := nat -> P -> R.               (* channel -> pixel -> value *)

  Definition target (img : image) (i ch : nat) (p : P) : R := (img ch p * b2R (m i p))%R.
  (* repaired all-in-focus target: accumulated channel by channel *)
  Definition focus (img : image) (ch : nat) (p : P) : R := sum_upto n (fun i => target img i ch p).
  (* the code before the repair: `focus_target = focus_target + new_target` broadcasts the [H,W]
     slice of channel c into all C channels *)
  Definition focus_legacy (img : image) (C : nat) (ch : nat) (p : P) : R :=
    sum_upto n (fun i => sum_upto C (fun c => target img i c p)).

  (* add_defocus_blur; conv2d with the normalised Gaussian of integer sigma k is an operator *)
  Variable pix : list P.                            (* all pixel positions of the image *)
  Variable blur : nat -> (P -> R) -> (P -> R).
  Variable nsig : nat -> nat -> nat.                (* int(|i-j| * blur_ratio) *)
  Definition level (i j : nat) : nat := if Nat.eqb i j then O else nsig i j.
  Definition plane_sum (img : image) (j ch : nat) : R := sum_list (map (target img j ch) pix).
  Definition total (img : image) (ch : nat) : P -> R := fun p => sum_upto n (fun i => target img i ch p).
  Definition defocus (img : image) (mult : R) (i ch : nat) (p : P) : R :=
    (mult * sum_upto n (fun j =>
       if Rltb 0 (plane_sum img j ch)
       then blur (level i j) (total img ch) p * Rabs (b2R (m j p)) else 0))%R.
End Planes.

(* masks of a quantiser rho : pixel -> plane number *)
Definition qmask {P : Type} (rho : P -> Z) (i : nat) (p : P) : bool := Z.eqb (rho p) (Z.of_nat i).

(* the code compares the quantised depth, a FLOAT tensor rq, with the plane number: mask_i = (rq == i).
   Whatever expression computes rq (round half even, floor(x + 0.5), ...), only two facts matter:
   rq p is an integer and it lies in 0..n-1. *)
Definition rmask {P : Type} (rq : P -> R) (i : nat) (p : P) : bool := Reqb (rq p) (IZR (Z.of_nat i)).
Definition plane_number_in_range (n : nat) (x : R) : Prop := exists k : Z, x = IZR k /\ (0 <= k < Z.of_nat n)%Z.

(* get_targets: (targets, focus_target, quantised depth / max(1, n-1)) *)
Definition divider (n : nat) : R := if Nat.eqb (n - 1) 0 then 1%R else INR (n - 1).
Definition depth_out (n : nat) (q : R) : R := (q / divider n)%R.

(* ------------------------------------------------------------------ 2. quantisers *)
(* over the reals: round-half-even of depth * (n-1) *)
Definition quantR (n : Z) (d : R) : Z := ZnearestE (d * IZR (n - 1)).

(* round half UP, floor(x + 1/2): what the tracer's `Rround` (Base.RealAux) means; equal to quantR except at
   exact ties.  The partition theorem holds for every quantiser, so the tie may use this one. *)
Definition quantF (n : Z) (d : R) : Z := Int_part (d * IZR (n - 1) + / 2).

(* IEEE binary32, as torch computes it: fl32(depth * fl32(n-1)), then round-half-even to an integer *)
Definition prec32 : Z := 24.
Definition emax32 : Z := 128.
Lemma Hprec32 : Prec_gt_0 prec32. Proof. reflexivity. Qed.
Lemma Hmax32 : Prec_lt_emax prec32 emax32. Proof. reflexivity. Qed.
Definition f32 := binary_float prec32 emax32.

Definition dy := (Z * Z)%type.                      (* the dyadic number m * 2^e *)
(* nearest binary32 (ties to even) of a dyadic: exact for float32 inputs, the scalar cast for doubles *)
Definition D2B (x : dy) : f32 := binary_normalize prec32 emax32 Hprec32 Hmax32 mode_NE (fst x) (snd x) false.
Definition Z2B (k : Z) : f32 := D2B (k, 0%Z).

Definition q32 (n : Z) (d : f32) : f32 :=
  Bnearbyint (prec_lt_emax_ := Hmax32) mode_NE (Bmult (prec_gt_0_ := Hprec32) (prec_lt_emax_ := Hmax32) mode_NE d (Z2B (n - 1))).
Definition q32Z (n : Z) (d : f32) : Z := Btrunc (q32 n d).

(* the binary32 format and rounding operator over R (Flocq), used to state what q32Z computes *)
Definition fexp32 := SpecFloat.fexp prec32 emax32.
Notation rnd32 := (round radix2 fexp32 ZnearestE).
(* a depth value: a finite float32 in [0, 1] *)
Definition valid_depth (x : dy) : Prop := is_finite (D2B x) = true /\ (0 <= B2R (D2B x) <= 1)%R.

(* ------------------------------------------------------------------ 3. interval slicing *)
(* positions p_0 .. p_N (N planes); plane i < N *)
Definition slice_maskR (ps : list R) (i : nat) (d : R) : bool :=
  let N := (length ps - 1)%nat in
  Rleb (nth i ps 0%R) d &&
  (if (S i <? N)%nat then Rltb d (nth (S i) ps 0%R) else Rleb d (nth (S i) ps 0%R)).

Definition sorted_adj (ps : list R) : Prop :=
  forall a, (S a < length ps)%nat -> (nth a ps 0 <= nth (S a) ps 0)%R.

Definition B0 : f32 := B754_zero false.
Definition slice_mask32 (ps : list f32) (i : nat) (d : f32) : bool :=
  let N := (length ps - 1)%nat in
  Bleb (nth i ps B0) d &&
  (if (S i <? N)%nat then Bltb d (nth (S i) ps B0) else Bleb d (nth (S i) ps B0)).

(* ------------------------------------------------------------------ 4. executable list versions (B2) *)
(* pixels are list positions; depth values are dyadics (float32 values are dyadics); image values are
   integers (numerators over a common power of two) so that x*1 = x and x*0 = 0 are exact *)
Definition count_true (l : list bool) : nat := length (filter (fun b => b) l).

Definition exec_quant (n : nat) (depth : list dy) : list Z :=
  map (fun d => q32Z (Z.of_nat n) (D2B d)) depth.

Definition masks_of (n : nat) (qs : list Z) : list (list bool) :=
  map (fun i => map (fun q => Z.eqb q (Z.of_nat i)) qs) (seq 0 n).

Definition exec_masks (n : nat) (depth : list dy) : list (list bool) := masks_of n (exec_quant n depth).

Definition apply_mask (chn : list Z) (mk : list bool) : list Z :=
  map (fun vb : Z * bool => if snd vb then fst vb else 0%Z) (combine chn mk).

(* plane -> channel -> pixel *)
Definition targets_of (masks : list (list bool)) (img : list (list Z)) : list (list (list Z)) :=
  map (fun mk => map (fun chn => apply_mask chn mk) img) masks.

Definition addl (a b : list Z) : list Z := map (fun xy : Z * Z => (fst xy + snd xy)%Z) (combine a b).

(* channel -> pixel: sum over the planes of the channel's slices *)
Definition focus_of (masks : list (list bool)) (img : list (list Z)) : list (list Z) :=
  map (fun chn => fold_left (fun acc mk => addl acc (apply_mask chn mk)) masks (map (fun _ => 0%Z) chn)) img.

Definition exec_set_targets (n : nat) (depth : list dy) (img : list (list Z)) :=
  let mk := exec_masks n depth in
  (exec_quant n depth, mk, targets_of mk img, focus_of mk img).

(* the same from OBSERVED plane numbers (whatever quantiser produced them), and the float32 neighbours of
   fl32(depth * (n-1)): round down, to nearest even, up *)
Definition exec_from_quant (n : nat) (qs : list Z) (img : list (list Z)) :=
  let mk := masks_of n qs in (mk, targets_of mk img, focus_of mk img).
Definition q32Zm (md : mode) (n : Z) (d : f32) : Z :=
  Btrunc (Bnearbyint (prec_lt_emax_ := Hmax32) md (Bmult (prec_gt_0_ := Hprec32) (prec_lt_emax_ := Hmax32) mode_NE d (Z2B (n - 1)))).
Definition exec_quant_bounds (n : nat) (depth : list dy) : list (Z * Z * Z) :=
  map (fun d => (q32Zm mode_DN (Z.of_nat n) (D2B d), q32Zm mode_NE (Z.of_nat n) (D2B d), q32Zm mode_UP (Z.of_nat n) (D2B d))) depth.

Definition exec_slice_masks (ps : list dy) (depth : list dy) : list (list bool) :=
  let fs := map D2B ps in
  map (fun i => map (fun d => slice_mask32 fs i (D2B d)) depth) (seq 0 (length ps - 1)).

Definition exec_slice (ps depth : list dy) (img : list (list Z)) :=
  let mk := exec_slice_masks ps depth in (mk, targets_of mk img).

(* column k of a family of masks: which planes claim pixel k *)
Definition column (masks : list (list bool)) (k : nat) : list bool := map (fun row => nth k row false) masks.

(* ------------------------------------------------------------------ 5. vocabulary of the B1 tie files *)
(* a 2x2 image: pixel p = 2*y + x; channels as separate arguments *)
Definition dep4 (a b c d : R) (p : nat) : R := match p with 0%nat => a | 1%nat => b | 2%nat => c | _ => d end.
Definition img1 (a b c d : R) : image nat := fun ch p => match ch with 0%nat => dep4 a b c d p | _ => 0%R end.
Definition img3 (a0 b0 c0 d0 a1 b1 c1 d1 a2 b2 c2 d2 : R) : image nat :=
  fun ch p => match ch with 0%nat => dep4 a0 b0 c0 d0 p | 1%nat => dep4 a1 b1 c1 d1 p | 2%nat => dep4 a2 b2 c2 d2 p | _ => 0%R end.
(* conv2d on the 2x2 image as an uninterpreted operator: `blur k p a b c d` is pixel p of the image
   [[a, b], [c, d]] convolved with the normalised Gaussian kernel of integer sigma k *)
Definition blurop (blur : nat -> nat -> R -> R -> R -> R -> R) (k : nat) (f : nat -> R) (p : nat) : R :=
  blur k p (f 0%nat) (f 1%nat) (f 2%nat) (f 3%nat).
Definition absdiff (i j : nat) : nat := (Nat.max i j - Nat.min i j)%nat.   (* int(|i-j| * blur_ratio), blur_ratio = 1 *)
Definition pix4 : list nat := [0; 1; 2; 3]%nat.
