(* C16 — property theorems only.  Each is closed by `exact` of a lemma from Lemmas.v.
   Depth-plane slicing partitions the image exactly (multiplane_loss / perceptual_multiplane_loss
   set_targets + add_defocus_blur, slice_rgbd_targets). *)
From Coq Require Import ZArith Reals List Bool.
From Flocq Require Import Core IEEE754.BinarySingleNaN.
From OdakV Require Import Base.RealAux C16.Model C16.Lemmas.
Import ListNotations.

(* ---- masks of ANY quantiser with values in 0..n-1 put every pixel in exactly one plane
        (robust to how depth*(n-1) is rounded) *)
Theorem C16_masks_partition : forall (P : Type) (rho : P -> Z) (n : nat) (p : P),
  (0 <= rho p < Z.of_nat n)%Z -> exactly_one P n (qmask rho) p.
Proof. exact qmask_exactly_one. Qed.

(* the same with the quantised depth as the code holds it: a real (float) value compared with the plane
   number; any expression whose value is an integer in 0..n-1 will do (round, floor(x + 1/2), ...) *)
Theorem C16_masks_partition_real_valued : forall (P : Type) (rq : P -> R) (n : nat) (p : P),
  plane_number_in_range n (rq p) -> exactly_one P n (rmask rq) p.
Proof. exact rmask_exactly_one. Qed.

Theorem C16_integer_part_quantisers_in_range : forall (n : nat) (y : R),
  (0 <= y < INR n)%R -> plane_number_in_range n (IZR (Int_part y)).
Proof. exact Int_part_in_range. Qed.

Theorem C16_set_targets_any_quantiser : forall (P : Type) (rq : P -> R) (n : nat) (img : image P) (ch : nat) (p : P),
  plane_number_in_range n (rq p) ->
  let m := rmask rq in
  exactly_one P n m p /\
  sum_upto n (fun i => b2R (m i p)) = 1%R /\
  sum_upto n (fun i => target P m img i ch p) = img ch p /\
  focus P n m img ch p = img ch p.
Proof. exact set_targets_any_quantiser. Qed.

(* get_targets returns the plane number divided by max(1, n-1): a value in [0, 1] *)
Theorem C16_depth_out_range : forall (n : nat) (x : R),
  plane_number_in_range n x -> (0 <= depth_out n x <= 1)%R.
Proof. exact depth_out_range. Qed.

(* disjointness needs no range condition at all *)
Theorem C16_masks_disjoint : forall (P : Type) (rho : P -> Z) (i j : nat) (p : P),
  qmask rho i p = true -> qmask rho j p = true -> i = j.
Proof. exact qmask_disjoint. Qed.

(* ---- the rounded plane number is in range: over R (round half even) ... *)
Theorem C16_round_range : forall (n : Z) (d : R),
  (1 <= n)%Z -> (0 <= d <= 1)%R -> (0 <= quantR n d < n)%Z.
Proof. exact round_range. Qed.

(* ... and in IEEE binary32 as torch computes it: round_half_even(fl32(depth * fl32(n-1))) *)
Theorem C16_round_range_float32 : forall (n : Z) (d : f32),
  (1 <= n <= 2 ^ 24)%Z -> is_finite d = true -> (0 <= B2R d <= 1)%R -> (0 <= q32Z n d < n)%Z.
Proof. exact q32Z_range. Qed.

Theorem C16_float32_quantiser_spec : forall (n : Z) (d : f32),
  (1 <= n <= 2 ^ 24)%Z -> is_finite d = true -> (0 <= B2R d <= 1)%R ->
  q32Z n d = ZnearestE (rnd32 (B2R d * IZR (n - 1))).
Proof. exact q32Z_spec. Qed.

(* ---- consequences of "exactly one plane per pixel", for any family of masks *)
Theorem C16_masks_sum_one : forall (P : Type) (n : nat) (m : nat -> P -> bool) (p : P),
  exactly_one P n m p -> sum_upto n (fun i => b2R (m i p)) = 1%R.
Proof. exact masks_sum_one. Qed.

Theorem C16_targets_sum : forall (P : Type) (n : nat) (m : nat -> P -> bool) (img : image P) (ch : nat) (p : P),
  exactly_one P n m p -> sum_upto n (fun i => target P m img i ch p) = img ch p.
Proof. exact targets_sum. Qed.

Theorem C16_focus_is_image : forall (P : Type) (n : nat) (m : nat -> P -> bool) (img : image P) (ch : nat) (p : P),
  exactly_one P n m p -> focus P n m img ch p = img ch p.
Proof. exact focus_is_image. Qed.

(* ---- set_targets end to end, float32 and real quantiser *)
Theorem C16_set_targets_float32 : forall (P : Type) (depth : P -> f32) (n : nat) (img : image P) (ch : nat) (p : P),
  (1 <= Z.of_nat n <= 2 ^ 24)%Z -> is_finite (depth p) = true -> (0 <= B2R (depth p) <= 1)%R ->
  let m := qmask (fun q => q32Z (Z.of_nat n) (depth q)) in
  exactly_one P n m p /\
  sum_upto n (fun i => target P m img i ch p) = img ch p /\
  focus P n m img ch p = img ch p.
Proof. exact set_targets_float32. Qed.

Theorem C16_set_targets_real : forall (P : Type) (depth : P -> R) (n : nat) (img : image P) (ch : nat) (p : P),
  (1 <= n)%nat -> (0 <= depth p <= 1)%R ->
  let m := qmask (fun q => quantR (Z.of_nat n) (depth q)) in
  exactly_one P n m p /\
  sum_upto n (fun i => target P m img i ch p) = img ch p /\
  focus P n m img ch p = img ch p.
Proof. exact set_targets_real. Qed.

(* ---- slice_rgbd_targets: half-open intervals, last one closed, over sorted positions *)
Theorem C16_intervals_partition : forall (P : Type) (depth : P -> R) (ps : list R) (p : P),
  let N := (length ps - 1)%nat in
  (1 <= N)%nat -> sorted_adj ps -> (nth 0 ps 0 <= depth p <= nth N ps 0)%R ->
  exactly_one P N (fun i q => slice_maskR ps i (depth q)) p.
Proof. exact intervals_partition. Qed.

Theorem C16_intervals_partition_float32 : forall (P : Type) (depth : P -> f32) (ps : list f32) (p : P),
  let N := (length ps - 1)%nat in
  (1 <= N)%nat -> (forall f, In f ps -> is_finite f = true) -> (forall q, is_finite (depth q) = true) ->
  sorted_adj (map (@B2R prec32 emax32) ps) ->
  (B2R (nth 0 ps B0) <= B2R (depth p) <= B2R (nth N ps B0))%R ->
  exactly_one P N (fun i q => slice_mask32 ps i (depth q)) p.
Proof. exact intervals_partition32. Qed.

Theorem C16_slice_targets_sum : forall (P : Type) (depth : P -> R) (ps : list R) (img : image P) (ch : nat) (p : P),
  let N := (length ps - 1)%nat in
  (1 <= N)%nat -> sorted_adj ps -> (nth 0 ps 0 <= depth p <= nth N ps 0)%R ->
  let m := fun i q => slice_maskR ps i (depth q) in
  sum_upto N (fun i => b2R (m i p)) = 1%R /\ sum_upto N (fun i => target P m img i ch p) = img ch p.
Proof. exact slice_targets_sum. Qed.

(* ---- add_defocus_blur leaves every plane's in-focus pixels unchanged (conv2d with the normalised
        Gaussian of integer sigma k is the operator `blur k`; contract: sigma 0 is the delta kernel;
        images are non-negative, which makes the `sum(plane) > 0` guard harmless) *)
Theorem C16_defocus_keeps_focus : forall (P : Type) (n : nat) (m : nat -> P -> bool) (pix : list P)
    (blur : nat -> (P -> R) -> P -> R) (nsig : nat -> nat -> nat) (img : image P) (mult : R) (i ch : nat) (p : P),
  (forall f q, In q pix -> blur 0%nat f q = f q) ->
  (forall q, In q pix -> exactly_one P n m q) ->
  (forall q, In q pix -> 0 <= img ch q)%R ->
  In p pix -> (i < n)%nat -> m i p = true ->
  defocus P n m pix blur nsig img mult i ch p = (mult * img ch p)%R.
Proof. exact defocus_keeps_focus. Qed.

(* ---- a single plane reproduces the image *)
Theorem C16_single_plane_real : forall (P : Type) (depth : P -> R) (img : image P) (ch : nat) (p : P),
  target P (qmask (fun q => quantR 1 (depth q))) img 0 ch p = img ch p.
Proof. exact single_plane_real. Qed.

Theorem C16_single_plane_float32 : forall (P : Type) (depth : P -> f32) (img : image P) (ch : nat) (p : P),
  is_finite (depth p) = true -> (0 <= B2R (depth p) <= 1)%R ->
  target P (qmask (fun q => q32Z 1 (depth q))) img 0 ch p = img ch p.
Proof. exact single_plane_float32. Qed.

Theorem C16_single_plane_slice : forall (P : Type) (depth : P -> R) (a b : R) (img : image P) (ch : nat) (p : P),
  (a <= depth p <= b)%R -> target P (fun i q => slice_maskR [a; b] i (depth q)) img 0 ch p = img ch p.
Proof. exact single_plane_slice. Qed.

Theorem C16_single_plane_defocus : forall (P : Type) (pix : list P) (blur : nat -> (P -> R) -> P -> R)
    (nsig : nat -> nat -> nat) (rho : P -> Z) (img : image P) (mult : R) (ch : nat) (p : P),
  (forall f q, In q pix -> blur 0%nat f q = f q) -> (forall q, In q pix -> rho q = 0%Z) ->
  (forall q, In q pix -> 0 <= img ch q)%R -> In p pix ->
  defocus P 1 (qmask rho) pix blur nsig img mult 0 ch p = (mult * img ch p)%R.
Proof. exact single_plane_defocus. Qed.

(* ---- the executable model that the per-run correspondence evaluates satisfies the property *)
Theorem C16_exec_masks_partition : forall (n : nat) (depth : list dy) (k : nat),
  (1 <= Z.of_nat n <= 2 ^ 24)%Z -> (forall x, In x depth -> valid_depth x) -> (k < length depth)%nat ->
  count_true (column (exec_masks n depth) k) = 1%nat.
Proof. exact exec_masks_partition. Qed.

Theorem C16_exec_focus_is_image : forall (n : nat) (depth : list dy) (img : list (list Z)),
  (1 <= Z.of_nat n <= 2 ^ 24)%Z -> (forall x, In x depth -> valid_depth x) ->
  (forall chn, In chn img -> length chn = length depth) ->
  let '(_, mk, _, foc) := exec_set_targets n depth img in foc = img.
Proof. exact exec_focus_is_image. Qed.

Theorem C16_exec_from_observed_plane_numbers : forall (n : nat) (qs : list Z) (img : list (list Z)),
  (forall k, (k < length qs)%nat -> (0 <= nth k qs 0 < Z.of_nat n)%Z) ->
  (forall chn, In chn img -> length chn = length qs) ->
  let '(mk, _, foc) := exec_from_quant n qs img in
  (forall k, (k < length qs)%nat -> count_true (column mk k) = 1%nat) /\ foc = img.
Proof. exact exec_from_quant_correct. Qed.

Theorem C16_exec_slice_partition : forall (ps depth : list dy) (k : nat),
  let N := (length ps - 1)%nat in
  (1 <= N)%nat -> (forall x, In x ps -> is_finite (D2B x) = true) ->
  (forall x, In x depth -> is_finite (D2B x) = true) ->
  sorted_adj (map (@B2R prec32 emax32) (map D2B ps)) ->
  (k < length depth)%nat ->
  (B2R (D2B (nth 0 ps (0, 0)%Z)) <= B2R (D2B (nth k depth (0, 0)%Z)) <= B2R (D2B (nth N ps (0, 0)%Z)))%R ->
  count_true (column (exec_slice_masks ps depth) k) = 1%nat.
Proof. exact exec_slice_partition. Qed.

(* ---- the defect repaired in /repo (fix: focus_target accumulated per channel): the legacy code put
        the SUM OVER CHANNELS into every channel of the all-in-focus target *)
Theorem C16_focus_legacy_channel_sum : forall (P : Type) (n : nat) (m : nat -> P -> bool) (img : image P) (C ch : nat) (p : P),
  exactly_one P n m p -> focus_legacy P n m img C ch p = sum_upto C (fun c => img c p).
Proof. exact focus_legacy_channel_sum. Qed.

Theorem C16_focus_legacy_refuted :
  exists (img : image unit), exactly_one unit 1 (qmask (fun _ => 0%Z)) tt /\
    focus_legacy unit 1 (qmask (fun _ => 0%Z)) img 3 0 tt <> img 0%nat tt.
Proof. exact focus_legacy_refuted. Qed.

Theorem C16_focus_legacy_one_channel : forall (P : Type) (n : nat) (m : nat -> P -> bool) (img : image P) (p : P),
  exactly_one P n m p -> focus_legacy P n m img 1 0 p = img 0%nat p.
Proof. exact focus_legacy_one_channel. Qed.

(* ---- why the partition theorem is stated for any quantiser: float32 and real rounding differ *)
Theorem C16_quantisers_differ :
  q32Z 4 (D2B (11184811, -26)%Z) = 0%Z /\ quantR 4 (11184811 / 67108864)%R = 1%Z.
Proof. exact quantisers_differ. Qed.

(* non-vacuity: 1/2 is a valid depth; with 4 planes it is a tie (1.5 -> plane 2) and the executable
   model puts it in exactly one plane *)
Example C16_instance :
  valid_depth (1, -1)%Z /\
  exec_quant 4 [(1, -1)%Z; (0, 0)%Z; (1, 0)%Z] = [2; 0; 3]%Z /\
  count_true (column (exec_masks 4 [(1, -1)%Z; (0, 0)%Z; (1, 0)%Z]) 0) = 1%nat /\
  exec_slice_masks [(0, 0)%Z; (1, -1)%Z; (1, 0)%Z] [(1, -1)%Z; (0, 0)%Z; (1, 0)%Z] = [[false; true; false]; [true; false; true]].
Proof. split; [exact valid_depth_half|]. repeat split; vm_compute; reflexivity. Qed.
