(* C15 — colour-space conversions of odak/learn/perception/color_conversion.py (definitions only).

   Two layers.
   (a) CODE MODEL: one real-valued function per output channel, with the constants the code uses
       (decimal literals exactly as written in the source; constants the source computes at run time
       in binary64 -- 1/2.4, 6/29, 10135552/24577794 ... -- as the shortest decimal that denotes that
       binary64 value, which is also how the tracer reads them).  The definitions traced from /repo
       are proved equal to this layer on every run (coq/tie/C15_Tie*.v).
   (b) PUBLISHED REFERENCES, transcribed from the standards and not from the code: ITU-R BT.601
       (luma weights, Cb/Cr scale factors 1/1.772 and 1/1.402), IEC 61966-2-1 (transfer functions,
       exponent exactly 1/2.4; RGB->XYZ matrix to 4 decimals; primaries and D65 white chromaticities),
       CIE 15 (L*a*b* with the exact constants 6/29, 4/29, D65 white), and Table 1 of Schmidt et al.,
       Optics Express 2014 (opponent channels).
   Lemmas.v proves the property on layer (a) and the agreement of (a) with (b).
   Float rounding is not modelled: values are real numbers. *)
From Coq Require Import Reals Bool ZArith List.
From OdakV Require Import Base.RealAux.
Import ListNotations.
Open Scope R_scope.

(* ================================================================== 3x3 matrices (row major) *)
Definition mrow (a b c x y z : R) : R := a * x + b * y + c * z.

(* ================================================================== YCrCb *)
Definition ycc_y (r g b : R) : R := 0.299 * r + 0.587 * g + 0.114 * b.
Definition ycc_cr (r g b : R) : R := 0.5 + 0.713 * (r - ycc_y r g b).
Definition ycc_cb (r g b : R) : R := 0.5 + 0.564 * (b - ycc_y r g b).
Definition iycc_r (y cr cb : R) : R := y + 1.403 * (cr - 0.5).
Definition iycc_g (y cr cb : R) : R := y - 0.714 * (cr - 0.5) - 0.344 * (cb - 0.5).
Definition iycc_b (y cr cb : R) : R := y + 1.773 * (cb - 0.5).
(* reference: ITU-R BT.601 full-range YCbCr, offsets 1/2 *)
Definition bt601_y (r g b : R) : R := 0.299 * r + 0.587 * g + 0.114 * b.
Definition bt601_cr (r g b : R) : R := 1 / 2 + (r - bt601_y r g b) / 1.402.
Definition bt601_cb (r g b : R) : R := 1 / 2 + (b - bt601_y r g b) / 1.772.

(* ================================================================== sRGB transfer functions *)
Definition to_lin (x : R) : R :=
  if Rltb 0.04045 x then Rpower ((x + 0.055) / 1.055) 2.4 else x / 12.92.
(* python: 1 / 2.4 evaluated in binary64 *)
Definition inv_gamma : R := 0.4166666666666667.
Definition srgb_thr : R := 0.0031308.
Definition to_srgb (y : R) : R :=
  if Rltb srgb_thr y then 1.055 * Rpower (Rmax y srgb_thr) inv_gamma - 0.055 else 12.92 * y.
(* the encoder inlined in lab_to_srgb (no clamp; the same exponent) *)
Definition to_srgb_nc (y : R) : R :=
  if Rltb srgb_thr y then 1.055 * Rpower y inv_gamma - 0.055 else 12.92 * y.
(* reference: IEC 61966-2-1 *)
Definition iec_to_lin (x : R) : R :=
  if Rltb 0.04045 x then Rpower ((x + 0.055) / 1.055) 2.4 else x / 12.92.
Definition iec_to_srgb (y : R) : R :=
  if Rltb 0.0031308 y then 1.055 * Rpower y (1 / 2.4) - 0.055 else 12.92 * y.

(* ================================================================== linear RGB <-> XYZ *)
Definition xyz_x (r g b : R) : R := mrow 0.412453 0.357580 0.180423 r g b.
Definition xyz_y (r g b : R) : R := mrow 0.212671 0.715160 0.072169 r g b.
Definition xyz_z (r g b : R) : R := mrow 0.019334 0.119193 0.950227 r g b.
Definition ixyz_r (x y z : R) : R := mrow 3.240479 (-1.537150) (-0.498535) x y z.
Definition ixyz_g (x y z : R) : R := mrow (-0.969256) 1.875992 0.041556 x y z.
Definition ixyz_b (x y z : R) : R := mrow 0.055648 (-0.204043) 1.057311 x y z.
(* reference: the matrix printed in IEC 61966-2-1 (4 decimals) *)
Definition iec_x (r g b : R) : R := mrow 0.4124 0.3576 0.1805 r g b.
Definition iec_y (r g b : R) : R := mrow 0.2126 0.7152 0.0722 r g b.
Definition iec_z (r g b : R) : R := mrow 0.0193 0.1192 0.9505 r g b.
(* chromaticity coordinates of a tristimulus value *)
Definition chroma_x (X Y Z : R) : R := X / (X + Y + Z).
Definition chroma_y (X Y Z : R) : R := Y / (X + Y + Z).

(* ================================================================== HSV (hue in radians) *)
Definition hsv_eps : R := 1 / 100000000.
Definition max3 (r g b : R) : R := Rmax (Rmax r g) b.
Definition min3 (r g b : R) : R := Rmin (Rmin r g) b.
(* index of the first maximal channel (torch.max tie rule) *)
Definition amax3 (r g b : R) : R := if Rltb (Rmax r g) b then 2 else if Rltb r g then 1 else 0.
Definition hsv_dc (r g b : R) : R :=
  if Reqb (max3 r g b - min3 r g b) 0 then 1 else max3 r g b - min3 r g b.
Definition hsv_hraw (r g b : R) : R :=
  let M := max3 r g b in let dc := hsv_dc r g b in
  if Reqb (amax3 r g b) 0 then ((M - b) - (M - g)) / dc
  else if Reqb (amax3 r g b) 1 then (((M - r) - (M - b)) + 2 * dc) / dc
  else (((M - g) - (M - r)) + 4 * dc) / dc.
Definition hsv_h (r g b : R) : R := (2 * PI) * Rfmod (hsv_hraw r g b / 6) 1.
Definition hsv_s (r g b : R) : R := (max3 r g b - min3 r g b) / (max3 r g b + hsv_eps).
Definition hsv_v (r g b : R) : R := max3 r g b.

Definition sel18 (i e0 e1 e2 e3 e4 e5 e6 e7 e8 e9 e10 e11 e12 e13 e14 e15 e16 e17 : R) : R :=
  if Reqb i 0 then e0 else if Reqb i 1 then e1 else if Reqb i 2 then e2 else if Reqb i 3 then e3
  else if Reqb i 4 then e4 else if Reqb i 5 then e5 else if Reqb i 6 then e6 else if Reqb i 7 then e7
  else if Reqb i 8 then e8 else if Reqb i 9 then e9 else if Reqb i 10 then e10 else if Reqb i 11 then e11
  else if Reqb i 12 then e12 else if Reqb i 13 then e13 else if Reqb i 14 then e14 else if Reqb i 15 then e15
  else if Reqb i 16 then e16 else e17.
Definition ihsv_h6 (h : R) : R := (h / (2 * PI)) * 6.
Definition ihsv_hi (h : R) : R := Rfmod (Rfloor (ihsv_h6 h)) 6.
Definition ihsv_f (h : R) : R := Rfmod (ihsv_h6 h) 6 - ihsv_hi h.
Definition ihsv_p (h s v : R) : R := v * (1 - s).
Definition ihsv_q (h s v : R) : R := v * (1 - ihsv_f h * s).
Definition ihsv_t (h s v : R) : R := v * (1 - (1 - ihsv_f h) * s).
(* channel k of the gathered table (v,q,p,p,t,v, t,v,v,q,p,p, p,p,t,v,v,q) at index hi + 6k *)
Definition ihsv_chan (off h s v : R) : R :=
  let p := ihsv_p h s v in let q := ihsv_q h s v in let t := ihsv_t h s v in
  sel18 (ihsv_hi h + off) v q p p t v t v v q p p p p t v v q.
Definition ihsv_r (h s v : R) : R := ihsv_chan 0 h s v.
Definition ihsv_g (h s v : R) : R := ihsv_chan 6 h s v.
Definition ihsv_b (h s v : R) : R := ihsv_chan 12 h s v.

(* ================================================================== sRGB <-> CIE L*a*b* *)
(* python: 10135552 / 24577794 ... evaluated in binary64 *)
Definition lab_X (r g b : R) : R := mrow 0.4123865632529917 0.35759149092062537 0.18045049120356368 r g b.
Definition lab_Y (r g b : R) : R := mrow 0.21263682167732384 0.7151829818412507 0.07218019648142547 r g b.
Definition lab_Z (r g b : R) : R := mrow 0.019330620152483987 0.11919716364020845 0.9503725870054354 r g b.
Definition lab_wx : R := 1.052156925.      (* 1 / Xn *)
Definition lab_wz : R := 0.918357670.      (* 1 / Zn *)
Definition lab_delta : R := 0.20689655172413793.          (* 6 / 29 *)
Definition lab_delta_cube : R := 0.008856451679035631.    (* delta * delta * delta *)
Definition lab_factor : R := 7.787037037037036.           (* 1 / (3 * delta * delta) *)
Definition lab_c429 : R := 0.13793103448275862.           (* 4 / 29 *)
Definition lab_third : R := 0.3333333333333333.           (* 1 / 3 *)
Definition lab_f (t : R) : R :=
  if Rltb lab_delta_cube t then Rpower t lab_third else lab_factor * t + lab_c429.
Definition lab_fx (r g b : R) : R := lab_f (lab_X (to_lin r) (to_lin g) (to_lin b) * lab_wx).
Definition lab_fy (r g b : R) : R := lab_f (lab_Y (to_lin r) (to_lin g) (to_lin b)).
Definition lab_fz (r g b : R) : R := lab_f (lab_Z (to_lin r) (to_lin g) (to_lin b) * lab_wz).
Definition lab_L (r g b : R) : R := 116 * lab_fy r g b - 16.
Definition lab_a (r g b : R) : R := 500 * (lab_fx r g b - lab_fy r g b).
Definition lab_b (r g b : R) : R := 200 * (lab_fy r g b - lab_fz r g b).

Definition lab_factor2 : R := 0.12841854934601665.        (* 3 * delta * delta *)
Definition lab_xn : R := 0.950428545.
Definition lab_zn : R := 1.088900371.
Definition lab_finv (u : R) : R := if Rltb lab_delta u then u ^ 3 else lab_factor2 * (u - lab_c429).
Definition ilab_fy (L a b : R) : R := (L + 16) / 116.
Definition ilab_fx (L a b : R) : R := (L + 16) / 116 + a / 500.
Definition ilab_fz (L a b : R) : R := (L + 16) / 116 - b / 200.
Definition ilab_X (L a b : R) : R := lab_finv (ilab_fx L a b) * lab_xn.
Definition ilab_Y (L a b : R) : R := lab_finv (ilab_fy L a b).
Definition ilab_Z (L a b : R) : R := lab_finv (ilab_fz L a b) * lab_zn.
Definition ilab_lr (x y z : R) : R := mrow 3.241003275 (-1.537398934) (-0.498615861) x y z.
Definition ilab_lg (x y z : R) : R := mrow (-0.969224334) 1.875930071 0.041554224 x y z.
Definition ilab_lb (x y z : R) : R := mrow 0.055639423 (-0.204011202) 1.057148933 x y z.
Definition ilab_r (L a b : R) : R := to_srgb_nc (ilab_lr (ilab_X L a b) (ilab_Y L a b) (ilab_Z L a b)).
Definition ilab_g (L a b : R) : R := to_srgb_nc (ilab_lg (ilab_X L a b) (ilab_Y L a b) (ilab_Z L a b)).
Definition ilab_b (L a b : R) : R := to_srgb_nc (ilab_lb (ilab_X L a b) (ilab_Y L a b) (ilab_Z L a b)).
(* reference: CIE 15 / ISO 11664-4 with exact constants *)
Definition cie_f (t : R) : R :=
  if Rltb ((6 / 29) ^ 3) t then Rpower t (1 / 3) else t / (3 * (6 / 29) ^ 2) + 4 / 29.

(* CIE 1976 L*a*b* of a tristimulus value (X, Y, Z) relative to the white (Xn, Yn, Zn), written from the standard *)
Definition cie_L (X Y Z Xn Yn Zn : R) : R := 116 * cie_f (Y / Yn) - 16.
Definition cie_a (X Y Z Xn Yn Zn : R) : R := 500 * (cie_f (X / Xn) - cie_f (Y / Yn)).
Definition cie_b (X Y Z Xn Yn Zn : R) : R := 200 * (cie_f (Y / Yn) - cie_f (Z / Zn)).

(* layout decision of srgb_to_lab / lab_to_srgb on the shape of their argument (repaired code):
   a 4-D argument is a batch of images; a 3-D argument is channel-last only when its last extent is 3
   and its first is not *)
Inductive lab_layout := ChannelFirst | ChannelLast | Batch | Rejected.
Definition lab_dispatch (shape : list Z) : lab_layout :=
  match shape with
  | [_; _; _; _] => Batch
  | [c; _; w] => if (w =? 3)%Z && negb (c =? 3)%Z then ChannelLast else ChannelFirst
  | _ => Rejected
  end.
(* the decision the code made before the repair (kept for the record; see Lemmas.lab_dispatch_old_refuted) *)
Definition lab_dispatch_old (shape : list Z) : lab_layout :=
  match shape with
  | [_; _; w] => if (w =? 3)%Z then ChannelLast else ChannelFirst
  | _ => Rejected
  end.

(* ================================================================== display_color_hvs *)
(* rows of lms_tensor: one per primary; columns L M S.  primaries_to_lms: row vector times matrix *)
Definition p2l (t0c t1c t2c p0 p1 p2 : R) : R := p0 * t0c + p1 * t1c + p2 * t2c.
(* lms_to_primaries: row vector (l m s) times the pseudo-inverse (rows indexed by L M S) *)
Definition l2p (q0 q1 q2 l m s : R) : R := l * q0 + m * q1 + s * q2.
(* third (opponent) stage, Table 1 of Schmidt et al. 2014: (M+S)-L, (L+S)-M, L+M+S *)
Definition third_0 (l m s : R) : R := (m + s) - l.
Definition third_1 (l m s : R) : R := (l + s) - m.
Definition third_2 (l m s : R) : R := l + m + s.
(* what the unrepaired code computed in channel 0 *)
Definition third_0_old (l m s : R) : R := (m + s) - m.
