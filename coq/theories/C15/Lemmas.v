(* C15 — proofs about the colour-conversion model (Model.v). *)
From Coq Require Import Reals Lra Bool ZArith List Lia.
From Interval Require Import Tactic.
From OdakV Require Import Base.RealAux C15.Model.
Import ListNotations.
Open Scope R_scope.

(* ================================================================== helpers *)
Ltac case_ltb a b :=
  let E := fresh "E" in destruct (Rltb a b) eqn:E; [apply Rltb_true in E | apply Rltb_false in E].

Lemma Rabs_le_inv' a b : Rabs a <= b -> - b <= a <= b.
Proof. unfold Rabs. destruct (Rcase_abs a); lra. Qed.
Lemma Rmax_l a b : b <= a -> Rmax a b = a.
Proof. intros H. unfold Rmax. destruct (Rle_dec a b); lra. Qed.
Lemma Rltb_is_true a b : a < b -> Rltb a b = true.
Proof. intros H. apply Rltb_true. exact H. Qed.
Lemma Rltb_is_false a b : b <= a -> Rltb a b = false.
Proof. intros H. apply Rltb_false. exact H. Qed.
Lemma Reqb_is_true a b : a = b -> Reqb a b = true.
Proof. intros H. apply Reqb_true. exact H. Qed.
Lemma Reqb_is_false a b : a <> b -> Reqb a b = false.
Proof. intros H. unfold Reqb. destruct (Req_EM_T a b); [contradiction | reflexivity]. Qed.
(* u^(1+c) = u * u^c *)
Lemma Rpower_succ u c : 0 < u -> Rpower u (1 + c) = u * Rpower u c.
Proof. intros Hu. rewrite Rpower_plus, Rpower_1; auto. Qed.

(* a 3x3 error matrix whose absolute row sum is at most eps moves a vector of the unit cube by at most eps *)
Lemma mat3_err e0 e1 e2 eps x y z :
  Rabs e0 + Rabs e1 + Rabs e2 <= eps -> Rabs x <= 1 -> Rabs y <= 1 -> Rabs z <= 1 ->
  Rabs (mrow e0 e1 e2 x y z) <= eps.
Proof.
  intros He Hx Hy Hz. unfold mrow.
  assert (A : forall a b, Rabs b <= 1 -> Rabs (a * b) <= Rabs a).
  { intros a b Hb. rewrite Rabs_mult. rewrite <- (Rmult_1_r (Rabs a)) at 2.
    apply Rmult_le_compat_l; [apply Rabs_pos | exact Hb]. }
  pose proof (A e0 x Hx). pose proof (A e1 y Hy). pose proof (A e2 z Hz).
  pose proof (Rabs_triang (e0 * x + e1 * y) (e2 * z)). pose proof (Rabs_triang (e0 * x) (e1 * y)). lra.
Qed.
Lemma mrow_sub a b c a' b' c' x y z :
  mrow a b c x y z - mrow a' b' c' x y z = mrow (a - a') (b - b') (c - c') x y z.
Proof. unfold mrow. ring. Qed.
Lemma Rabs_unit x : 0 <= x <= 1 -> Rabs x <= 1.
Proof. intros H. apply Rabs_le. lra. Qed.

(* ================================================================== YCrCb *)
Lemma ycrcb_rt r g b : 0 <= r <= 1 -> 0 <= g <= 1 -> 0 <= b <= 1 ->
  Rabs (iycc_r (ycc_y r g b) (ycc_cr r g b) (ycc_cb r g b) - r) <= 1 / 1000 /\
  Rabs (iycc_g (ycc_y r g b) (ycc_cr r g b) (ycc_cb r g b) - g) <= 1 / 1000 /\
  Rabs (iycc_b (ycc_y r g b) (ycc_cr r g b) (ycc_cb r g b) - b) <= 1 / 1000.
Proof.
  intros Hr Hg Hb. unfold iycc_r, iycc_g, iycc_b, ycc_cr, ycc_cb, ycc_y.
  repeat split; apply Rabs_le; lra.
Qed.
Lemma ycrcb_bt601 r g b : 0 <= r <= 1 -> 0 <= g <= 1 -> 0 <= b <= 1 ->
  ycc_y r g b = bt601_y r g b /\
  Rabs (ycc_cr r g b - bt601_cr r g b) <= 2 / 10000 /\
  Rabs (ycc_cb r g b - bt601_cb r g b) <= 3 / 10000.
Proof.
  intros Hr Hg Hb. unfold ycc_cr, ycc_cb, ycc_y, bt601_cr, bt601_cb, bt601_y.
  split; [reflexivity|]. split; apply Rabs_le; lra.
Qed.
Lemma ycrcb_range r g b : 0 <= r <= 1 -> 0 <= g <= 1 -> 0 <= b <= 1 ->
  0 <= ycc_y r g b <= 1 /\ 0 <= ycc_cr r g b <= 1 /\ 0 <= ycc_cb r g b <= 1.
Proof. intros Hr Hg Hb. unfold ycc_cr, ycc_cb, ycc_y. lra. Qed.
Lemma ycrcb_grey c : ycc_y c c c = c /\ ycc_cr c c c = 1 / 2 /\ ycc_cb c c c = 1 / 2.
Proof. unfold ycc_cr, ycc_cb, ycc_y. lra. Qed.

(* ================================================================== linear RGB <-> XYZ *)
Lemma xyz_rt r g b : 0 <= r <= 1 -> 0 <= g <= 1 -> 0 <= b <= 1 ->
  Rabs (ixyz_r (xyz_x r g b) (xyz_y r g b) (xyz_z r g b) - r) <= 1 / 100000 /\
  Rabs (ixyz_g (xyz_x r g b) (xyz_y r g b) (xyz_z r g b) - g) <= 1 / 100000 /\
  Rabs (ixyz_b (xyz_x r g b) (xyz_y r g b) (xyz_z r g b) - b) <= 1 / 100000.
Proof.
  intros Hr Hg Hb. unfold ixyz_r, ixyz_g, ixyz_b, xyz_x, xyz_y, xyz_z, mrow.
  repeat split; apply Rabs_le; lra.
Qed.
Lemma white_Y : xyz_y 1 1 1 = 1 /\ Rabs (lab_Y 1 1 1 - 1) <= 1 / 10 ^ 15.
Proof. unfold xyz_y, lab_Y, mrow. split; [lra | apply Rabs_le; lra]. Qed.
Lemma xyz_black : xyz_x 0 0 0 = 0 /\ xyz_y 0 0 0 = 0 /\ xyz_z 0 0 0 = 0.
Proof. unfold xyz_x, xyz_y, xyz_z, mrow. lra. Qed.
(* agreement with the matrix printed in IEC 61966-2-1, via the row-sum lemma *)
Lemma xyz_iec r g b : 0 <= r <= 1 -> 0 <= g <= 1 -> 0 <= b <= 1 ->
  Rabs (xyz_x r g b - iec_x r g b) <= 2 / 10000 /\
  Rabs (xyz_y r g b - iec_y r g b) <= 2 / 10000 /\
  Rabs (xyz_z r g b - iec_z r g b) <= 4 / 10000.
Proof.
  intros Hr Hg Hb. unfold xyz_x, xyz_y, xyz_z, iec_x, iec_y, iec_z. rewrite !mrow_sub.
  repeat split; apply mat3_err; try (apply Rabs_unit; assumption);
    repeat first [rewrite Rabs_pos_eq by lra | rewrite Rabs_left by lra]; lra.
Qed.
(* the matrix sends the three primaries and white to the chromaticities of ITU-R BT.709 / sRGB and D65 *)
Lemma xyz_chromaticities :
  Rabs (chroma_x (xyz_x 1 0 0) (xyz_y 1 0 0) (xyz_z 1 0 0) - 0.64) <= 1 / 10000 /\
  Rabs (chroma_y (xyz_x 1 0 0) (xyz_y 1 0 0) (xyz_z 1 0 0) - 0.33) <= 1 / 10000 /\
  Rabs (chroma_x (xyz_x 0 1 0) (xyz_y 0 1 0) (xyz_z 0 1 0) - 0.30) <= 1 / 10000 /\
  Rabs (chroma_y (xyz_x 0 1 0) (xyz_y 0 1 0) (xyz_z 0 1 0) - 0.60) <= 1 / 10000 /\
  Rabs (chroma_x (xyz_x 0 0 1) (xyz_y 0 0 1) (xyz_z 0 0 1) - 0.15) <= 1 / 10000 /\
  Rabs (chroma_y (xyz_x 0 0 1) (xyz_y 0 0 1) (xyz_z 0 0 1) - 0.06) <= 1 / 10000 /\
  Rabs (chroma_x (xyz_x 1 1 1) (xyz_y 1 1 1) (xyz_z 1 1 1) - 0.3127) <= 1 / 10000 /\
  Rabs (chroma_y (xyz_x 1 1 1) (xyz_y 1 1 1) (xyz_z 1 1 1) - 0.3290) <= 1 / 10000.
Proof. unfold chroma_x, chroma_y, xyz_x, xyz_y, xyz_z, mrow. repeat split; interval. Qed.
Lemma lab_chromaticities :
  Rabs (chroma_x (lab_X 1 0 0) (lab_Y 1 0 0) (lab_Z 1 0 0) - 0.64) <= 1 / 10000 /\
  Rabs (chroma_y (lab_X 1 0 0) (lab_Y 1 0 0) (lab_Z 1 0 0) - 0.33) <= 1 / 10000 /\
  Rabs (chroma_x (lab_X 0 1 0) (lab_Y 0 1 0) (lab_Z 0 1 0) - 0.30) <= 1 / 10000 /\
  Rabs (chroma_y (lab_X 0 1 0) (lab_Y 0 1 0) (lab_Z 0 1 0) - 0.60) <= 1 / 10000 /\
  Rabs (chroma_x (lab_X 0 0 1) (lab_Y 0 0 1) (lab_Z 0 0 1) - 0.15) <= 1 / 10000 /\
  Rabs (chroma_y (lab_X 0 0 1) (lab_Y 0 0 1) (lab_Z 0 0 1) - 0.06) <= 1 / 10000 /\
  Rabs (chroma_x (lab_X 1 1 1) (lab_Y 1 1 1) (lab_Z 1 1 1) - 0.3127) <= 1 / 10000 /\
  Rabs (chroma_y (lab_X 1 1 1) (lab_Y 1 1 1) (lab_Z 1 1 1) - 0.3290) <= 1 / 10000.
Proof. unfold chroma_x, chroma_y, lab_X, lab_Y, lab_Z, mrow. repeat split; interval. Qed.

(* ================================================================== sRGB transfer functions *)
Lemma lin_knee_val : 0.04045 / 12.92 < Rpower ((0.04045 + 0.055) / 1.055) 2.4.
Proof. interval with (i_prec 80). Qed.
Lemma lin_pow_mono x y : 0.04045 <= x -> x < y ->
  Rpower ((x + 0.055) / 1.055) 2.4 < Rpower ((y + 0.055) / 1.055) 2.4.
Proof.
  intros Hx Hy. apply Rlt_Rpower_l; [lra|]. split; [apply Rdiv_lt_0_compat; lra|].
  apply Rmult_lt_compat_r; lra.
Qed.
Lemma lin_pow_above x : 0.04045 < x -> srgb_thr < Rpower ((x + 0.055) / 1.055) 2.4.
Proof.
  intros Hx. pose proof (lin_pow_mono 0.04045 x ltac:(lra) Hx). pose proof lin_knee_val.
  unfold srgb_thr. lra.
Qed.
(* decoding (sRGB -> linear) is strictly increasing on the whole line, across the knee included *)
Lemma to_lin_mono x y : x < y -> to_lin x < to_lin y.
Proof.
  intros H. unfold to_lin. case_ltb 0.04045 x; case_ltb 0.04045 y; try lra.
  - apply lin_pow_mono; lra.
  - pose proof lin_knee_val.
    assert (Rpower ((0.04045 + 0.055) / 1.055) 2.4 < Rpower ((y + 0.055) / 1.055) 2.4) by (apply lin_pow_mono; lra).
    lra.
Qed.
Lemma to_lin_0 : to_lin 0 = 0.
Proof. unfold to_lin. rewrite Rltb_is_false by lra. lra. Qed.
Lemma to_lin_1 : to_lin 1 = 1.
Proof.
  unfold to_lin. rewrite Rltb_is_true by lra.
  replace ((1 + 0.055) / 1.055) with 1 by lra. unfold Rpower. rewrite ln_1, Rmult_0_r. apply exp_0.
Qed.
Lemma to_lin_range x : 0 <= x <= 1 -> 0 <= to_lin x <= 1.
Proof.
  intros [H0 H1]. split.
  - destruct (Req_dec x 0) as [->|N]; [rewrite to_lin_0; lra|].
    left. rewrite <- to_lin_0. apply to_lin_mono. lra.
  - destruct (Req_dec x 1) as [->|N]; [rewrite to_lin_1; lra|].
    left. rewrite <- to_lin_1. apply to_lin_mono. lra.
Qed.

Lemma pow_rt_err u : 0.09 <= u <= 1 -> Rabs (Rpower (Rpower u 2.4) inv_gamma - u) <= 1 / 10 ^ 15.
Proof.
  intros Hu. rewrite Rpower_mult. unfold inv_gamma.
  replace (2.4 * 0.4166666666666667) with (1 + (2.4 * 0.4166666666666667 - 1)) by ring.
  rewrite Rpower_succ by lra.
  replace (u * Rpower u (2.4 * 0.4166666666666667 - 1) - u)
    with (u * (Rpower u (2.4 * 0.4166666666666667 - 1) - 1)) by ring.
  interval with (i_prec 120).
Qed.
Lemma lin_arg_range x : 0.04045 <= x <= 1 -> 0.09 <= (x + 0.055) / 1.055 <= 1.
Proof.
  intros H. split.
  - apply Rmult_le_reg_r with 1.055; [lra|]. unfold Rdiv. rewrite Rmult_assoc, Rinv_l by lra. lra.
  - apply Rmult_le_reg_r with 1.055; [lra|]. unfold Rdiv. rewrite Rmult_assoc, Rinv_l by lra. lra.
Qed.

(* sRGB -> linear -> sRGB returns the starting value (the 6.4e-8 wide sliver below the knee where the
   two functions disagree about the branch is bounded by interval bisection) *)
Lemma gamma_rt x : 0 <= x <= 1 -> Rabs (to_srgb (to_lin x) - x) <= 1 / 10 ^ 7.
Proof.
  intros Hx. unfold to_lin. case_ltb 0.04045 x.
  - pose proof (lin_pow_above x E) as K. unfold to_srgb.
    case_ltb srgb_thr (Rpower ((x + 0.055) / 1.055) 2.4); [|lra].
    rewrite Rmax_l by lra.
    pose proof (pow_rt_err _ (lin_arg_range x ltac:(lra))) as P. set (u := (x + 0.055) / 1.055) in *.
    assert (Hx' : x = 1.055 * u - 0.055) by (unfold u; field; lra).
    apply Rabs_le_inv' in P. apply Rabs_le. lra.
  - unfold to_srgb. case_ltb srgb_thr (x / 12.92).
    + unfold srgb_thr in *. assert (0.040449936 < x <= 0.04045) by lra.
      rewrite Rmax_l by lra. unfold inv_gamma. interval with (i_bisect x, i_prec 80).
    + replace (12.92 * (x / 12.92) - x) with 0 by (field; lra). rewrite Rabs_R0. lra.
Qed.
(* the un-clamped encoder of lab_to_srgb is the same function *)
Lemma to_srgb_nc_eq y : to_srgb_nc y = to_srgb y.
Proof. unfold to_srgb_nc, to_srgb. case_ltb srgb_thr y; [rewrite Rmax_l by lra|]; reflexivity. Qed.

(* encoding (linear -> sRGB): strictly increasing on each branch ... *)
Lemma enc_pow_mono x y : srgb_thr <= x -> x < y -> Rpower x inv_gamma < Rpower y inv_gamma.
Proof. intros Hx Hy. unfold srgb_thr, inv_gamma in *. apply Rlt_Rpower_l; lra. Qed.
Lemma to_srgb_mono_low x y : x < y -> y <= srgb_thr -> to_srgb x < to_srgb y.
Proof. intros H K. unfold to_srgb. rewrite !Rltb_is_false by lra. lra. Qed.
Lemma to_srgb_mono_high x y : srgb_thr < x -> x < y -> to_srgb x < to_srgb y.
Proof.
  intros K H. unfold to_srgb. rewrite !Rltb_is_true by lra. rewrite !Rmax_l by lra.
  pose proof (enc_pow_mono x y ltac:(lra) H). lra.
Qed.
(* ... the value just above the knee is BELOW the value at the knee: the constants of IEC 61966-2-1
   (0.0031308, 12.92, 1.055, 2.4) leave a downward step of 2.85e-8 *)
Lemma enc_knee_step :
  2 / 10 ^ 8 <= 12.92 * srgb_thr - (1.055 * Rpower srgb_thr inv_gamma - 0.055) <= 3 / 10 ^ 8.
Proof. unfold srgb_thr, inv_gamma. split; interval with (i_prec 80). Qed.
Lemma to_srgb_mono_refuted : exists x y, 0 <= x /\ x < y /\ y <= 1 /\ to_srgb y < to_srgb x.
Proof.
  exists srgb_thr, 0.003130801. unfold to_srgb, srgb_thr. split; [lra|]. split; [lra|]. split; [lra|].
  rewrite Rltb_is_true by lra. rewrite Rltb_is_false by lra. rewrite Rmax_l by lra.
  unfold inv_gamma. interval with (i_prec 80).
Qed.
(* the strongest true statement: increasing up to that step *)
Lemma to_srgb_mono_eps x y : x <= y -> to_srgb x <= to_srgb y + 3 / 10 ^ 8.
Proof.
  intros H. destruct (Req_dec x y) as [->|N]; [lra|]. assert (L : x < y) by lra.
  destruct (Rle_dec y srgb_thr) as [A|A].
  - pose proof (to_srgb_mono_low x y L A). lra.
  - destruct (Rlt_dec srgb_thr x) as [B|B].
    + pose proof (to_srgb_mono_high x y B L). lra.
    + unfold to_srgb. rewrite (Rltb_is_false srgb_thr x) by lra. rewrite (Rltb_is_true srgb_thr y) by lra.
      rewrite Rmax_l by lra. pose proof enc_knee_step as S.
      assert (Rpower srgb_thr inv_gamma < Rpower y inv_gamma) by (apply enc_pow_mono; lra).
      unfold srgb_thr in *. lra.
Qed.
(* continuity at the knees, within the rounding of the standard's constants *)
Lemma gamma_knee :
  (forall h, 0 < h <= 1 / 10 ^ 9 -> Rabs (to_lin (0.04045 + h) - to_lin 0.04045) <= 1 / 10 ^ 8) /\
  (forall h, 0 < h <= 1 / 10 ^ 9 -> Rabs (to_srgb (srgb_thr + h) - to_srgb srgb_thr) <= 1 / 10 ^ 7).
Proof.
  split; intros h Hh.
  - unfold to_lin. rewrite Rltb_is_true by lra. rewrite Rltb_is_false by lra. interval with (i_prec 80).
  - unfold to_srgb. rewrite Rltb_is_true by lra. rewrite Rltb_is_false by lra. rewrite Rmax_l by lra.
    unfold srgb_thr, inv_gamma. interval with (i_prec 80).
Qed.
Lemma to_srgb_0 : to_srgb 0 = 0.
Proof. unfold to_srgb, srgb_thr. rewrite Rltb_is_false by lra. lra. Qed.
Lemma to_srgb_1 : to_srgb 1 = 1.
Proof.
  unfold to_srgb, srgb_thr. rewrite Rltb_is_true by lra. rewrite Rmax_l by lra.
  unfold Rpower. rewrite ln_1, Rmult_0_r, exp_0. lra.
Qed.
(* agreement with IEC 61966-2-1: decoding is the same term; encoding differs only by the binary64
   rounding of the exponent 1/2.4 *)
Lemma gamma_iec_decode x : to_lin x = iec_to_lin x.
Proof. reflexivity. Qed.
Lemma gamma_iec_encode y : 0 <= y <= 1 -> Rabs (to_srgb y - iec_to_srgb y) <= 1 / 10 ^ 12.
Proof.
  intros Hy. unfold to_srgb, iec_to_srgb, srgb_thr. case_ltb 0.0031308 y.
  - rewrite Rmax_l by lra. unfold inv_gamma.
    replace 0.4166666666666667 with (1 / 2.4 + (0.4166666666666667 - 1 / 2.4)) by ring.
    rewrite Rpower_plus.
    replace (1.055 * (Rpower y (1 / 2.4) * Rpower y (0.4166666666666667 - 1 / 2.4)) - 0.055 - (1.055 * Rpower y (1 / 2.4) - 0.055))
      with (1.055 * Rpower y (1 / 2.4) * (Rpower y (0.4166666666666667 - 1 / 2.4) - 1)) by ring.
    interval with (i_prec 120).
  - replace (12.92 * y - 12.92 * y) with 0 by ring. rewrite Rabs_R0. lra.
Qed.

(* ================================================================== third stage and LMS *)
Lemma third_stage_table l m s :
  third_0 l m s = (m + s) - l /\ third_1 l m s = (l + s) - m /\ third_2 l m s = l + m + s.
Proof. repeat split. Qed.
(* the formula the code used before the repair is not the table's: it returns S *)
Lemma third_0_old_refuted : exists l m s, third_0_old l m s <> (m + s) - l.
Proof. exists 1, 0, 0. unfold third_0_old. lra. Qed.
Lemma third_0_old_is_s l m s : third_0_old l m s = s.
Proof. unfold third_0_old. ring. Qed.

Section LMS.
  (* lms_tensor T (row p = primary p, column c = cone c) and the matrix Q returned by torch.pinverse.
     Contract of the pseudo-inverse for linearly independent rows: T Q = I. *)
  Variables t00 t01 t02 t10 t11 t12 t20 t21 t22 : R.
  Variables q00 q01 q02 q10 q11 q12 q20 q21 q22 : R.
  Hypothesis TQ00 : t00 * q00 + t01 * q10 + t02 * q20 = 1.
  Hypothesis TQ01 : t00 * q01 + t01 * q11 + t02 * q21 = 0.
  Hypothesis TQ02 : t00 * q02 + t01 * q12 + t02 * q22 = 0.
  Hypothesis TQ10 : t10 * q00 + t11 * q10 + t12 * q20 = 0.
  Hypothesis TQ11 : t10 * q01 + t11 * q11 + t12 * q21 = 1.
  Hypothesis TQ12 : t10 * q02 + t11 * q12 + t12 * q22 = 0.
  Hypothesis TQ20 : t20 * q00 + t21 * q10 + t22 * q20 = 0.
  Hypothesis TQ21 : t20 * q01 + t21 * q11 + t22 * q21 = 0.
  Hypothesis TQ22 : t20 * q02 + t21 * q12 + t22 * q22 = 1.
  Definition lms_l (p0 p1 p2 : R) : R := p2l t00 t10 t20 p0 p1 p2.
  Definition lms_m (p0 p1 p2 : R) : R := p2l t01 t11 t21 p0 p1 p2.
  Definition lms_s (p0 p1 p2 : R) : R := p2l t02 t12 t22 p0 p1 p2.
  Lemma lms_rt p0 p1 p2 :
    l2p q00 q10 q20 (lms_l p0 p1 p2) (lms_m p0 p1 p2) (lms_s p0 p1 p2) = p0 /\
    l2p q01 q11 q21 (lms_l p0 p1 p2) (lms_m p0 p1 p2) (lms_s p0 p1 p2) = p1 /\
    l2p q02 q12 q22 (lms_l p0 p1 p2) (lms_m p0 p1 p2) (lms_s p0 p1 p2) = p2.
  Proof.
    unfold l2p, lms_l, lms_m, lms_s, p2l. repeat split.
    - replace (_ + _ + _) with (p0 * (t00 * q00 + t01 * q10 + t02 * q20) + p1 * (t10 * q00 + t11 * q10 + t12 * q20)
        + p2 * (t20 * q00 + t21 * q10 + t22 * q20)) by ring. rewrite TQ00, TQ10, TQ20. ring.
    - replace (_ + _ + _) with (p0 * (t00 * q01 + t01 * q11 + t02 * q21) + p1 * (t10 * q01 + t11 * q11 + t12 * q21)
        + p2 * (t20 * q01 + t21 * q11 + t22 * q21)) by ring. rewrite TQ01, TQ11, TQ21. ring.
    - replace (_ + _ + _) with (p0 * (t00 * q02 + t01 * q12 + t02 * q22) + p1 * (t10 * q02 + t11 * q12 + t12 * q22)
        + p2 * (t20 * q02 + t21 * q12 + t22 * q22)) by ring. rewrite TQ02, TQ12, TQ22. ring.
  Qed.
End LMS.
(* the contract is satisfiable: T = [[2,1,0],[0,1,0],[0,0,1]] and its inverse *)
Lemma lms_rt_instance p0 p1 p2 :
  l2p (1 / 2) 0 0 (lms_l 2 0 0 p0 p1 p2) (lms_m 1 1 0 p0 p1 p2) (lms_s 0 0 1 p0 p1 p2) = p0.
Proof.
  refine (proj1 (lms_rt 2 1 0 0 1 0 0 0 1 (1 / 2) (- 1 / 2) 0 0 1 0 0 0 1 _ _ _ _ _ _ _ _ _ p0 p1 p2)); lra.
Qed.

(* ================================================================== layout dispatch of the Lab functions *)
Lemma lab_dispatch_documented m n : lab_dispatch [3%Z; m; n] = ChannelFirst.
Proof. unfold lab_dispatch. rewrite Z.eqb_refl. rewrite andb_false_r. reflexivity. Qed.
Lemma lab_dispatch_batch k c m n : lab_dispatch [k; c; m; n] = Batch.
Proof. reflexivity. Qed.
Lemma lab_dispatch_channel_last m n : m <> 3%Z -> lab_dispatch [m; n; 3%Z] = ChannelLast.
Proof. intros H. unfold lab_dispatch. apply Z.eqb_neq in H. rewrite H. reflexivity. Qed.
(* before the repair: a documented [3 x m x 3] image was read as channel-last, and batches were rejected *)
Lemma lab_dispatch_old_refuted :
  (exists m, lab_dispatch_old [3%Z; m; 3%Z] <> ChannelFirst) /\ (exists k m n, lab_dispatch_old [k; 3%Z; m; n] = Rejected).
Proof. split; [exists 4%Z | exists 2%Z, 4%Z, 5%Z]; cbn; congruence. Qed.
Lemma lab_dispatch_old_partial m n : n <> 3%Z -> lab_dispatch_old [3%Z; m; n] = ChannelFirst.
Proof. intros H. unfold lab_dispatch_old. apply Z.eqb_neq in H. rewrite H. reflexivity. Qed.

(* ================================================================== HSV *)
Lemma Rfloor_unique k x : IZR k <= x < IZR k + 1 -> Rfloor x = IZR k.
Proof.
  intros [H1 H2]. unfold Rfloor, Int_part.
  assert (H : (k + 1)%Z = up x). { apply tech_up; rewrite plus_IZR; simpl; lra. }
  rewrite <- H. f_equal. lia.
Qed.
Lemma Rfmod_small x y : 0 < y -> 0 <= x < y -> Rfmod x y = x.
Proof.
  intros Hy Hx. unfold Rfmod. rewrite (Rfloor_unique 0).
  - simpl. ring.
  - simpl. split.
    + apply Rmult_le_reg_r with y; [lra|]. unfold Rdiv. rewrite Rmult_assoc, Rinv_l by lra. lra.
    + apply Rmult_lt_reg_r with y; [lra|]. unfold Rdiv. rewrite Rmult_assoc, Rinv_l by lra. lra.
Qed.
Lemma Rfmod_neg1 x : -1 <= x < 0 -> Rfmod x 1 = x + 1.
Proof.
  intros Hx. unfold Rfmod. rewrite (Rfloor_unique (-1)).
  - simpl. ring.
  - simpl. lra.
Qed.
Lemma div_bounds a d lo hi : 0 < d -> lo * d <= a < hi * d -> lo <= a / d < hi.
Proof.
  intros Hd [H1 H2]. split.
  - apply Rmult_le_reg_r with d; [lra|]. unfold Rdiv. rewrite Rmult_assoc, Rinv_l by lra. lra.
  - apply Rmult_lt_reg_r with d; [lra|]. unfold Rdiv. rewrite Rmult_assoc, Rinv_l by lra. lra.
Qed.

(* decoding the hue: sector index and fraction *)
Lemma ihsv_decode h W k : h = (2 * PI) * (W / 6) -> IZR k <= W < IZR k + 1 -> (0 <= k <= 5)%Z ->
  ihsv_hi h = IZR k /\ ihsv_f h = W - IZR k.
Proof.
  intros Hh HW Hk. assert (P := PI_RGT_0).
  assert (H6 : ihsv_h6 h = W). { unfold ihsv_h6. rewrite Hh. field. lra. }
  assert (Kb : 0 <= IZR k <= 5). { split; [apply (IZR_le 0) | apply (IZR_le k 5)]; lia. }
  assert (Hi : ihsv_hi h = IZR k).
  { unfold ihsv_hi. rewrite H6. rewrite (Rfloor_unique k W HW). apply Rfmod_small; lra. }
  split; [exact Hi|]. unfold ihsv_f. rewrite Hi, H6. rewrite Rfmod_small; lra.
Qed.

Ltac sel_eval := unfold sel18;
  repeat (first [rewrite Reqb_is_true by lra | rewrite Reqb_is_false by (intro; lra)]; cbv iota).

Lemma ihsv_sector h s v W k : h = (2 * PI) * (W / 6) -> IZR k <= W < IZR k + 1 -> (0 <= k <= 5)%Z ->
  let f := W - IZR k in
  let p := v * (1 - s) in let q := v * (1 - f * s) in let t := v * (1 - (1 - f) * s) in
  (k = 0%Z -> ihsv_r h s v = v /\ ihsv_g h s v = t /\ ihsv_b h s v = p) /\
  (k = 1%Z -> ihsv_r h s v = q /\ ihsv_g h s v = v /\ ihsv_b h s v = p) /\
  (k = 2%Z -> ihsv_r h s v = p /\ ihsv_g h s v = v /\ ihsv_b h s v = t) /\
  (k = 3%Z -> ihsv_r h s v = p /\ ihsv_g h s v = q /\ ihsv_b h s v = v) /\
  (k = 4%Z -> ihsv_r h s v = t /\ ihsv_g h s v = p /\ ihsv_b h s v = v) /\
  (k = 5%Z -> ihsv_r h s v = v /\ ihsv_g h s v = p /\ ihsv_b h s v = q).
Proof.
  intros Hh HW Hk. destruct (ihsv_decode h W k Hh HW Hk) as [Hi Hf]. cbv zeta.
  unfold ihsv_r, ihsv_g, ihsv_b, ihsv_chan, ihsv_p, ihsv_q, ihsv_t. rewrite Hf, Hi.
  repeat split; subst k; sel_eval; reflexivity.
Qed.

Lemma hsv_err M d phi : 0 <= d <= M -> 0 <= phi <= 1 ->
  Rabs (M * (1 - phi * (d / (M + hsv_eps))) - (M - phi * d)) <= hsv_eps.
Proof.
  intros Hd Hp. unfold hsv_eps in *. set (e := 1 / 100000000) in *. assert (He : 0 < e) by (unfold e; lra).
  set (k := d / (M + e)).
  assert (Hk : k * (M + e) = d) by (unfold k; field; lra).
  assert (Kb : 0 <= k <= 1).
  { unfold k. split.
    - apply Rmult_le_reg_r with (M + e); [lra|]. unfold Rdiv. rewrite Rmult_assoc, Rinv_l by lra. lra.
    - apply Rmult_le_reg_r with (M + e); [lra|]. unfold Rdiv. rewrite Rmult_assoc, Rinv_l by lra. lra. }
  replace (M * (1 - phi * k) - (M - phi * d)) with (phi * k * e) by (rewrite <- Hk; ring).
  apply Rabs_le. split.
  - assert (0 <= phi * k) by (apply Rmult_le_pos; lra). assert (0 <= phi * k * e) by (apply Rmult_le_pos; lra). lra.
  - assert (0 <= phi * k) by (apply Rmult_le_pos; lra). assert (phi * k <= 1) by nra. nra.
Qed.

Lemma hsv_close M m phi x : 0 <= m <= M -> 0 <= phi <= 1 -> x = M - phi * (M - m) ->
  Rabs (M * (1 - phi * ((M - m) / (M + hsv_eps))) - x) <= hsv_eps.
Proof. intros Hm Hp ->. apply hsv_err; lra. Qed.
Lemma hsv_close_p M m x : 0 <= m <= M -> x = m ->
  Rabs (M * (1 - (M - m) / (M + hsv_eps)) - x) <= hsv_eps.
Proof.
  intros Hm ->. replace (M * (1 - (M - m) / (M + hsv_eps))) with (M * (1 - 1 * ((M - m) / (M + hsv_eps)))) by ring.
  apply hsv_close; lra.
Qed.
Lemma hsv_close_v M x : x = M -> Rabs (M - x) <= hsv_eps.
Proof. intros ->. replace (M - M) with 0 by ring. rewrite Rabs_R0. unfold hsv_eps. lra. Qed.

Ltac decs := repeat match goal with
  | |- context[Rle_dec ?a ?b] => destruct (Rle_dec a b)
  | |- context[Rlt_dec ?a ?b] => destruct (Rlt_dec a b)
  | H : context[Rle_dec ?a ?b] |- _ => destruct (Rle_dec a b)
  | H : context[Rlt_dec ?a ?b] |- _ => destruct (Rlt_dec a b) end; try reflexivity; try lra.

Section HSV.
Variables r g b : R.
Hypothesis Hr : 0 <= r.
Hypothesis Hg : 0 <= g.
Hypothesis Hb : 0 <= b.
Let h := hsv_h r g b.
Let s := hsv_s r g b.
Let v := hsv_v r g b.
Definition hsv_goal : Prop :=
  Rabs (ihsv_r h s v - r) <= hsv_eps /\ Rabs (ihsv_g h s v - g) <= hsv_eps /\ Rabs (ihsv_b h s v - b) <= hsv_eps.

(* common frame: M, m, the raw hue u, its wrapped value W in sector k *)
Lemma hsv_frame M m u W k :
  max3 r g b = M -> min3 r g b = m ->
  hsv_hraw r g b = u -> ((0 <= u /\ W = u) \/ (u < 0 /\ W = u + 6)) -> -1 <= u ->
  IZR k <= W < IZR k + 1 -> (0 <= k <= 5)%Z ->
  let f := W - IZR k in let sd := (M - m) / (M + hsv_eps) in
  let p := M * (1 - sd) in let q := M * (1 - f * sd) in let t := M * (1 - (1 - f) * sd) in
  (k = 0%Z -> ihsv_r h s v = M /\ ihsv_g h s v = t /\ ihsv_b h s v = p) /\
  (k = 1%Z -> ihsv_r h s v = q /\ ihsv_g h s v = M /\ ihsv_b h s v = p) /\
  (k = 2%Z -> ihsv_r h s v = p /\ ihsv_g h s v = M /\ ihsv_b h s v = t) /\
  (k = 3%Z -> ihsv_r h s v = p /\ ihsv_g h s v = q /\ ihsv_b h s v = M) /\
  (k = 4%Z -> ihsv_r h s v = t /\ ihsv_g h s v = p /\ ihsv_b h s v = M) /\
  (k = 5%Z -> ihsv_r h s v = M /\ ihsv_g h s v = p /\ ihsv_b h s v = q).
Proof.
  intros HM Hm Hu HWu Hub HW Hk. cbv zeta.
  assert (Kb : IZR k <= 5) by (apply (IZR_le k 5); lia).
  assert (Hh : h = (2 * PI) * (W / 6)).
  { unfold h, hsv_h. rewrite Hu. f_equal. destruct HWu as [[U ->]|[U ->]].
    - rewrite Rfmod_small by lra. reflexivity.
    - rewrite Rfmod_neg1 by lra. field. }
  pose proof (ihsv_sector h s v W k Hh HW Hk) as S. cbv zeta in S.
  unfold s, v, hsv_s, hsv_v in *. rewrite HM, Hm in *. exact S.
Qed.
End HSV.

Ltac mm := unfold max3, min3, Rmax, Rmin; decs.
Ltac am := unfold amax3, Rltb, Rmax; decs.
(* evaluate the raw hue once max, min and argmax are known *)
Ltac hraw HM Hm Ha := unfold hsv_hraw, hsv_dc; rewrite HM, Hm, Ha;
  repeat (first [rewrite Reqb_is_true by lra | rewrite Reqb_is_false by (intro; lra)]; cbv iota).
(* the three channels of one sector *)
Ltac fin3 W := cbv zeta; repeat split;
  first [ apply hsv_close_v; lra | apply hsv_close_p; lra
        | apply hsv_close; [lra | simpl; lra | simpl; unfold W; field; lra] ].
Ltac sector F k := let S := fresh "S" in
  match k with
  | 0%Z => destruct F as (S & _) | 1%Z => destruct F as (_ & S & _) | 2%Z => destruct F as (_ & _ & S & _)
  | 3%Z => destruct F as (_ & _ & _ & S & _) | 4%Z => destruct F as (_ & _ & _ & _ & S & _)
  | 5%Z => destruct F as (_ & _ & _ & _ & _ & S) end;
  let E1 := fresh "E" in let E2 := fresh "E" in let E3 := fresh "E" in
  destruct (S eq_refl) as (E1 & E2 & E3); rewrite E1, E2, E3; clear E1 E2 E3 S.

Theorem hsv_rt r g b : 0 <= r -> 0 <= g -> 0 <= b -> hsv_goal r g b.
Proof.
  intros Hr Hg Hb. unfold hsv_goal.
  destruct (Rlt_dec (Rmax r g) b) as [C|C].
  - (* b is the strict maximum *)
    assert (Cr : r < b) by (revert C; unfold Rmax; decs).
    assert (Cg : g < b) by (revert C; unfold Rmax; decs).
    assert (HM : max3 r g b = b) by mm.
    assert (Ha : amax3 r g b = 2) by (revert C; am).
    destruct (Rlt_dec r g) as [D|D].
    + assert (Hm : min3 r g b = r) by mm.
      set (W := ((b - g) - (b - r) + 4 * (b - r)) / (b - r)).
      assert (Hu : hsv_hraw r g b = W) by (hraw HM Hm Ha; reflexivity).
      assert (HW : 3 <= W < 3 + 1) by (apply div_bounds; lra).
      pose proof (hsv_frame r g b b r W W 3 HM Hm Hu ltac:(left; split; [lra|reflexivity]) ltac:(lra) HW ltac:(lia)) as F.
      sector F 3%Z. fin3 W.
    + assert (Hm : min3 r g b = g) by mm.
      set (W := ((b - g) - (b - r) + 4 * (b - g)) / (b - g)).
      assert (Hu : hsv_hraw r g b = W) by (hraw HM Hm Ha; reflexivity).
      assert (HW : 4 <= W < 4 + 1) by (apply div_bounds; lra).
      pose proof (hsv_frame r g b b g W W 4 HM Hm Hu ltac:(left; split; [lra|reflexivity]) ltac:(lra) HW ltac:(lia)) as F.
      sector F 4%Z. fin3 W.
  - assert (Cb : b <= Rmax r g) by lra.
    destruct (Rlt_dec r g) as [B|B].
    + (* g is the first maximum *)
      assert (Cg : b <= g) by (revert Cb; unfold Rmax; decs).
      assert (HM : max3 r g b = g) by mm.
      assert (Ha : amax3 r g b = 1) by (revert C; am).
      destruct (Rlt_dec b r) as [D|D].
      * assert (Hm : min3 r g b = b) by mm.
        set (W := ((g - r) - (g - b) + 2 * (g - b)) / (g - b)).
        assert (Hu : hsv_hraw r g b = W) by (hraw HM Hm Ha; reflexivity).
        assert (HW : 1 <= W < 1 + 1) by (apply div_bounds; lra).
        pose proof (hsv_frame r g b g b W W 1 HM Hm Hu ltac:(left; split; [lra|reflexivity]) ltac:(lra) HW ltac:(lia)) as F.
        sector F 1%Z. fin3 W.
      * assert (Hm : min3 r g b = r) by mm.
        destruct (Req_dec b g) as [Z|Z].
        { subst b.
          set (W := ((g - r) - (g - g) + 2 * (g - r)) / (g - r)).
          assert (Hu : hsv_hraw r g g = W) by (hraw HM Hm Ha; reflexivity).
          assert (HW : 3 <= W < 3 + 1) by (apply div_bounds; lra).
          pose proof (hsv_frame r g g g r W W 3 HM Hm Hu ltac:(left; split; [lra|reflexivity]) ltac:(lra) HW ltac:(lia)) as F.
          sector F 3%Z. fin3 W. }
        { set (W := ((g - r) - (g - b) + 2 * (g - r)) / (g - r)).
          assert (Hu : hsv_hraw r g b = W) by (hraw HM Hm Ha; reflexivity).
          assert (HW : 2 <= W < 2 + 1) by (apply div_bounds; lra).
          pose proof (hsv_frame r g b g r W W 2 HM Hm Hu ltac:(left; split; [lra|reflexivity]) ltac:(lra) HW ltac:(lia)) as F.
          sector F 2%Z. fin3 W. }
    + (* r is the first maximum *)
      assert (Cr : b <= r) by (revert Cb; unfold Rmax; decs).
      assert (HM : max3 r g b = r) by mm.
      assert (Ha : amax3 r g b = 0) by (revert C; am).
      destruct (Rle_dec b g) as [D|D].
      * assert (Hm : min3 r g b = b) by mm.
        destruct (Req_dec r b) as [Z|Z].
        { (* grey: r = g = b *)
          assert (Hu : hsv_hraw r g b = 0) by (hraw HM Hm Ha; lra).
          pose proof (hsv_frame r g b r b 0 0 0 HM Hm Hu ltac:(left; split; [lra|reflexivity]) ltac:(lra) ltac:(simpl; lra) ltac:(lia)) as F.
          sector F 0%Z. cbv zeta. repeat split;
            first [ apply hsv_close_v; lra | apply hsv_close_p; lra | apply hsv_close; [lra | simpl; lra | simpl; nra] ]. }
        destruct (Req_dec g r) as [Y|Y].
        { subst g.
          set (W := ((r - b) - (r - r)) / (r - b)).
          assert (Hu : hsv_hraw r r b = W) by (hraw HM Hm Ha; reflexivity).
          assert (HW : 1 <= W < 1 + 1) by (apply div_bounds; lra).
          pose proof (hsv_frame r r b r b W W 1 HM Hm Hu ltac:(left; split; [lra|reflexivity]) ltac:(lra) HW ltac:(lia)) as F.
          sector F 1%Z. fin3 W. }
        { set (W := ((r - b) - (r - g)) / (r - b)).
          assert (Hu : hsv_hraw r g b = W) by (hraw HM Hm Ha; reflexivity).
          assert (HW : 0 <= W < 0 + 1) by (apply div_bounds; lra).
          pose proof (hsv_frame r g b r b W W 0 HM Hm Hu ltac:(left; split; [lra|reflexivity]) ltac:(lra) HW ltac:(lia)) as F.
          sector F 0%Z. fin3 W. }
      * assert (Hm : min3 r g b = g) by mm.
        set (U := ((r - b) - (r - g)) / (r - g)).
        assert (Hu : hsv_hraw r g b = U) by (hraw HM Hm Ha; reflexivity).
        assert (HU : -1 <= U < 0) by (apply div_bounds; lra).
        set (W := U + 6).
        assert (HW : 5 <= W < 5 + 1) by (unfold W; lra).
        pose proof (hsv_frame r g b r g U W 5 HM Hm Hu ltac:(right; split; [lra|reflexivity]) ltac:(lra) HW ltac:(lia)) as F.
        sector F 5%Z. cbv zeta. repeat split;
          first [ apply hsv_close_v; lra | apply hsv_close_p; lra
                | apply hsv_close; [lra | simpl; lra | simpl; unfold W, U; field; lra] ].
Qed.

Lemma hsv_grey c : hsv_s c c c = 0 /\ hsv_v c c c = c.
Proof.
  assert (HM : max3 c c c = c) by (unfold max3, Rmax; decs).
  assert (Hm : min3 c c c = c) by (unfold min3, Rmin; decs).
  unfold hsv_s, hsv_v. rewrite HM, Hm. split; [|reflexivity]. unfold Rdiv. ring.
Qed.

(* ================================================================== sRGB <-> CIE L*a*b* *)
Lemma Rpower_neg_antitone c a x : c < 0 -> 0 < a -> a <= x -> Rpower x c <= Rpower a c.
Proof.
  intros Hc Ha Hx. destruct (Req_dec a x) as [->|N]; [lra|].
  left. unfold Rpower. apply exp_increasing.
  assert (ln a < ln x) by (apply ln_increasing; lra). nra.
Qed.
Lemma Rpower_lip e a x y : 0 < e < 1 -> 0 < a -> a <= x -> x <= y ->
  0 <= Rpower y e - Rpower x e <= e * Rpower a (e - 1) * (y - x).
Proof.
  intros He Ha Hx Hy. destruct (Req_dec x y) as [->|N].
  - replace (Rpower y e - Rpower y e) with 0 by ring. replace (y - y) with 0 by ring. lra.
  - assert (L : x < y) by lra.
    destruct (MVT_cor2 (fun t => Rpower t e) (fun t => e * Rpower t (e - 1)) x y L) as (c & Hc & Hcb).
    { intros c Hc. apply derivable_pt_lim_power. lra. }
    rewrite Hc. assert (P : 0 < Rpower c (e - 1)) by apply exp_pos.
    pose proof (Rpower_neg_antitone (e - 1) a c ltac:(lra) Ha ltac:(lra)) as Q.
    split.
    + apply Rmult_le_pos; [apply Rmult_le_pos|]; lra.
    + apply Rmult_le_compat_r; [lra|]. apply Rmult_le_compat_l; lra.
Qed.

(* the encoder is Lipschitz with the slope of its linear part, up to the step at the knee *)
Lemma enc_slope : 1.055 * (inv_gamma * Rpower srgb_thr (inv_gamma - 1)) <= 12.92.
Proof. unfold inv_gamma, srgb_thr. interval. Qed.
Lemma to_srgb_lip x y : x <= y -> - (3 / 10 ^ 8) <= to_srgb y - to_srgb x <= 12.92 * (y - x).
Proof.
  intros H. pose proof enc_slope as K. pose proof enc_knee_step as S.
  assert (T : 0 < srgb_thr) by (unfold srgb_thr; lra).
  assert (G : 0 < inv_gamma < 1) by (unfold inv_gamma; lra).
  unfold to_srgb. case_ltb srgb_thr x; case_ltb srgb_thr y; try lra.
  - rewrite !Rmax_l by lra.
    pose proof (Rpower_lip inv_gamma srgb_thr x y G T ltac:(lra) H) as [L1 L2].
    assert (inv_gamma * Rpower srgb_thr (inv_gamma - 1) * (y - x) <= 12.92 / 1.055 * (y - x)).
    { apply Rmult_le_compat_r; [lra|]. apply Rmult_le_reg_l with 1.055; [lra|]. 
      replace (1.055 * (12.92 / 1.055)) with 12.92 by lra. exact K. }
    lra.
  - rewrite Rmax_l by lra.
    pose proof (Rpower_lip inv_gamma srgb_thr srgb_thr y G T ltac:(lra) ltac:(lra)) as [L1 L2].
    assert (inv_gamma * Rpower srgb_thr (inv_gamma - 1) * (y - srgb_thr) <= 12.92 / 1.055 * (y - srgb_thr)).
    { apply Rmult_le_compat_r; [lra|]. apply Rmult_le_reg_l with 1.055; [lra|]. 
      replace (1.055 * (12.92 / 1.055)) with 12.92 by lra. exact K. }
    lra.
Qed.
Lemma to_srgb_close x y d : Rabs (y - x) <= d -> Rabs (to_srgb y - to_srgb x) <= 12.92 * d + 3 / 10 ^ 8.
Proof.
  intros H. apply Rabs_le_inv' in H. apply Rabs_le. destruct (Rle_dec x y) as [L|L].
  - pose proof (to_srgb_lip x y L). lra.
  - pose proof (to_srgb_lip y x ltac:(lra)). lra.
Qed.

(* ---- the CIE nonlinearity and its inverse, with the code's binary64 constants *)
Lemma lab_f_knee : lab_delta < Rpower lab_delta_cube lab_third.
Proof. unfold lab_delta, lab_delta_cube, lab_third. interval with (i_prec 120). Qed.
Lemma lab_f_low t : 0 <= t <= lab_delta_cube -> lab_factor * t + lab_c429 <= lab_delta.
Proof. unfold lab_delta_cube, lab_factor, lab_c429, lab_delta. intros H. lra. Qed.
Lemma lab_finv_f t : 0 <= t <= 1.1 -> Rabs (lab_finv (lab_f t) - t) <= 1 / 10 ^ 14.
Proof.
  intros Ht. unfold lab_f. case_ltb lab_delta_cube t.
  - assert (T : 0 < t) by (unfold lab_delta_cube in *; lra).
    assert (K : lab_delta < Rpower t lab_third).
    { pose proof lab_f_knee. assert (Rpower lab_delta_cube lab_third < Rpower t lab_third).
      { apply Rlt_Rpower_l; unfold lab_third, lab_delta_cube in *; lra. } lra. }
    unfold lab_finv. rewrite Rltb_is_true by exact K.
    replace (Rpower t lab_third ^ 3) with (Rpower (Rpower t lab_third) (INR 3)) by (apply Rpower_pow; apply exp_pos).
    rewrite Rpower_mult. replace (lab_third * INR 3) with (1 + (3 * lab_third - 1)) by (simpl; ring).
    rewrite Rpower_succ by exact T.
    replace (t * Rpower t (3 * lab_third - 1) - t) with (t * (Rpower t (3 * lab_third - 1) - 1)) by ring.
    unfold lab_third, lab_delta_cube in *. interval with (i_prec 120).
  - pose proof (lab_f_low t ltac:(lra)) as L. unfold lab_finv. rewrite Rltb_is_false by exact L.
    unfold lab_factor2, lab_factor, lab_c429, lab_delta_cube in *. apply Rabs_le. lra.
Qed.
(* Lipschitz bound for f *)
Lemma lab_f_slope : lab_third * Rpower lab_delta_cube (lab_third - 1) <= 7.8.
Proof. unfold lab_third, lab_delta_cube. interval. Qed.
Lemma lab_f_step : 0 <= Rpower lab_delta_cube lab_third - (lab_factor * lab_delta_cube + lab_c429) <= 1 / 10 ^ 15.
Proof. unfold lab_third, lab_delta_cube, lab_factor, lab_c429. split; interval with (i_prec 120). Qed.
Lemma lab_f_lip x y : 0 <= x -> x <= y -> 0 <= lab_f y - lab_f x <= 7.8 * (y - x) + 1 / 10 ^ 15.
Proof.
  intros H0 H. pose proof lab_f_slope as K. pose proof lab_f_step as S.
  assert (T : 0 < lab_delta_cube) by (unfold lab_delta_cube; lra).
  assert (G : 0 < lab_third < 1) by (unfold lab_third; lra).
  assert (F : lab_factor <= 7.8 /\ 0 < lab_factor) by (unfold lab_factor; lra).
  unfold lab_f. case_ltb lab_delta_cube x; case_ltb lab_delta_cube y; try lra.
  - pose proof (Rpower_lip lab_third lab_delta_cube x y G T ltac:(lra) H) as [L1 L2].
    assert (lab_third * Rpower lab_delta_cube (lab_third - 1) * (y - x) <= 7.8 * (y - x)) by (apply Rmult_le_compat_r; lra).
    lra.
  - pose proof (Rpower_lip lab_third lab_delta_cube lab_delta_cube y G T ltac:(lra) ltac:(lra)) as [L1 L2].
    assert (lab_third * Rpower lab_delta_cube (lab_third - 1) * (y - lab_delta_cube) <= 7.8 * (y - lab_delta_cube)) by (apply Rmult_le_compat_r; lra).
    assert (lab_factor * (lab_delta_cube - x) <= 7.8 * (lab_delta_cube - x)) by (apply Rmult_le_compat_r; lra).
    assert (0 <= lab_factor * (lab_delta_cube - x)) by (apply Rmult_le_pos; lra).
    lra.
  - assert (lab_factor * (y - x) <= 7.8 * (y - x)) by (apply Rmult_le_compat_r; lra).
    assert (0 <= lab_factor * (y - x)) by (apply Rmult_le_pos; lra). lra.
Qed.

(* agreement of the code's nonlinearity (binary64 constants) with CIE's exact one *)
Lemma lab_f_cie t : 0 <= t <= 1.1 -> Rabs (lab_f t - cie_f t) <= 1 / 10 ^ 15.
Proof.
  intros Ht. unfold lab_f, cie_f. case_ltb lab_delta_cube t; case_ltb ((6 / 29) ^ 3) t.
  - unfold lab_third, lab_delta_cube in *.
    replace 0.3333333333333333 with (1 / 3 + (0.3333333333333333 - 1 / 3)) by ring.
    rewrite Rpower_plus.
    replace (Rpower t (1 / 3) * Rpower t (0.3333333333333333 - 1 / 3) - Rpower t (1 / 3))
      with (Rpower t (1 / 3) * (Rpower t (0.3333333333333333 - 1 / 3) - 1)) by ring.
    interval with (i_prec 120).
  - unfold lab_third, lab_delta_cube in *. assert (0.008856451679035631 <= t <= (6 / 29) ^ 3) by lra.
    interval with (i_prec 150).
  - unfold lab_factor, lab_c429, lab_delta_cube in *. assert ((6 / 29) ^ 3 <= t <= 0.008856451679035631) by lra.
    interval with (i_prec 150).
  - unfold lab_factor, lab_c429, lab_delta_cube in *. assert (0 <= t <= 0.008856451679035631) by lra.
    replace (7.787037037037036 * t + 0.13793103448275862 - (t / (3 * (6 / 29) ^ 2) + 4 / 29))
      with ((7.787037037037036 - 1 / (3 * (6 / 29) ^ 2)) * t + (0.13793103448275862 - 4 / 29)) by (field; lra).
    interval with (i_prec 120).
Qed.

(* ---- white and greys *)
Lemma white_lab : Rabs (lab_L 1 1 1 - 100) <= 1 / 10 ^ 9 /\ Rabs (lab_a 1 1 1) <= 1 / 10 ^ 5 /\ Rabs (lab_b 1 1 1) <= 1 / 10 ^ 5.
Proof.
  unfold lab_L, lab_a, lab_b, lab_fx, lab_fy, lab_fz. rewrite to_lin_1.
  unfold lab_f, lab_X, lab_Y, lab_Z, mrow, lab_wx, lab_wz, lab_delta_cube, lab_third.
  rewrite !Rltb_is_true by lra. repeat split; interval with (i_prec 80).
Qed.
Lemma black_lab : lab_L 0 0 0 = 116 * lab_c429 - 16 /\ lab_a 0 0 0 = 0 /\ lab_b 0 0 0 = 0.
Proof.
  unfold lab_L, lab_a, lab_b, lab_fx, lab_fy, lab_fz. rewrite to_lin_0.
  unfold lab_f, lab_X, lab_Y, lab_Z, mrow, lab_wx, lab_wz, lab_delta_cube.
  rewrite !Rltb_is_false by lra. repeat split; ring.
Qed.
Lemma black_lab_L : Rabs (lab_L 0 0 0) <= 1 / 10 ^ 13.
Proof. destruct black_lab as (-> & _). unfold lab_c429. apply Rabs_le. lra. Qed.

Lemma grey_lab c : 0 <= c <= 1 -> Rabs (lab_a c c c) <= 1 / 10 ^ 4 /\ Rabs (lab_b c c c) <= 1 / 10 ^ 4.
Proof.
  intros Hc. pose proof (to_lin_range c Hc) as Hl. set (l := to_lin c) in *.
  unfold lab_a, lab_b, lab_fx, lab_fy, lab_fz. fold l.
  set (x1 := lab_X l l l * lab_wx). set (y1 := lab_Y l l l). set (z1 := lab_Z l l l * lab_wz).
  assert (Hx : 0 <= x1 /\ x1 <= y1 /\ y1 - x1 <= 25 / 10 ^ 9).
  { unfold x1, y1, lab_X, lab_Y, mrow, lab_wx. repeat split; lra. }
  assert (Hz : 0 <= y1 /\ y1 <= z1 /\ z1 - y1 <= 1 / 10 ^ 8).
  { unfold z1, y1, lab_Z, lab_Y, mrow, lab_wz. repeat split; lra. }
  pose proof (lab_f_lip x1 y1 ltac:(lra) ltac:(lra)). pose proof (lab_f_lip y1 z1 ltac:(lra) ltac:(lra)).
  split; apply Rabs_le; lra.
Qed.

(* ---- sRGB -> Lab -> sRGB *)
Lemma lab_rt r g b : 0 <= r <= 1 -> 0 <= g <= 1 -> 0 <= b <= 1 ->
  Rabs (ilab_r (lab_L r g b) (lab_a r g b) (lab_b r g b) - r) <= 1 / 10 ^ 5 /\
  Rabs (ilab_g (lab_L r g b) (lab_a r g b) (lab_b r g b) - g) <= 1 / 10 ^ 5 /\
  Rabs (ilab_b (lab_L r g b) (lab_a r g b) (lab_b r g b) - b) <= 1 / 10 ^ 5.
Proof.
  intros Hr Hg Hb.
  pose proof (to_lin_range r Hr) as Lr. pose proof (to_lin_range g Hg) as Lg. pose proof (to_lin_range b Hb) as Lb.
  pose proof (gamma_rt r Hr) as Gr. pose proof (gamma_rt g Hg) as Gg. pose proof (gamma_rt b Hb) as Gb.
  set (lr := to_lin r) in *. set (lg := to_lin g) in *. set (lb := to_lin b) in *.
  set (NX := lab_X lr lg lb * lab_wx). set (NY := lab_Y lr lg lb). set (NZ := lab_Z lr lg lb * lab_wz).
  assert (RX : 0 <= NX <= 1.1) by (unfold NX, lab_X, mrow, lab_wx; lra).
  assert (RY : 0 <= NY <= 1.1) by (unfold NY, lab_Y, mrow; lra).
  assert (RZ : 0 <= NZ <= 1.1) by (unfold NZ, lab_Z, mrow, lab_wz; lra).
  assert (Fx : ilab_fx (lab_L r g b) (lab_a r g b) (lab_b r g b) = lab_f NX).
  { unfold ilab_fx, lab_L, lab_a, lab_fx, lab_fy. fold lr lg lb. fold NX NY. field. }
  assert (Fy : ilab_fy (lab_L r g b) (lab_a r g b) (lab_b r g b) = lab_f NY).
  { unfold ilab_fy, lab_L, lab_fy. fold lr lg lb. fold NY. field. }
  assert (Fz : ilab_fz (lab_L r g b) (lab_a r g b) (lab_b r g b) = lab_f NZ).
  { unfold ilab_fz, lab_L, lab_b, lab_fz, lab_fy. fold lr lg lb. fold NZ NY. field. }
  pose proof (lab_finv_f NX RX) as EX. pose proof (lab_finv_f NY RY) as EY. pose proof (lab_finv_f NZ RZ) as EZ.
  apply Rabs_le_inv' in EX. apply Rabs_le_inv' in EY. apply Rabs_le_inv' in EZ.
  unfold ilab_r, ilab_g, ilab_b, ilab_X, ilab_Y, ilab_Z. rewrite Fx, Fy, Fz. rewrite !to_srgb_nc_eq.
  set (GX := lab_finv (lab_f NX)) in *. set (GY := lab_finv (lab_f NY)) in *. set (GZ := lab_finv (lab_f NZ)) in *.
  unfold NX, NY, NZ, lab_X, lab_Y, lab_Z, mrow, lab_wx, lab_wz in EX, EY, EZ.
  assert (Dr : Rabs (ilab_lr (GX * lab_xn) GY (GZ * lab_zn) - lr) <= 3 / 10 ^ 7).
  { unfold ilab_lr, mrow, lab_xn, lab_zn. apply Rabs_le. lra. }
  assert (Dg : Rabs (ilab_lg (GX * lab_xn) GY (GZ * lab_zn) - lg) <= 3 / 10 ^ 7).
  { unfold ilab_lg, mrow, lab_xn, lab_zn. apply Rabs_le. lra. }
  assert (Db : Rabs (ilab_lb (GX * lab_xn) GY (GZ * lab_zn) - lb) <= 3 / 10 ^ 7).
  { unfold ilab_lb, mrow, lab_xn, lab_zn. apply Rabs_le. lra. }
  pose proof (to_srgb_close _ _ _ Dr) as Cr. pose proof (to_srgb_close _ _ _ Dg) as Cg. pose proof (to_srgb_close _ _ _ Db) as Cb.
  apply Rabs_le_inv' in Cr. apply Rabs_le_inv' in Cg. apply Rabs_le_inv' in Cb.
  apply Rabs_le_inv' in Gr. apply Rabs_le_inv' in Gg. apply Rabs_le_inv' in Gb.
  repeat split; apply Rabs_le; lra.
Qed.

(* the assembled conversion IS the CIE formula (116, 500, 200, 16, the argument order of the differences) applied to
   the XYZ of the pixel relative to the code's white (1/1.052156925, 1, 1/0.918357670), up to the binary64 rounding of
   the constants inside f; and that white is the D65 white of the standards *)
Lemma lab_matches_cie r g b : 0 <= r <= 1 -> 0 <= g <= 1 -> 0 <= b <= 1 ->
  let X := lab_X (to_lin r) (to_lin g) (to_lin b) in
  let Y := lab_Y (to_lin r) (to_lin g) (to_lin b) in
  let Z := lab_Z (to_lin r) (to_lin g) (to_lin b) in
  Rabs (lab_L r g b - cie_L X Y Z (1 / lab_wx) 1 (1 / lab_wz)) <= 1 / 10 ^ 12 /\
  Rabs (lab_a r g b - cie_a X Y Z (1 / lab_wx) 1 (1 / lab_wz)) <= 1 / 10 ^ 12 /\
  Rabs (lab_b r g b - cie_b X Y Z (1 / lab_wx) 1 (1 / lab_wz)) <= 1 / 10 ^ 12.
Proof.
  intros Hr Hg Hb.
  pose proof (to_lin_range r Hr) as Lr. pose proof (to_lin_range g Hg) as Lg. pose proof (to_lin_range b Hb) as Lb.
  cbv zeta. unfold lab_L, lab_a, lab_b, lab_fx, lab_fy, lab_fz, cie_L, cie_a, cie_b.
  set (lr := to_lin r) in *. set (lg := to_lin g) in *. set (lb := to_lin b) in *.
  replace (lab_X lr lg lb / (1 / lab_wx)) with (lab_X lr lg lb * lab_wx)
    by (unfold Rdiv; rewrite Rmult_1_l, Rinv_inv; reflexivity).
  replace (lab_Z lr lg lb / (1 / lab_wz)) with (lab_Z lr lg lb * lab_wz)
    by (unfold Rdiv; rewrite Rmult_1_l, Rinv_inv; reflexivity).
  replace (lab_Y lr lg lb / 1) with (lab_Y lr lg lb) by (unfold Rdiv; rewrite Rinv_1, Rmult_1_r; reflexivity).
  set (NX := lab_X lr lg lb * lab_wx). set (NY := lab_Y lr lg lb). set (NZ := lab_Z lr lg lb * lab_wz).
  assert (RX : 0 <= NX <= 1.1) by (unfold NX, lab_X, mrow, lab_wx; lra).
  assert (RY : 0 <= NY <= 1.1) by (unfold NY, lab_Y, mrow; lra).
  assert (RZ : 0 <= NZ <= 1.1) by (unfold NZ, lab_Z, mrow, lab_wz; lra).
  pose proof (lab_f_cie NX RX) as EX. pose proof (lab_f_cie NY RY) as EY. pose proof (lab_f_cie NZ RZ) as EZ.
  apply Rabs_le_inv' in EX. apply Rabs_le_inv' in EY. apply Rabs_le_inv' in EZ.
  repeat split; apply Rabs_le; lra.
Qed.
Lemma lab_white_is_d65 :
  Rabs (1 / lab_wx - 0.95047) <= 5 / 10 ^ 5 /\ Rabs (1 / lab_wz - 1.08883) <= 1 / 10 ^ 4 /\
  Rabs (lab_xn - 1 / lab_wx) <= 1 / 10 ^ 7 /\ Rabs (lab_zn - 1 / lab_wz) <= 1 / 10 ^ 7.
Proof. unfold lab_wx, lab_wz, lab_xn, lab_zn. repeat split; interval. Qed.

(* ================================================================== packaged statements for Props.v *)
Lemma grey_zero_chroma c : 0 <= c <= 1 ->
  (ycc_y c c c = c /\ ycc_cr c c c = 1 / 2 /\ ycc_cb c c c = 1 / 2) /\
  (hsv_s c c c = 0 /\ hsv_v c c c = c) /\
  (Rabs (lab_a c c c) <= 1 / 10 ^ 4 /\ Rabs (lab_b c c c) <= 1 / 10 ^ 4).
Proof. intros Hc. exact (conj (ycrcb_grey c) (conj (hsv_grey c) (grey_lab c Hc))). Qed.
Lemma lab_layout k c m n : lab_dispatch [3%Z; m; n] = ChannelFirst /\ lab_dispatch [k; c; m; n] = Batch.
Proof. exact (conj (lab_dispatch_documented m n) (lab_dispatch_batch k c m n)). Qed.
