(* C15 — property theorems: colour-space conversions invert each other and match the published
   standards.  All statements are about the code model of Model.v (layer a), which the definitions
   traced from /repo are proved equal to on every run (coq/tie/C15_Tie*.v); the references (layer b)
   are transcribed from the standards.  Values are real numbers; float rounding is not modelled. *)
From Coq Require Import Reals Bool ZArith List.
From OdakV Require Import Base.RealAux C15.Model C15.Lemmas.
Import ListNotations.
Open Scope R_scope.

(* rowsum|E| <= eps and |x_j| <= 1 give |(E x)_i| <= eps *)
Theorem C15_mat3_err : forall e0 e1 e2 eps x y z,
  Rabs e0 + Rabs e1 + Rabs e2 <= eps -> Rabs x <= 1 -> Rabs y <= 1 -> Rabs z <= 1 ->
  Rabs (mrow e0 e1 e2 x y z) <= eps.
Proof. exact mat3_err. Qed.

(* ---- RGB -> YCrCb -> RGB, and BT.601 *)
Theorem C15_ycrcb_roundtrip : forall r g b, 0 <= r <= 1 -> 0 <= g <= 1 -> 0 <= b <= 1 ->
  Rabs (iycc_r (ycc_y r g b) (ycc_cr r g b) (ycc_cb r g b) - r) <= 1 / 1000 /\
  Rabs (iycc_g (ycc_y r g b) (ycc_cr r g b) (ycc_cb r g b) - g) <= 1 / 1000 /\
  Rabs (iycc_b (ycc_y r g b) (ycc_cr r g b) (ycc_cb r g b) - b) <= 1 / 1000.
Proof. exact ycrcb_rt. Qed.
Theorem C15_ycrcb_matches_bt601 : forall r g b, 0 <= r <= 1 -> 0 <= g <= 1 -> 0 <= b <= 1 ->
  ycc_y r g b = bt601_y r g b /\
  Rabs (ycc_cr r g b - bt601_cr r g b) <= 2 / 10000 /\
  Rabs (ycc_cb r g b - bt601_cb r g b) <= 3 / 10000.
Proof. exact ycrcb_bt601. Qed.
Theorem C15_ycrcb_in_range : forall r g b, 0 <= r <= 1 -> 0 <= g <= 1 -> 0 <= b <= 1 ->
  0 <= ycc_y r g b <= 1 /\ 0 <= ycc_cr r g b <= 1 /\ 0 <= ycc_cb r g b <= 1.
Proof. exact ycrcb_range. Qed.

(* ---- linear RGB -> XYZ -> linear RGB, white, the standard's matrix and chromaticities *)
Theorem C15_xyz_roundtrip : forall r g b, 0 <= r <= 1 -> 0 <= g <= 1 -> 0 <= b <= 1 ->
  Rabs (ixyz_r (xyz_x r g b) (xyz_y r g b) (xyz_z r g b) - r) <= 1 / 100000 /\
  Rabs (ixyz_g (xyz_x r g b) (xyz_y r g b) (xyz_z r g b) - g) <= 1 / 100000 /\
  Rabs (ixyz_b (xyz_x r g b) (xyz_y r g b) (xyz_z r g b) - b) <= 1 / 100000.
Proof. exact xyz_rt. Qed.
Theorem C15_white_Y : xyz_y 1 1 1 = 1 /\ Rabs (lab_Y 1 1 1 - 1) <= 1 / 10 ^ 15.
Proof. exact white_Y. Qed.
Theorem C15_xyz_matches_iec : forall r g b, 0 <= r <= 1 -> 0 <= g <= 1 -> 0 <= b <= 1 ->
  Rabs (xyz_x r g b - iec_x r g b) <= 2 / 10000 /\
  Rabs (xyz_y r g b - iec_y r g b) <= 2 / 10000 /\
  Rabs (xyz_z r g b - iec_z r g b) <= 4 / 10000.
Proof. exact xyz_iec. Qed.
Theorem C15_xyz_chromaticities :
  Rabs (chroma_x (xyz_x 1 0 0) (xyz_y 1 0 0) (xyz_z 1 0 0) - 0.64) <= 1 / 10000 /\
  Rabs (chroma_y (xyz_x 1 0 0) (xyz_y 1 0 0) (xyz_z 1 0 0) - 0.33) <= 1 / 10000 /\
  Rabs (chroma_x (xyz_x 0 1 0) (xyz_y 0 1 0) (xyz_z 0 1 0) - 0.30) <= 1 / 10000 /\
  Rabs (chroma_y (xyz_x 0 1 0) (xyz_y 0 1 0) (xyz_z 0 1 0) - 0.60) <= 1 / 10000 /\
  Rabs (chroma_x (xyz_x 0 0 1) (xyz_y 0 0 1) (xyz_z 0 0 1) - 0.15) <= 1 / 10000 /\
  Rabs (chroma_y (xyz_x 0 0 1) (xyz_y 0 0 1) (xyz_z 0 0 1) - 0.06) <= 1 / 10000 /\
  Rabs (chroma_x (xyz_x 1 1 1) (xyz_y 1 1 1) (xyz_z 1 1 1) - 0.3127) <= 1 / 10000 /\
  Rabs (chroma_y (xyz_x 1 1 1) (xyz_y 1 1 1) (xyz_z 1 1 1) - 0.3290) <= 1 / 10000.
Proof. exact xyz_chromaticities. Qed.
Theorem C15_lab_matrix_chromaticities :
  Rabs (chroma_x (lab_X 1 0 0) (lab_Y 1 0 0) (lab_Z 1 0 0) - 0.64) <= 1 / 10000 /\
  Rabs (chroma_y (lab_X 1 0 0) (lab_Y 1 0 0) (lab_Z 1 0 0) - 0.33) <= 1 / 10000 /\
  Rabs (chroma_x (lab_X 0 1 0) (lab_Y 0 1 0) (lab_Z 0 1 0) - 0.30) <= 1 / 10000 /\
  Rabs (chroma_y (lab_X 0 1 0) (lab_Y 0 1 0) (lab_Z 0 1 0) - 0.60) <= 1 / 10000 /\
  Rabs (chroma_x (lab_X 0 0 1) (lab_Y 0 0 1) (lab_Z 0 0 1) - 0.15) <= 1 / 10000 /\
  Rabs (chroma_y (lab_X 0 0 1) (lab_Y 0 0 1) (lab_Z 0 0 1) - 0.06) <= 1 / 10000 /\
  Rabs (chroma_x (lab_X 1 1 1) (lab_Y 1 1 1) (lab_Z 1 1 1) - 0.3127) <= 1 / 10000 /\
  Rabs (chroma_y (lab_X 1 1 1) (lab_Y 1 1 1) (lab_Z 1 1 1) - 0.3290) <= 1 / 10000.
Proof. exact lab_chromaticities. Qed.

(* ---- sRGB transfer functions (IEC 61966-2-1) *)
Theorem C15_gamma_roundtrip : forall x, 0 <= x <= 1 -> Rabs (to_srgb (to_lin x) - x) <= 1 / 10 ^ 7.
Proof. exact gamma_rt. Qed.
Theorem C15_gamma_decode_monotone : forall x y, x < y -> to_lin x < to_lin y.
Proof. exact to_lin_mono. Qed.
Theorem C15_gamma_endpoints : to_lin 0 = 0 /\ to_lin 1 = 1 /\ to_srgb 0 = 0 /\ to_srgb 1 = 1.
Proof. exact (conj to_lin_0 (conj to_lin_1 (conj to_srgb_0 to_srgb_1))). Qed.
(* Encoding is NOT monotone across its knee: with the standard's own constants the value just above
   0.0031308 is 2.85e-8 below the value at 0.0031308 (a step of 7 float32 ulps; the code reproduces the
   standard here).  Refutation with a witness, and the strongest true statements. *)
Theorem C15_gamma_encode_monotone_refuted : exists x y, 0 <= x /\ x < y /\ y <= 1 /\ to_srgb y < to_srgb x.
Proof. exact to_srgb_mono_refuted. Qed.
Theorem C15_gamma_encode_monotone_partial :
  (forall x y, x < y -> y <= srgb_thr -> to_srgb x < to_srgb y) /\
  (forall x y, srgb_thr < x -> x < y -> to_srgb x < to_srgb y) /\
  (forall x y, x <= y -> to_srgb x <= to_srgb y + 3 / 10 ^ 8).
Proof. exact (conj to_srgb_mono_low (conj to_srgb_mono_high to_srgb_mono_eps)). Qed.
Theorem C15_gamma_knee :
  (forall h, 0 < h <= 1 / 10 ^ 9 -> Rabs (to_lin (0.04045 + h) - to_lin 0.04045) <= 1 / 10 ^ 8) /\
  (forall h, 0 < h <= 1 / 10 ^ 9 -> Rabs (to_srgb (srgb_thr + h) - to_srgb srgb_thr) <= 1 / 10 ^ 7).
Proof. exact gamma_knee. Qed.
Theorem C15_gamma_matches_iec :
  (forall x, to_lin x = iec_to_lin x) /\
  (forall y, 0 <= y <= 1 -> Rabs (to_srgb y - iec_to_srgb y) <= 1 / 10 ^ 12).
Proof. exact (conj gamma_iec_decode gamma_iec_encode). Qed.

(* ---- RGB -> HSV -> RGB (all six sectors, ties and greys included; the 1e-8 is the code's eps) *)
Theorem C15_hsv_roundtrip : forall r g b, 0 <= r -> 0 <= g -> 0 <= b ->
  Rabs (ihsv_r (hsv_h r g b) (hsv_s r g b) (hsv_v r g b) - r) <= hsv_eps /\
  Rabs (ihsv_g (hsv_h r g b) (hsv_s r g b) (hsv_v r g b) - g) <= hsv_eps /\
  Rabs (ihsv_b (hsv_h r g b) (hsv_s r g b) (hsv_v r g b) - b) <= hsv_eps.
Proof. exact hsv_rt. Qed.

(* ---- greys have zero chroma / saturation *)
Theorem C15_grey_zero_chroma : forall c, 0 <= c <= 1 ->
  (ycc_y c c c = c /\ ycc_cr c c c = 1 / 2 /\ ycc_cb c c c = 1 / 2) /\
  (hsv_s c c c = 0 /\ hsv_v c c c = c) /\
  (Rabs (lab_a c c c) <= 1 / 10 ^ 4 /\ Rabs (lab_b c c c) <= 1 / 10 ^ 4).
Proof. exact grey_zero_chroma. Qed.

(* ---- sRGB -> Lab -> sRGB; white and black; CIE's nonlinearity *)
Theorem C15_white_lab :
  Rabs (lab_L 1 1 1 - 100) <= 1 / 10 ^ 9 /\ Rabs (lab_a 1 1 1) <= 1 / 10 ^ 5 /\ Rabs (lab_b 1 1 1) <= 1 / 10 ^ 5.
Proof. exact white_lab. Qed.
Theorem C15_black_lab : Rabs (lab_L 0 0 0) <= 1 / 10 ^ 13 /\ lab_a 0 0 0 = 0 /\ lab_b 0 0 0 = 0.
Proof. exact (conj black_lab_L (proj2 black_lab)). Qed.
Theorem C15_lab_roundtrip : forall r g b, 0 <= r <= 1 -> 0 <= g <= 1 -> 0 <= b <= 1 ->
  Rabs (ilab_r (lab_L r g b) (lab_a r g b) (lab_b r g b) - r) <= 1 / 10 ^ 5 /\
  Rabs (ilab_g (lab_L r g b) (lab_a r g b) (lab_b r g b) - g) <= 1 / 10 ^ 5 /\
  Rabs (ilab_b (lab_L r g b) (lab_a r g b) (lab_b r g b) - b) <= 1 / 10 ^ 5.
Proof. exact lab_rt. Qed.
Theorem C15_lab_f_matches_cie : forall t, 0 <= t <= 1.1 -> Rabs (lab_f t - cie_f t) <= 1 / 10 ^ 15.
Proof. exact lab_f_cie. Qed.
(* the assembled conversion is the published CIE 1976 formula L* = 116 f(Y/Yn) - 16, a* = 500 (f(X/Xn) - f(Y/Yn)),
   b* = 200 (f(Y/Yn) - f(Z/Zn)) of the pixel's XYZ, relative to the code's white, which is D65 *)
Theorem C15_lab_matches_cie : forall r g b, 0 <= r <= 1 -> 0 <= g <= 1 -> 0 <= b <= 1 ->
  let X := lab_X (to_lin r) (to_lin g) (to_lin b) in
  let Y := lab_Y (to_lin r) (to_lin g) (to_lin b) in
  let Z := lab_Z (to_lin r) (to_lin g) (to_lin b) in
  Rabs (lab_L r g b - cie_L X Y Z (1 / lab_wx) 1 (1 / lab_wz)) <= 1 / 10 ^ 12 /\
  Rabs (lab_a r g b - cie_a X Y Z (1 / lab_wx) 1 (1 / lab_wz)) <= 1 / 10 ^ 12 /\
  Rabs (lab_b r g b - cie_b X Y Z (1 / lab_wx) 1 (1 / lab_wz)) <= 1 / 10 ^ 12.
Proof. exact lab_matches_cie. Qed.
Theorem C15_lab_white_is_d65 :
  Rabs (1 / lab_wx - 0.95047) <= 5 / 10 ^ 5 /\ Rabs (1 / lab_wz - 1.08883) <= 1 / 10 ^ 4 /\
  Rabs (lab_xn - 1 / lab_wx) <= 1 / 10 ^ 7 /\ Rabs (lab_zn - 1 / lab_wz) <= 1 / 10 ^ 7.
Proof. exact lab_white_is_d65. Qed.
(* every documented image shape [3 x m x n] is read channel-first, batches are accepted (repaired code) *)
Theorem C15_lab_layout : forall k c m n,
  lab_dispatch [3%Z; m; n] = ChannelFirst /\ lab_dispatch [k; c; m; n] = Batch.
Proof. exact lab_layout. Qed.
Theorem C15_lab_layout_old_refuted :
  (exists m, lab_dispatch_old [3%Z; m; 3%Z] <> ChannelFirst) /\ (exists k m n, lab_dispatch_old [k; 3%Z; m; n] = Rejected).
Proof. exact lab_dispatch_old_refuted. Qed.

(* ---- display_color_hvs: opponent stage and primaries -> LMS -> primaries *)
Theorem C15_third_stage_table : forall l m s,
  third_0 l m s = (m + s) - l /\ third_1 l m s = (l + s) - m /\ third_2 l m s = l + m + s.
Proof. exact third_stage_table. Qed.
Theorem C15_third_stage_old_refuted : exists l m s, third_0_old l m s <> (m + s) - l.
Proof. exact third_0_old_refuted. Qed.
(* under the contract of the pseudo-inverse for linearly independent primaries, T Q = I *)
Theorem C15_lms_roundtrip : forall t00 t01 t02 t10 t11 t12 t20 t21 t22 q00 q01 q02 q10 q11 q12 q20 q21 q22,
  t00 * q00 + t01 * q10 + t02 * q20 = 1 -> t00 * q01 + t01 * q11 + t02 * q21 = 0 -> t00 * q02 + t01 * q12 + t02 * q22 = 0 ->
  t10 * q00 + t11 * q10 + t12 * q20 = 0 -> t10 * q01 + t11 * q11 + t12 * q21 = 1 -> t10 * q02 + t11 * q12 + t12 * q22 = 0 ->
  t20 * q00 + t21 * q10 + t22 * q20 = 0 -> t20 * q01 + t21 * q11 + t22 * q21 = 0 -> t20 * q02 + t21 * q12 + t22 * q22 = 1 ->
  forall p0 p1 p2,
  l2p q00 q10 q20 (lms_l t00 t10 t20 p0 p1 p2) (lms_m t01 t11 t21 p0 p1 p2) (lms_s t02 t12 t22 p0 p1 p2) = p0 /\
  l2p q01 q11 q21 (lms_l t00 t10 t20 p0 p1 p2) (lms_m t01 t11 t21 p0 p1 p2) (lms_s t02 t12 t22 p0 p1 p2) = p1 /\
  l2p q02 q12 q22 (lms_l t00 t10 t20 p0 p1 p2) (lms_m t01 t11 t21 p0 p1 p2) (lms_s t02 t12 t22 p0 p1 p2) = p2.
Proof. exact lms_rt. Qed.

(* non-vacuity: the hypotheses of the round trips are met by a saturated in-gamut colour on two gamut
   faces, and the pseudo-inverse contract by a non-diagonal display matrix *)
Example C15_instance :
  (0 <= 1 <= 1 /\ 0 <= 0.04045 <= 1 /\ 0 <= 0 <= 1) /\
  Rabs (to_srgb (to_lin 0.04045) - 0.04045) <= 1 / 10 ^ 7 /\
  (forall p0 p1 p2, l2p (1 / 2) 0 0 (lms_l 2 0 0 p0 p1 p2) (lms_m 1 1 0 p0 p1 p2) (lms_s 0 0 1 p0 p1 p2) = p0).
Proof.
  split; [Lra.lra|]. split; [apply gamma_rt; Lra.lra | exact lms_rt_instance].
Qed.
