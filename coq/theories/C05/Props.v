(* C05 - property theorems: the PyTorch light and ray models are differentiable with correct, finite gradients.

   The harness traces every scalar entry point from the current /repo source into an `expr`, lets Coq compute
   `report n e = (grad n e, conds e)` by vm_compute on every run, and compares the value of the computed gradient
   terms with torch.autograd.grad of the real function at sampled points of `dom` (theorems C05_grad_correct, C05_grad_finite).
   The FFT-based entry points are linear maps: their gradient oracle is C05_phase_grad / C05_amp_grad /
   C05_jvp_linear with the matrix columns read off the implementation. *)
From Coq Require Import Reals QArith Qreals List.
From Coquelicot Require Import Coquelicot.
From OdakV Require Import Base.RealAux Wave.Fields C05.Model C05.Lemmas.
Open Scope R_scope.

(* the symbolic gradient is the derivative: on the autograd-safe domain ... *)
Theorem C05_D_correct : forall r x e, dom e r ->
  is_derive (fun t => eval e (upd r x t)) (r x) (eval (D x e) r).
Proof. exact D_correct. Qed.
(* ... and already on the mathematical domain (selected `where` branch only: thresholds, ties and sector
   borders excluded, index arithmetic allowed) *)
Theorem C05_D_correct_selected : forall r x e, mdom e r ->
  is_derive (fun t => eval e (upd r x t)) (r x) (eval (D x e) r).
Proof. exact D_correct_m. Qed.
Theorem C05_dom_mdom : forall e r, dom e r -> mdom e r.
Proof. exact dom_mdom. Qed.
(* finite: the gradient expression has no singular sub-expression anywhere on the autograd-safe domain *)
Theorem C05_grad_finite : forall r x e, dom e r -> dom (D x e) r.
Proof. exact dom_D. Qed.
(* every component of the gradient list Coq prints *)
Theorem C05_grad_correct : forall r n e, dom e r -> forall i, (i < n)%nat ->
  is_derive (fun t => eval e (upd r i t)) (r i) (eval (nth i (grad n e) (Cst 0)) r) /\ dom (nth i (grad n e) (Cst 0)) r.
Proof. exact grad_correct. Qed.
(* the printed side conditions are exactly the domain; singularities and thresholds can be discharged separately *)
Theorem C05_conds_iff : forall r e, List.Forall (holds r) (conds e) <-> dom e r.
Proof. exact conds_iff. Qed.
Theorem C05_dom_of_split : forall r e,
  List.Forall (holds r) (filter hard (conds e)) -> List.Forall (holds r) (filter (fun c => negb (hard c)) (conds e)) -> dom e r.
Proof. exact dom_of_split. Qed.
(* exact rational evaluation agrees with the real semantics (cross-check of the numeric evaluator) *)
Theorem C05_evalQ_sound : forall e q v, evalQ e q = Some v -> eval e (fun i => Q2R (q i)) = Q2R v.
Proof. exact evalQ_sound. Qed.

(* chain rule along any differentiable curve of environments (dv i: expression of the derivative of variable i) *)
Theorem C05_chain_rule : forall (gam : R -> envT) (t0 : R) (dv : nat -> expr) (kb : nat) e,
  (forall i, (i < kb)%nat -> is_derive (fun t => gam t i) t0 (eval (dv i) (gam t0))) ->
  bounded kb e = true -> mdom e (gam t0) ->
  is_derive (fun t => eval e (gam t)) t0 (eval (Dg dv e) (gam t0)).
Proof. exact chain_rule. Qed.
(* traced objectives are DAGs, emitted as straight-line programs: with the tangent of input x seeded with 1 and
   all others with 0, running value and tangent of every instruction in turn (what the harness does with the
   tangent expressions `reportP` prints) leaves in the tangent slot s+M of every program variable s its partial
   derivative with respect to input x *)
Theorem C05_ssa_correct : forall M n p r x, (n + length p <= M)%nat -> (x < n)%nat -> wf p n = true ->
  pdomT M p n (seed M x r) ->
  forall s, (s < n + length p)%nat ->
    is_derive (fun t => run p n (upd r x t) s) (r x) (runT M p n (seed M x r) (s + M)%nat).
Proof. exact ssa_correct. Qed.
Theorem C05_tangent_finite : forall M k e r, dom e r -> dom (Dg (dvk k M) e) r.
Proof. exact tangent_dom. Qed.

(* FFT-based entry points: for ANY matrix P, weights w, amplitudes a and phases phi *)
Theorem C05_phase_grad : forall m n P w a phi j, (j < n)%nat ->
  is_derive (fun t => objective m n P w a (upd phi j t)) (phi j) (phase_grad m n P w a phi j).
Proof. exact phase_grad_correct. Qed.
Theorem C05_amp_grad : forall m n P w a phi j, (j < n)%nat ->
  is_derive (fun t => objective m n P w (upd a j t) phi) (a j) (amp_grad m n P w a phi j).
Proof. exact amp_grad_correct. Qed.
Theorem C05_jvp_linear : forall n P u v k (t0 : R),
  is_derive (fun t : R => fst (fwd n P (caxpy u v t) k)) t0 (fst (fwd n P v k)) /\
  is_derive (fun t : R => snd (fwd n P (caxpy u v t) k)) t0 (snd (fwd n P v k)).
Proof. exact jvp_linear. Qed.

(* where (x > t, k x^c + k0, l1 x + l0): the repair keeps every value and is autograd-safe on all of R \ {t};
   the code as found was safe for x > 0 only, and at black its reverse-mode gradient is singular although the
   function is differentiable there (known finding C05-lab-nan-at-black, fixed) *)
Theorem C05_where_pow_fixed_same_value : forall t c k k0 l1 l0 r,
  eval (wp_fixed t c k k0 l1 l0) r = eval (wp_orig t c k k0 l1 l0) r.
Proof. exact wp_fixed_same_value. Qed.
Theorem C05_where_pow_fixed_dom : forall t c k k0 l1 l0 r, 0 < Q2R t -> r 0%nat <> Q2R t -> dom (wp_fixed t c k k0 l1 l0) r.
Proof. exact wp_fixed_dom. Qed.
Theorem C05_where_pow_partial : forall t c k k0 l1 l0 r, 0 < r 0%nat -> r 0%nat <> Q2R t -> dom (wp_orig t c k k0 l1 l0) r.
Proof. exact wp_orig_partial. Qed.
Theorem C05_lab_refuted :
  ~ dom lab_f_orig black /\ ~ dom (D 0 lab_f_orig) black /\
  mdom lab_f_orig black /\ is_derive (fun t => eval lab_f_orig (upd black 0 t)) 0 (Q2R (841 # 108)).
Proof. exact lab_f_orig_refuted. Qed.
Theorem C05_lab_fixed : forall r, r 0%nat <> Q2R lab_t ->
  dom lab_f_fixed r /\ dom (D 0 lab_f_fixed) r /\ eval lab_f_fixed r = eval lab_f_orig r.
Proof. exact lab_f_fixed_dom. Qed.

(* non-vacuity: the repaired Lab nonlinearity at black is in the domain and has the derivative Coq computes *)
Example C05_instance : dom lab_f_fixed black /\
  is_derive (fun t => eval lab_f_fixed (upd black 0 t)) (black 0%nat) (eval (D 0 lab_f_fixed) black).
Proof. exact c05_instance. Qed.
