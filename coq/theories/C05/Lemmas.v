(* C05 - proofs. *)
From Coq Require Import Reals QArith Qreals Lra Lia List Arith Bool FunctionalExtensionality Psatz.
From Coquelicot Require Import Coquelicot.
From OdakV Require Import Base.RealAux Wave.Fields C05.Model.
Import ListNotations.
Open Scope R_scope.

(* ================================================================ environments, constants *)
Lemma upd_same r x : upd r x (r x) = r.
Proof. apply functional_extensionality. intros i. unfold upd. destruct (Nat.eqb i x) eqn:E; [apply Nat.eqb_eq in E; subst|]; reflexivity. Qed.
Lemma upd_at r x t : upd r x t x = t.
Proof. unfold upd. now rewrite Nat.eqb_refl. Qed.

Lemma Q2R_0 : Q2R 0 = 0. Proof. unfold Q2R; simpl; lra. Qed.
Lemma Q2R_1 : Q2R 1 = 1. Proof. unfold Q2R; simpl; lra. Qed.
Lemma Q2R_2 : Q2R 2 = 2. Proof. unfold Q2R; simpl; lra. Qed.
Lemma Q2R_inject_Z z : Q2R (inject_Z z) = IZR z. Proof. unfold Q2R, inject_Z; simpl; lra. Qed.

Lemma is0_eval e r : is0 e = true -> eval e r = 0.
Proof. destruct e; simpl; try discriminate. intros H. apply Qeq_bool_eq in H. rewrite (Qeq_eqR _ _ H). apply Q2R_0. Qed.
Lemma is1_eval e r : is1 e = true -> eval e r = 1.
Proof. destruct e; simpl; try discriminate. intros H. apply Qeq_bool_eq in H. rewrite (Qeq_eqR _ _ H). apply Q2R_1. Qed.

Lemma eval_sneg a r : eval (sneg a) r = - eval a r.
Proof. unfold sneg. destruct (is0 a) eqn:E; simpl; [rewrite (is0_eval _ r E), Q2R_0; lra | reflexivity]. Qed.
Lemma eval_sadd a b r : eval (sadd a b) r = eval a r + eval b r.
Proof. unfold sadd. destruct (is0 a) eqn:Ea; [rewrite (is0_eval _ r Ea); lra|].
  destruct (is0 b) eqn:Eb; [rewrite (is0_eval _ r Eb); lra|]. reflexivity. Qed.
Lemma eval_ssub a b r : eval (ssub a b) r = eval a r - eval b r.
Proof. unfold ssub. destruct (is0 b) eqn:Eb; [rewrite (is0_eval _ r Eb); lra|].
  destruct (is0 a) eqn:Ea; [rewrite (is0_eval _ r Ea); simpl; lra|]. reflexivity. Qed.
Lemma eval_smul a b r : eval (smul a b) r = eval a r * eval b r.
Proof. unfold smul. destruct (is0 a) eqn:Ea; simpl; [rewrite (is0_eval _ r Ea), Q2R_0; lra|].
  destruct (is0 b) eqn:Eb; simpl; [rewrite (is0_eval _ r Eb), Q2R_0; lra|].
  destruct (is1 a) eqn:Ea1; [rewrite (is1_eval _ r Ea1); lra|].
  destruct (is1 b) eqn:Eb1; [rewrite (is1_eval _ r Eb1); lra|]. reflexivity. Qed.
Lemma eval_sdiv a b r : eval (sdiv a b) r = eval a r / eval b r.
Proof. unfold sdiv. destruct (is0 a) eqn:Ea; simpl; [rewrite (is0_eval _ r Ea), Q2R_0; unfold Rdiv; lra | reflexivity]. Qed.
Lemma eval_site a b x y r : eval (site a b x y) r = if Rlt_dec (eval a r) (eval b r) then eval x r else eval y r.
Proof. unfold site. destruct (is0 x) eqn:Ex; destruct (is0 y) eqn:Ey; simpl; try reflexivity.
  rewrite (is0_eval _ r Ex), (is0_eval _ r Ey), Q2R_0. now destruct (Rlt_dec _ _). Qed.
Lemma eval_cnat n r : eval (cnat n) r = INR n.
Proof. unfold cnat; simpl. rewrite Q2R_inject_Z. symmetry. apply INR_IZR_INZ. Qed.

(* the smart constructors preserve the domain *)
Lemma dom_sneg a r : dom a r -> dom (sneg a) r.
Proof. unfold sneg. destruct (is0 a); simpl; auto. Qed.
Lemma dom_sadd a b r : dom a r -> dom b r -> dom (sadd a b) r.
Proof. unfold sadd. destruct (is0 a), (is0 b); simpl; auto. Qed.
Lemma dom_ssub a b r : dom a r -> dom b r -> dom (ssub a b) r.
Proof. unfold ssub. destruct (is0 a), (is0 b); simpl; auto. Qed.
Lemma dom_smul a b r : dom a r -> dom b r -> dom (smul a b) r.
Proof. unfold smul. destruct (is0 a), (is0 b), (is1 a), (is1 b); simpl; auto. Qed.
Lemma dom_sdiv a b r : dom a r -> dom b r -> eval b r <> 0 -> dom (sdiv a b) r.
Proof. unfold sdiv. destruct (is0 a); simpl; auto. Qed.
Lemma dom_site a b x y r : dom a r -> dom b r -> strict a b r -> dom x r -> dom y r -> dom (site a b x y) r.
Proof. unfold site. destruct (is0 x && is0 y); simpl; auto. Qed.
Lemma dom_cnat n r : dom (cnat n) r. Proof. exact I. Qed.

(* ================================================================ the derivative is correct *)
Ltac fin := unfold plus, scal, mult, minus, opp; cbn; unfold mult; cbn.
Lemma add_case (f g : R -> R) x0 a b : is_derive f x0 a -> is_derive g x0 b -> is_derive (fun t => f t + g t) x0 (a + b).
Proof. intros Hf Hg. apply (is_derive_plus f g x0 a b Hf Hg). Qed.
Lemma sub_case (f g : R -> R) x0 a b : is_derive f x0 a -> is_derive g x0 b -> is_derive (fun t => f t - g t) x0 (a - b).
Proof. intros Hf Hg. apply (is_derive_minus f g x0 a b Hf Hg). Qed.
Lemma neg_case (f : R -> R) x0 a : is_derive f x0 a -> is_derive (fun t => - f t) x0 (- a).
Proof. intros Hf. apply (is_derive_opp f x0 a Hf). Qed.
Lemma mul_case (f g : R -> R) x0 a b : is_derive f x0 a -> is_derive g x0 b ->
  is_derive (fun t => f t * g t) x0 (a * g x0 + f x0 * b).
Proof. intros Hf Hg. evar_last. apply (is_derive_mult f g x0 a b Hf Hg). intros; apply Rmult_comm. fin. ring. Qed.
Lemma div_case (f g : R -> R) x0 a b : is_derive f x0 a -> is_derive g x0 b -> g x0 <> 0 ->
  is_derive (fun t => f t / g t) x0 (a / g x0 - f x0 / (g x0 * g x0) * b).
Proof. intros Hf Hg Hz. evar_last. apply (is_derive_div f g x0 a b Hf Hg Hz). fin. field. exact Hz. Qed.
Lemma comp_case (h f : R -> R) x0 a dh : is_derive h (f x0) dh -> is_derive f x0 a ->
  is_derive (fun t => h (f t)) x0 (dh * a).
Proof. intros Hh Hf. evar_last. apply (is_derive_comp h f x0 dh a Hh Hf). fin. ring. Qed.
Lemma pow_case (f : R -> R) x0 a k : is_derive f x0 a -> is_derive (fun t => f t ^ S k) x0 (INR (S k) * f x0 ^ k * a).
Proof. intros Hf. evar_last. apply (is_derive_pow f (S k) x0 a Hf). fin. ring. Qed.
Lemma sqrt_case (f : R -> R) x0 a : is_derive f x0 a -> 0 < f x0 -> is_derive (fun t => sqrt (f t)) x0 (a / (2 * sqrt (f x0))).
Proof. intros Hf Hp. apply (is_derive_sqrt f x0 a Hf Hp). Qed.
Lemma rpw_case (f : R -> R) x0 a c : is_derive f x0 a -> 0 < f x0 ->
  is_derive (fun t => Rpower (f t) c) x0 (c * Rpower (f x0) (c - 1) * a).
Proof. intros Hf Hp. apply (comp_case (fun u => Rpower u c) f x0 a); [|exact Hf].
  apply is_derive_Reals. apply derivable_pt_lim_power. exact Hp. Qed.

(* ---- atan2 away from the cut: three closed forms, each valid on an open half plane *)
Lemma atan2_right y x : 0 < x -> atan2 y x = atan (y / x).
Proof. intros H. unfold atan2. destruct (Rlt_dec 0 x); [reflexivity | lra]. Qed.
Lemma atan2_upper y x : 0 < y -> atan2 y x = PI / 2 - atan (x / y).
Proof. intros Hy. unfold atan2. destruct (Rlt_dec 0 x) as [Hx|Hx].
  - replace (y / x) with (/ (x / y)) by (field; lra). rewrite atan_inv; [reflexivity|].
    apply Rdiv_lt_0_compat; lra.
  - destruct (Rlt_dec x 0) as [Hx'|Hx'].
    + destruct (Rle_dec 0 y); [|lra].
      replace (y / x) with (- / ((- x) / y)) by (field; lra). rewrite atan_opp, atan_inv by (apply Rdiv_lt_0_compat; lra).
      replace (- x / y) with (- (x / y)) by (field; lra). rewrite atan_opp. lra.
    + assert (x = 0) by lra. subst x. destruct (Rlt_dec 0 y); [|lra].
      replace (0 / y) with 0 by (field; lra). rewrite atan_0. lra.
Qed.
Lemma atan2_lower y x : y < 0 -> atan2 y x = - (PI / 2) - atan (x / y).
Proof. intros Hy. unfold atan2. destruct (Rlt_dec 0 x) as [Hx|Hx].
  - replace (y / x) with (- / (x / (- y))) by (field; lra). rewrite atan_opp, atan_inv by (apply Rdiv_lt_0_compat; lra).
    replace (x / - y) with (- (x / y)) by (field; lra). rewrite atan_opp. lra.
  - destruct (Rlt_dec x 0) as [Hx'|Hx'].
    + destruct (Rle_dec 0 y); [lra|].
      replace (y / x) with (/ (x / y)) by (field; lra).
      rewrite atan_inv. lra. replace (x / y) with ((- x) / (- y)) by (field; lra). apply Rdiv_lt_0_compat; lra.
    + assert (x = 0) by lra. subst x. destruct (Rlt_dec 0 y); [lra|]. destruct (Rlt_dec y 0); [|lra].
      replace (0 / y) with 0 by (field; lra). rewrite atan_0. lra.
Qed.

Lemma cont_locally_lt (f g : R -> R) x0 : continuous f x0 -> continuous g x0 -> f x0 < g x0 ->
  locally x0 (fun t => f t < g t).
Proof. intros Hf Hg H.
  assert (Hc : continuous (fun t => g t - f t) x0).
  { apply (continuous_minus (V := R_NormedModule) g f x0 Hg Hf). }
  assert (Ho : locally (g x0 - f x0) (fun u : R => 0 < u)).
  { apply (open_gt 0). lra. }
  specialize (Hc _ Ho). unfold filtermap in Hc. revert Hc. apply filter_imp. intros t Ht. lra. Qed.

Lemma derive_cont (f : R -> R) x0 a : is_derive f x0 a -> continuous f x0.
Proof. intros H. apply (ex_derive_continuous (V := R_NormedModule) f x0). exists a. exact H. Qed.

Lemma atan_comp_case (f : R -> R) x0 a : is_derive f x0 a -> is_derive (fun t => atan (f t)) x0 (/ (1 + (f x0)²) * a).
Proof. intros Hf. apply (comp_case atan f x0 a); [apply is_derive_atan | exact Hf]. Qed.

Lemma atan2_case (fy fx : R -> R) x0 ay ax : is_derive fy x0 ay -> is_derive fx x0 ax ->
  (0 < fx x0 \/ fy x0 <> 0) ->
  is_derive (fun t => atan2 (fy t) (fx t)) x0 ((fx x0 * ay - fy x0 * ax) / (fx x0 * fx x0 + fy x0 * fy x0)).
Proof. intros Hy Hx Hd. pose proof (derive_cont _ _ _ Hy) as Cy. pose proof (derive_cont _ _ _ Hx) as Cx.
  assert (C0 : continuous (fun _ : R => 0) x0) by apply continuous_const.
  destruct Hd as [Hp|Hn].
  - apply (is_derive_ext_loc (fun t => atan (fy t / fx t))).
    { generalize (cont_locally_lt (fun _ => 0) fx x0 C0 Cx Hp). apply filter_imp. intros t Ht. symmetry. apply atan2_right. exact Ht. }
    evar_last. apply atan_comp_case. apply (div_case fy fx x0 ay ax Hy Hx). lra.
    unfold Rsqr. field. split; nra.
  - destruct (Rdichotomy _ _ Hn) as [Hlt|Hgt].
    + apply (is_derive_ext_loc (fun t => - (PI / 2) - atan (fx t / fy t))).
      { generalize (cont_locally_lt fy (fun _ => 0) x0 Cy C0 Hlt). apply filter_imp. intros t Ht. symmetry. apply atan2_lower. exact Ht. }
      evar_last. apply sub_case. apply (@is_derive_const R_AbsRing R_NormedModule).
      apply atan_comp_case. apply (div_case fx fy x0 ax ay Hx Hy). lra.
      unfold Rsqr, zero; cbn. field. split; nra.
    + apply (is_derive_ext_loc (fun t => PI / 2 - atan (fx t / fy t))).
      { generalize (cont_locally_lt (fun _ => 0) fy x0 C0 Cy Hgt). apply filter_imp. intros t Ht. symmetry. apply atan2_upper. exact Ht. }
      evar_last. apply sub_case. apply (@is_derive_const R_AbsRing R_NormedModule).
      apply atan_comp_case. apply (div_case fx fy x0 ax ay Hx Hy). lra.
      unfold Rsqr, zero; cbn. field. split; nra.
Qed.

(* ---- piecewise constant sub-expressions, floor *)
Lemma Int_part_unique t z : IZR z < t -> t < IZR z + 1 -> Int_part t = z.
Proof. intros H1 H2. unfold Int_part. rewrite <- (tech_up t (z + 1)); [lia | rewrite plus_IZR; lra | rewrite plus_IZR; lra]. Qed.

Lemma floor_locally u : u <> Rfloor u -> locally u (fun t => Rfloor t = Rfloor u).
Proof. intros Hn. unfold Rfloor in *. destruct (base_Int_part u) as [H1 H2].
  assert (Ho : open (fun t : R => IZR (Int_part u) < t /\ t < IZR (Int_part u) + 1)).
  { apply open_and; [apply open_gt | apply open_lt]. }
  assert (Hu : IZR (Int_part u) < u /\ u < IZR (Int_part u) + 1) by (split; lra).
  generalize (Ho u Hu). apply filter_imp. intros t [Ht1 Ht2]. f_equal. now apply Int_part_unique. Qed.

Lemma derive_of_lc (f : R -> R) x0 c : locally x0 (fun t => f t = c) -> is_derive f x0 0.
Proof. intros H. apply (is_derive_ext_loc (fun _ => c)).
  - revert H. apply filter_imp. intros t Ht. now rewrite Ht.
  - apply (@is_derive_const R_AbsRing R_NormedModule). Qed.

(* ---- differentiation along a curve of environments gam : R -> envT through rd = gam t0 *)
Section Curve.
Variable gam : R -> envT.
Variable t0 : R.
Variable rd : envT.
Hypothesis Hat : gam t0 = rd.

Definition path (e : expr) : R -> R := fun t => eval e (gam t).
Definition lc (e : expr) : Prop := locally t0 (fun t => path e t = eval e rd).

Lemma path_at e : path e t0 = eval e rd.
Proof. unfold path. now rewrite Hat. Qed.

Lemma lc_un a (h : R -> R) : lc a -> locally t0 (fun t => h (path a t) = h (eval a rd)).
Proof. unfold lc. apply filter_imp. intros t Ht. now rewrite Ht. Qed.
Lemma lc_bin a b (h : R -> R -> R) : lc a -> lc b ->
  locally t0 (fun t => h (path a t) (path b t) = h (eval a rd) (eval b rd)).
Proof. unfold lc. intros Ha Hb. generalize (filter_and _ _ Ha Hb). apply filter_imp. intros t [H1 H2]. now rewrite H1, H2. Qed.

(* the branch of an `Ite` is locally the selected one *)
Lemma ite_stable a b u v :
  continuous (path a) t0 -> continuous (path b) t0 ->
  (lconst a = true -> lc a) -> (lconst b = true -> lc b) -> strict a b rd ->
  locally t0 (fun t => path (Ite a b u v) t =
                       if Rlt_dec (eval a rd) (eval b rd) then path u t else path v t).
Proof. intros Ca Cb La Lb Hs.
  assert (Hu : forall t, path (Ite a b u v) t = if Rlt_dec (path a t) (path b t) then path u t else path v t) by reflexivity.
  destruct Hs as [Hne | Hl].
  - destruct (Rlt_dec (eval a rd) (eval b rd)) as [Hlt | Hge].
    + assert (H : path a t0 < path b t0) by (rewrite !path_at; exact Hlt).
      generalize (cont_locally_lt _ _ _ Ca Cb H). apply filter_imp. intros t Ht. rewrite Hu.
      destruct (Rlt_dec (path a t) (path b t)); [reflexivity | lra].
    + assert (H : path b t0 < path a t0) by (rewrite !path_at; lra).
      generalize (cont_locally_lt _ _ _ Cb Ca H). apply filter_imp. intros t Ht. rewrite Hu.
      destruct (Rlt_dec (path a t) (path b t)); [lra | reflexivity].
  - apply andb_true_iff in Hl. destruct Hl as [Hla Hlb].
    generalize (filter_and _ _ (La Hla) (Lb Hlb)). apply filter_imp. intros t [H1 H2]. now rewrite Hu, H1, H2.
Qed.

Variable dv : nat -> expr.
Variable kb : nat.
Hypothesis Hdv : forall i, (i < kb)%nat -> is_derive (fun t => gam t i) t0 (eval (dv i) rd).

Theorem Dg_main e : bounded kb e = true -> mdom e rd ->
  is_derive (path e) t0 (eval (Dg dv e) rd) /\ (lconst e = true -> lc e).
Proof.
  assert (E : forall e0, path e0 t0 = eval e0 rd) by (intros; apply path_at).
  unfold lc.
  induction e as [i|q| |a IHa b IHb|a IHa b IHb|a IHa b IHb|a IHa b IHb|a IHa|a IHa n|a IHa|a IHa|a IHa|a IHa|a IHa
                 |y IHy x0 IHx|a IHa c|a IHa|a IHa|a IHa b IHb u IHu v IHv];
    cbn [mdom Dg lconst bounded]; intros Hb Hd;
    repeat match goal with H : _ && _ = true |- _ => apply andb_true_iff in H; destruct H end.
  - (* Var *) split; [|discriminate]. apply Nat.ltb_lt in Hb. apply (Hdv i Hb).
  - (* Cst *) split.
    + cbn [eval]. rewrite Q2R_0. apply (@is_derive_const R_AbsRing R_NormedModule (Q2R q) t0).
    + intros _. apply filter_forall. reflexivity.
  - (* Pi *) split.
    + cbn [eval]. rewrite Q2R_0. apply (@is_derive_const R_AbsRing R_NormedModule PI t0).
    + intros _. apply filter_forall. reflexivity.
  - (* Add *) destruct Hd as [Ha Hb']. destruct (IHa H Ha) as [Da La], (IHb H0 Hb') as [Db Lb]. split.
    + rewrite eval_sadd. apply (add_case _ _ _ _ _ Da Db).
    + intros HH. apply andb_true_iff in HH. destruct HH as [H1 H2]. apply (lc_bin a b Rplus (La H1) (Lb H2)).
  - (* Sub *) destruct Hd as [Ha Hb']. destruct (IHa H Ha) as [Da La], (IHb H0 Hb') as [Db Lb]. split.
    + rewrite eval_ssub. apply (sub_case _ _ _ _ _ Da Db).
    + intros HH. apply andb_true_iff in HH. destruct HH as [H1 H2]. apply (lc_bin a b Rminus (La H1) (Lb H2)).
  - (* Mul *) destruct Hd as [Ha Hb']. destruct (IHa H Ha) as [Da La], (IHb H0 Hb') as [Db Lb]. split.
    + rewrite eval_sadd, !eval_smul. pose proof (mul_case _ _ _ _ _ Da Db) as HH. cbv beta in HH. rewrite !E in HH. exact HH.
    + intros HH. apply andb_true_iff in HH. destruct HH as [H1 H2]. apply (lc_bin a b Rmult (La H1) (Lb H2)).
  - (* Div *) destruct Hd as [Ha [Hb' Hz]]. destruct (IHa H Ha) as [Da La], (IHb H0 Hb') as [Db Lb]. split.
    + rewrite eval_ssub, eval_sdiv, eval_smul. cbn [eval].
      pose proof (div_case _ _ _ _ _ Da Db) as HH. cbv beta in HH. rewrite !E in HH. apply HH. exact Hz.
    + intros HH. apply andb_true_iff in HH. destruct HH as [H1 H2]. apply (lc_bin a b Rdiv (La H1) (Lb H2)).
  - (* Neg *) destruct (IHa Hb Hd) as [Da La]. split.
    + rewrite eval_sneg. apply (neg_case _ _ _ Da).
    + intros HH. apply (lc_un a Ropp (La HH)).
  - (* Pow *) destruct (IHa Hb Hd) as [Da _]. split; [|discriminate]. destruct n as [|k].
    + cbn [eval]. rewrite Q2R_0. apply (is_derive_ext (fun _ => 1)); [reflexivity|].
      apply (@is_derive_const R_AbsRing R_NormedModule 1 t0).
    + rewrite !eval_smul, eval_cnat. cbn [eval].
      pose proof (pow_case _ _ _ k Da) as HH. cbv beta in HH. rewrite !E in HH. exact HH.
  - (* Sqrt *) destruct Hd as [Ha Hp]. destruct (IHa Hb Ha) as [Da _]. split; [|discriminate].
    rewrite eval_sdiv. cbn [eval]. rewrite Q2R_2.
    pose proof (sqrt_case _ _ _ Da) as HH. cbv beta in HH. rewrite !E in HH. apply HH. exact Hp.
  - (* Sin *) destruct (IHa Hb Hd) as [Da _]. split; [|discriminate]. rewrite eval_smul. cbn [eval].
    pose proof (comp_case sin _ _ _ _ (is_derive_sin _) Da) as HH. cbv beta in HH. rewrite !E in HH. exact HH.
  - (* Cos *) destruct (IHa Hb Hd) as [Da _]. split; [|discriminate]. rewrite eval_smul. cbn [eval].
    pose proof (comp_case cos _ _ _ _ (is_derive_cos _) Da) as HH. cbv beta in HH. rewrite !E in HH. exact HH.
  - (* Exp *) destruct (IHa Hb Hd) as [Da _]. split; [|discriminate]. rewrite eval_smul. cbn [eval].
    pose proof (comp_case exp _ _ _ _ (is_derive_exp _) Da) as HH. cbv beta in HH. rewrite !E in HH. exact HH.
  - (* Ln *) destruct Hd as [Ha Hp]. destruct (IHa Hb Ha) as [Da _]. split; [|discriminate]. rewrite eval_sdiv.
    assert (Hp' : 0 < path a t0) by (rewrite E; exact Hp).
    pose proof (comp_case ln _ _ _ _ (is_derive_ln _ Hp') Da) as HH. cbv beta in HH. rewrite !E in HH.
    evar_last. exact HH. unfold Rdiv. ring.
  - (* Atan2 *) destruct Hd as [Hy [Hx Hc]]. destruct (IHy H Hy) as [Dy _], (IHx H0 Hx) as [Dx _]. split; [|discriminate].
    rewrite eval_sdiv, eval_ssub, !eval_smul. cbn [eval].
    pose proof (atan2_case _ _ _ _ _ Dy Dx) as HH. cbv beta in HH. rewrite !E in HH. apply HH. exact Hc.
  - (* Rpw *) destruct Hd as [Ha Hp]. destruct (IHa Hb Ha) as [Da _]. split; [|discriminate].
    rewrite !eval_smul. cbn [eval]. rewrite Q2R_minus, Q2R_1.
    pose proof (rpw_case _ _ _ (Q2R c) Da) as HH. cbv beta in HH. rewrite !E in HH. apply HH. exact Hp.
  - (* Abs *) destruct Hd as [Ha Hn]. destruct (IHa Hb Ha) as [Da _]. split; [|discriminate].
    rewrite eval_site, eval_sneg. cbn [eval]. rewrite Q2R_0.
    assert (Hn' : path a t0 <> 0) by (rewrite E; exact Hn).
    pose proof (is_derive_Rabs _ _ _ Da Hn') as HH. cbv beta in HH. rewrite !E in HH.
    evar_last. exact HH.
    destruct (Rlt_dec 0 (eval a rd)) as [Hp | Hp].
    + rewrite sign_eq_1 by exact Hp. ring.
    + rewrite sign_eq_m1 by lra. ring.
  - (* Floor *) destruct Hd as [Ha Hn]. destruct (IHa Hb Ha) as [Da La].
    assert (L : lc (Floor a)).
    { unfold lc. destruct Hn as [Hl | Hn].
      - apply (lc_un a Rfloor (La Hl)).
      - pose proof (derive_cont _ _ _ Da) as Ca.
        assert (Hn' : path a t0 <> Rfloor (path a t0)) by (rewrite E; exact Hn).
        pose proof (floor_locally _ Hn') as Hf. specialize (Ca _ Hf). unfold filtermap in Ca.
        revert Ca. apply filter_imp. intros t Ht.
        change (Rfloor (path a t) = Rfloor (eval a rd)). rewrite Ht, E. reflexivity. }
    split; [|intros _; exact L]. cbn [eval]. rewrite Q2R_0. apply (derive_of_lc _ _ _ L).
  - (* Ite *) destruct Hd as [Ha [Hb' [Hs Hbr]]]. destruct (IHa H Ha) as [Da La], (IHb H2 Hb') as [Db Lb].
    pose proof (ite_stable a b u v (derive_cont _ _ _ Da) (derive_cont _ _ _ Db) La Lb Hs) as Hst.
    rewrite eval_site. cbn [eval].
    destruct (Rlt_dec (eval a rd) (eval b rd)) as [Hlt | Hge].
    + destruct (IHu H1 Hbr) as [Du Lu]. split.
      * apply (is_derive_ext_loc (path u)); [|exact Du]. revert Hst. apply filter_imp. intros t Ht. now rewrite Ht.
      * intros HH. apply andb_true_iff in HH. destruct HH as [H3 _].
        generalize (filter_and _ _ Hst (Lu H3)). apply filter_imp. intros t [H4 H5]. now rewrite H4, H5.
    + destruct (IHv H0 Hbr) as [Dv Lv]. split.
      * apply (is_derive_ext_loc (path v)); [|exact Dv]. revert Hst. apply filter_imp. intros t Ht. now rewrite Ht.
      * intros HH. apply andb_true_iff in HH. destruct HH as [_ H4].
        generalize (filter_and _ _ Hst (Lv H4)). apply filter_imp. intros t [H5 H6]. now rewrite H5, H6.
Qed.
End Curve.

(* a bound on the variables of an expression *)
Fixpoint vbound (e : expr) : nat :=
  match e with
  | Var i => S i
  | Cst _ | CPi => O
  | Add a b | Sub a b | Mul a b | Div a b | Atan2 a b => Nat.max (vbound a) (vbound b)
  | Neg a | Pow a _ | Sqrt a | Sin a | Cos a | Exp a | Ln a | Rpw a _ | Abs a | Floor a => vbound a
  | Ite a b x y => Nat.max (Nat.max (vbound a) (vbound b)) (Nat.max (vbound x) (vbound y))
  end.
Lemma bounded_vbound e k : (vbound e <= k)%nat -> bounded k e = true.
Proof. revert k. induction e; cbn [vbound bounded]; intros k Hk; rewrite ?andb_true_iff; repeat split;
  try reflexivity; try (apply Nat.ltb_lt; lia); auto;
  match goal with IH : forall k, _ -> bounded k ?a = true |- bounded _ ?a = true => apply IH; lia end. Qed.

Theorem chain_rule (gam : R -> envT) (t0 : R) (dv : nat -> expr) (kb : nat) e :
  (forall i, (i < kb)%nat -> is_derive (fun t => gam t i) t0 (eval (dv i) (gam t0))) ->
  bounded kb e = true -> mdom e (gam t0) ->
  is_derive (fun t => eval e (gam t)) t0 (eval (Dg dv e) (gam t0)).
Proof. intros Hv Hb Hd. exact (proj1 (Dg_main gam t0 (gam t0) eq_refl dv kb Hv e Hb Hd)). Qed.

Theorem D_main r x e : mdom e r ->
  is_derive (fun t => eval e (upd r x t)) (r x) (eval (D x e) r).
Proof. intros Hd. unfold D.
  assert (Hv : forall i, (i < vbound e)%nat -> is_derive (fun t => upd r x t i) (r x) (eval (dx x i) r)).
  { intros i _. unfold upd, dx. destruct (Nat.eqb i x) eqn:Ex; cbn [eval].
    - rewrite Q2R_1. apply (is_derive_id (r x)).
    - rewrite Q2R_0. apply (@is_derive_const R_AbsRing R_NormedModule (r i) (r x)). }
  exact (proj1 (Dg_main (fun t => upd r x t) (r x) r (upd_same r x) (dx x) (vbound e) Hv e
                        (bounded_vbound e _ (le_n _)) Hd)).
Qed.

Theorem D_correct_m r x e : mdom e r -> is_derive (fun t => eval e (upd r x t)) (r x) (eval (D x e) r).
Proof. exact (D_main r x e). Qed.

Lemma dom_mdom e r : dom e r -> mdom e r.
Proof. induction e; cbn [dom mdom]; try tauto.
  intros [Ha [Hb [Hs [Hx Hy]]]]. repeat split; auto. destruct (Rlt_dec _ _); auto. Qed.

Theorem D_correct r x e : dom e r -> is_derive (fun t => eval e (upd r x t)) (r x) (eval (D x e) r).
Proof. intros H. apply D_correct_m, dom_mdom, H. Qed.

(* the gradient expression has no singular sub-expression on the autograd-safe domain *)
Theorem dom_Dg r dv e : (forall i, dom (dv i) r) -> dom e r -> dom (Dg dv e) r.
Proof. intros Hdv.
  induction e as [i|q| |a IHa b IHb|a IHa b IHb|a IHa b IHb|a IHa b IHb|a IHa|a IHa n|a IHa|a IHa|a IHa|a IHa|a IHa
                 |y IHy x0 IHx|a IHa c|a IHa|a IHa|a IHa b IHb u IHu v IHv];
    cbn [dom Dg]; intros Hd.
  - apply Hdv.
  - exact I.
  - exact I.
  - destruct Hd. apply dom_sadd; auto.
  - destruct Hd. apply dom_ssub; auto.
  - destruct Hd. apply dom_sadd; apply dom_smul; auto.
  - destruct Hd as [Ha [Hb Hz]]. apply dom_ssub; [apply dom_sdiv; auto|]. apply dom_smul; auto.
    cbn [dom eval]. split; [exact Ha | split; [split; exact Hb | intros H0; apply Hz; nra]].
  - apply dom_sneg; auto.
  - destruct n as [|k]; [exact I|]. apply dom_smul; auto. apply dom_smul; [apply dom_cnat | exact Hd].
  - destruct Hd as [Ha Hp]. apply dom_sdiv; auto. cbn [dom]. tauto.
    cbn [eval]. rewrite Q2R_2. pose proof (sqrt_lt_R0 _ Hp). lra.
  - apply dom_smul; auto.
  - apply dom_smul; auto.
  - apply dom_smul; auto.
  - destruct Hd as [Ha Hp]. apply dom_sdiv; auto. lra.
  - destruct Hd as [Hy [Hx Hc]]. apply dom_sdiv.
    + apply dom_ssub; apply dom_smul; auto.
    + cbn [dom]. tauto.
    + cbn [eval]. intros H0. destruct Hc; nra.
  - destruct Hd as [Ha Hp]. apply dom_smul; auto. apply dom_smul; [exact I|]. cbn [dom]. tauto.
  - destruct Hd as [Ha Hn]. apply dom_site; auto. exact I. left. cbn [eval]. rewrite Q2R_0. auto. apply dom_sneg; auto.
  - exact I.
  - destruct Hd as [Ha [Hb [Hs [Hu Hv0]]]]. apply dom_site; auto.
Qed.

Theorem dom_D r x e : dom e r -> dom (D x e) r.
Proof. apply dom_Dg. intros i. unfold dx. destruct (Nat.eqb i x); exact I. Qed.

Theorem conds_iff r e : List.Forall (holds r) (conds e) <-> dom e r.
Proof. induction e; cbn [conds dom]; rewrite ?Forall_app, ?Forall_cons_iff, ?Forall_nil_iff; cbn [holds]; tauto. Qed.

(* the gradient (all partial derivatives) of a traced objective *)
Theorem grad_correct r n e : dom e r ->
  forall i, (i < n)%nat ->
    is_derive (fun t => eval e (upd r i t)) (r i) (eval (nth i (grad n e) (Cst 0)) r) /\ dom (nth i (grad n e) (Cst 0)) r.
Proof. intros Hd i Hi. unfold grad.
  rewrite (nth_indep _ (Cst 0) (D 0 e)) by (rewrite map_length, seq_length; exact Hi).
  rewrite (map_nth (fun j => D j e)), seq_nth by exact Hi. cbn. split; [apply D_correct | apply dom_D]; exact Hd. Qed.

(* ================================================================ straight-line programs: forward-mode tangents *)
Lemma eval_agree k e r1 r2 : (forall i, (i < k)%nat -> r1 i = r2 i) -> bounded k e = true -> eval e r1 = eval e r2.
Proof. intros Hag. induction e; cbn [bounded eval]; intros Hb;
  repeat match goal with H : _ && _ = true |- _ => apply andb_true_iff in H; destruct H end;
  try reflexivity;
  try (apply Nat.ltb_lt in Hb; now apply Hag);
  repeat match goal with IH : bounded k ?a = true -> _, H : bounded k ?a = true |- _ => rewrite (IH H); clear IH end;
  reflexivity. Qed.

Lemma ssa_gen M p : forall k (gam : R -> envT) (rT : envT) (t0 : R),
  (k + length p <= M)%nat -> wf p k = true -> pdomT M p k rT ->
  (forall i, (i < M)%nat -> gam t0 i = rT i) ->
  (forall i, (i < k)%nat -> is_derive (fun t => gam t i) t0 (rT (i + M)%nat)) ->
  forall s, (s < k + length p)%nat -> is_derive (fun t => run p k (gam t) s) t0 (runT M p k rT (s + M)%nat).
Proof. induction p as [|e q IH]; intros k gam rT t0 Hlen Hwf Hpd HA HB s Hs; cbn [run runT wf pdomT length] in *.
  - apply HB. lia.
  - apply andb_true_iff in Hwf. destruct Hwf as [Hbe Hwq]. destruct Hpd as [Hme Hpq].
    assert (Hagk : forall i, (i < k)%nat -> gam t0 i = rT i) by (intros; apply HA; lia).
    apply (IH (S k) (fun t => upd (gam t) k (eval e (gam t)))
              (upd (upd rT k (eval e rT)) (k + M) (eval (Dg (dvk k M) e) rT)) t0); try lia; auto.
    + (* agreement *) intros i Hi. unfold upd.
      destruct (Nat.eqb i (k + M)) eqn:E1; [apply Nat.eqb_eq in E1; lia|].
      destruct (Nat.eqb i k) eqn:E2; [|apply HA; exact Hi].
      apply (eval_agree k); auto.
    + (* tangents *) intros i Hi. unfold upd.
      destruct (Nat.eqb i k) eqn:E2.
      * apply Nat.eqb_eq in E2. subst i. rewrite Nat.eqb_refl.
        set (gamH := fun (t : R) (i : nat) => if i <? k then gam t i else rT i).
        assert (H0 : gamH t0 = rT).
        { apply functional_extensionality. intros i. unfold gamH. destruct (i <? k) eqn:E; [apply Nat.ltb_lt in E; auto | reflexivity]. }
        assert (Hdv : forall i, (i < k)%nat -> is_derive (fun t => gamH t i) t0 (eval (dvk k M i) rT)).
        { intros i Hik. unfold gamH, dvk. apply Nat.ltb_lt in Hik. rewrite Hik. cbn [eval]. apply HB. apply Nat.ltb_lt. exact Hik. }
        pose proof (proj1 (Dg_main gamH t0 rT H0 (dvk k M) k Hdv e Hbe Hme)) as Hd.
        apply (is_derive_ext (path gamH e)); [|exact Hd].
        intros t. unfold path. apply (eval_agree k); auto.
        intros i Hik. unfold gamH. apply Nat.ltb_lt in Hik. now rewrite Hik.
      * apply Nat.eqb_neq in E2.
        destruct (Nat.eqb (i + M) (k + M)) eqn:E3; [apply Nat.eqb_eq in E3; lia|].
        destruct (Nat.eqb (i + M) k) eqn:E4; [apply Nat.eqb_eq in E4; lia|].
        apply HB. lia.
Qed.

(* Seed the tangent of input x with 1, all other tangents with 0, run values and tangents in turn: the tangent
   slot of every program variable then holds its partial derivative with respect to input x. *)
Theorem ssa_correct M n p r x : (n + length p <= M)%nat -> (x < n)%nat -> wf p n = true ->
  pdomT M p n (seed M x r) ->
  forall s, (s < n + length p)%nat ->
    is_derive (fun t => run p n (upd r x t) s) (r x) (runT M p n (seed M x r) (s + M)%nat).
Proof. intros Hlen Hx Hwf Hpd s Hs.
  apply (ssa_gen M p n (fun t => upd r x t) (seed M x r) (r x)); auto.
  - intros i Hi. rewrite upd_same. unfold seed. apply Nat.ltb_lt in Hi. now rewrite Hi.
  - intros i Hi. unfold seed, upd.
    destruct (i + M <? M) eqn:E; [apply Nat.ltb_lt in E; lia|].
    destruct (Nat.eqb i x) eqn:E1.
    + apply Nat.eqb_eq in E1. subst i. rewrite Nat.eqb_refl. apply (is_derive_id (r x)).
    + apply Nat.eqb_neq in E1. destruct (Nat.eqb (i + M) (x + M)) eqn:E2; [apply Nat.eqb_eq in E2; lia|].
      apply (@is_derive_const R_AbsRing R_NormedModule (r i) (r x)).
Qed.

(* the tangent expressions Coq prints are singularity free wherever the instruction is *)
Lemma dom_dvk k M i r : dom (dvk k M i) r.
Proof. unfold dvk. destruct (i <? k); exact I. Qed.

Theorem tangent_dom M k e r : dom e r -> dom (Dg (dvk k M) e) r.
Proof. apply dom_Dg. intros i. apply dom_dvk. Qed.

(* ================================================================ exact rational evaluation *)
Lemma Q2R_pow_nat u n : Q2R (Qpow_nat u n) = Q2R u ^ n.
Proof. induction n; cbn [Qpow_nat pow]; [apply Q2R_1 | rewrite Q2R_mult, IHn; reflexivity]. Qed.

Theorem evalQ_sound e q v : evalQ e q = Some v -> eval e (fun i => Q2R (q i)) = Q2R v.
Proof. revert v. induction e; cbn [evalQ eval]; intros v0 H; try discriminate.
  - now inversion H.
  - now inversion H.
  - destruct (evalQ e1 q), (evalQ e2 q); try discriminate. cbn in H. inversion H. rewrite Q2R_plus, (IHe1 _ eq_refl), (IHe2 _ eq_refl). reflexivity.
  - destruct (evalQ e1 q), (evalQ e2 q); try discriminate. cbn in H. inversion H. rewrite Q2R_minus, (IHe1 _ eq_refl), (IHe2 _ eq_refl). reflexivity.
  - destruct (evalQ e1 q), (evalQ e2 q); try discriminate. cbn in H. inversion H. rewrite Q2R_mult, (IHe1 _ eq_refl), (IHe2 _ eq_refl). reflexivity.
  - destruct (evalQ e1 q) as [u|], (evalQ e2 q) as [w|]; try discriminate. cbn in H.
    destruct (Qeq_bool w 0) eqn:Ew; [discriminate|]. inversion H.
    rewrite Q2R_div, (IHe1 _ eq_refl), (IHe2 _ eq_refl); [reflexivity|].
    intros Hz. apply Qeq_bool_iff in Hz. congruence.
  - destruct (evalQ e q); try discriminate. inversion H. rewrite Q2R_opp, (IHe _ eq_refl). reflexivity.
  - destruct (evalQ e q); try discriminate. inversion H. rewrite Q2R_pow_nat, (IHe _ eq_refl). reflexivity.
  - destruct (evalQ e1 q) as [u|], (evalQ e2 q) as [w|]; try discriminate.
    rewrite (IHe1 _ eq_refl), (IHe2 _ eq_refl).
    destruct (Qlt_le_dec u w) as [Hl | Hl].
    + apply Qlt_Rlt in Hl. destruct (Rlt_dec (Q2R u) (Q2R w)); [auto | lra].
    + apply Qle_Rle in Hl. destruct (Rlt_dec (Q2R u) (Q2R w)); [lra | auto].
Qed.

(* ================================================================ linear propagators: gradient of the quadratic objective *)
Lemma is_derive_Rsum n (f : nat -> R -> R) (df : nat -> R) x0 :
  (forall i, (i < n)%nat -> is_derive (f i) x0 (df i)) ->
  is_derive (fun t => Rsum n (fun i => f i t)) x0 (Rsum n df).
Proof. induction n as [|k IH]; intros H; cbn [Rsum].
  - apply (@is_derive_const R_AbsRing R_NormedModule 0 x0).
  - apply add_case; [apply IH; intros; apply H; lia | apply H; lia]. Qed.

Lemma Rsum_delta n j c : (j < n)%nat -> Rsum n (fun i => if Nat.eqb i j then c else 0) = c.
Proof. induction n as [|k IH]; intros H; [lia|]. cbn [Rsum]. destruct (Nat.eqb k j) eqn:E.
  - apply Nat.eqb_eq in E. subst k. rewrite Rsum_zero; [lra|]. intros i Hi.
    destruct (Nat.eqb i j) eqn:E2; [apply Nat.eqb_eq in E2; lia | reflexivity].
  - apply Nat.eqb_neq in E. rewrite IH by lia. lra. Qed.

Lemma fst_Csum n f : fst (Csum n f) = Rsum n (fun j => fst (f j)).
Proof. induction n; cbn [Csum Rsum]; [reflexivity | cbn; now rewrite IHn]. Qed.
Lemma snd_Csum n f : snd (Csum n f) = Rsum n (fun j => snd (f j)).
Proof. induction n; cbn [Csum Rsum]; [reflexivity | cbn; now rewrite IHn]. Qed.

Definition obj (m n : nat) (P : cmat) (w : nat -> R) (u : nat -> C) : R := Rsum m (fun k => w k * n2 (fwd n P u k)).

Lemma cupd_same u j : cupd u j (u j) = u.
Proof. apply functional_extensionality. intros i. unfold cupd. destruct (Nat.eqb i j) eqn:E; [apply Nat.eqb_eq in E; now subst | reflexivity]. Qed.

Lemma fwd_re_derive n P u0 j k (zr zi : R -> R) t0 dr di : (j < n)%nat ->
  is_derive zr t0 dr -> is_derive zi t0 di ->
  is_derive (fun t => fst (fwd n P (cupd u0 j (zr t, zi t)) k)) t0 (fst (Cmult (P k j) (dr, di))).
Proof. intros Hj Hr Hi.
  apply (is_derive_ext (fun t => Rsum n (fun i => fst (Cmult (P k i) (cupd u0 j (zr t, zi t) i))))).
  { intros t. unfold fwd. now rewrite fst_Csum. }
  rewrite <- (Rsum_delta n j (fst (Cmult (P k j) (dr, di))) Hj).
  apply (is_derive_Rsum n (fun i t => fst (Cmult (P k i) (cupd u0 j (zr t, zi t) i)))).
  intros i _. unfold cupd. destruct (Nat.eqb i j) eqn:E.
  - apply Nat.eqb_eq in E. subst i. cbn [Cmult fst snd].
    evar_last. apply sub_case; apply mul_case; try eassumption; apply (@is_derive_const R_AbsRing R_NormedModule).
    unfold zero; cbn. ring.
  - apply (@is_derive_const R_AbsRing R_NormedModule). Qed.

Lemma fwd_im_derive n P u0 j k (zr zi : R -> R) t0 dr di : (j < n)%nat ->
  is_derive zr t0 dr -> is_derive zi t0 di ->
  is_derive (fun t => snd (fwd n P (cupd u0 j (zr t, zi t)) k)) t0 (snd (Cmult (P k j) (dr, di))).
Proof. intros Hj Hr Hi.
  apply (is_derive_ext (fun t => Rsum n (fun i => snd (Cmult (P k i) (cupd u0 j (zr t, zi t) i))))).
  { intros t. unfold fwd. now rewrite snd_Csum. }
  rewrite <- (Rsum_delta n j (snd (Cmult (P k j) (dr, di))) Hj).
  apply (is_derive_Rsum n (fun i t => snd (Cmult (P k i) (cupd u0 j (zr t, zi t) i)))).
  intros i _. unfold cupd. destruct (Nat.eqb i j) eqn:E.
  - apply Nat.eqb_eq in E. subst i. cbn [Cmult fst snd].
    evar_last. apply add_case; apply mul_case; try eassumption; apply (@is_derive_const R_AbsRing R_NormedModule).
    unfold zero; cbn. ring.
  - apply (@is_derive_const R_AbsRing R_NormedModule). Qed.

(* one input component moves along a differentiable curve z(t) = (zr t, zi t) through u0 j *)
Theorem obj_derive m n P w u0 j (zr zi : R -> R) t0 dr di : (j < n)%nat ->
  is_derive zr t0 dr -> is_derive zi t0 di -> (zr t0, zi t0) = u0 j ->
  is_derive (fun t => obj m n P w (cupd u0 j (zr t, zi t))) t0
            (Rsum m (fun k => w k * (2 * cdot (fwd n P u0 k) (Cmult (P k j) (dr, di))))).
Proof. intros Hj Hr Hi H0. unfold obj.
  apply (is_derive_Rsum m (fun k t => w k * n2 (fwd n P (cupd u0 j (zr t, zi t)) k))).
  intros k _. unfold n2.
  pose proof (fwd_re_derive n P u0 j k zr zi t0 dr di Hj Hr Hi) as DR.
  pose proof (fwd_im_derive n P u0 j k zr zi t0 dr di Hj Hr Hi) as DI.
  evar_last.
  { apply mul_case; [apply (@is_derive_const R_AbsRing R_NormedModule)|].
    apply add_case; apply mul_case; eassumption. }
  cbv beta. rewrite H0, cupd_same. unfold cdot, zero; cbn. ring. Qed.

Lemma polar_upd_phase a phi j t : polar a (upd phi j t) = cupd (polar a phi) j (a j * cos t, a j * sin t).
Proof. apply functional_extensionality. intros i. unfold polar, upd, cupd.
  destruct (Nat.eqb i j) eqn:E; [apply Nat.eqb_eq in E; now subst | reflexivity]. Qed.
Lemma polar_upd_amp a phi j t : polar (upd a j t) phi = cupd (polar a phi) j (t * cos (phi j), t * sin (phi j)).
Proof. apply functional_extensionality. intros i. unfold polar, upd, cupd.
  destruct (Nat.eqb i j) eqn:E; [apply Nat.eqb_eq in E; now subst | reflexivity]. Qed.

Theorem phase_grad_correct m n P w a phi j : (j < n)%nat ->
  is_derive (fun t => objective m n P w a (upd phi j t)) (phi j) (phase_grad m n P w a phi j).
Proof. intros Hj. unfold objective, phase_grad.
  apply (is_derive_ext (fun t => obj m n P w (cupd (polar a phi) j (a j * cos t, a j * sin t)))).
  { intros t. now rewrite polar_upd_phase. }
  evar_last.
  { apply (obj_derive m n P w (polar a phi) j (fun t => a j * cos t) (fun t => a j * sin t) (phi j)
                      (a j * - sin (phi j)) (a j * cos (phi j)) Hj).
    - evar_last. apply mul_case. apply (@is_derive_const R_AbsRing R_NormedModule). apply is_derive_cos. unfold zero; cbn; ring.
    - evar_last. apply mul_case. apply (@is_derive_const R_AbsRing R_NormedModule). apply is_derive_sin. unfold zero; cbn; ring.
    - reflexivity. }
  apply Rsum_ext. intros k _. unfold cdot, polar, Ci. cbn. ring. Qed.

Theorem amp_grad_correct m n P w a phi j : (j < n)%nat ->
  is_derive (fun t => objective m n P w (upd a j t) phi) (a j) (amp_grad m n P w a phi j).
Proof. intros Hj. unfold objective, amp_grad.
  apply (is_derive_ext (fun t => obj m n P w (cupd (polar a phi) j (t * cos (phi j), t * sin (phi j))))).
  { intros t. now rewrite polar_upd_amp. }
  evar_last.
  { apply (obj_derive m n P w (polar a phi) j (fun t => t * cos (phi j)) (fun t => t * sin (phi j)) (a j)
                      (cos (phi j)) (sin (phi j)) Hj).
    - evar_last. apply mul_case. apply is_derive_id. apply (@is_derive_const R_AbsRing R_NormedModule). unfold zero, one; cbn; ring.
    - evar_last. apply mul_case. apply is_derive_id. apply (@is_derive_const R_AbsRing R_NormedModule). unfold zero, one; cbn; ring.
    - reflexivity. }
  reflexivity. Qed.

(* directional derivative of a linear map is the map itself (Jacobian-vector product) *)
Lemma Csum_axpy n (f g : nat -> C) (t : R) :
  Csum n (fun j => Cplus (f j) (Cmult (RtoC t) (g j))) = Cplus (Csum n f) (Cmult (RtoC t) (Csum n g)).
Proof. induction n; cbn [Csum]. - unfold RtoC, Cplus, Cmult; cbn. f_equal; ring.
  - rewrite IHn. unfold RtoC, Cplus, Cmult; cbn. f_equal; ring. Qed.

Lemma fwd_axpy n P u v t k : fwd n P (caxpy u v t) k = Cplus (fwd n P u k) (Cmult (RtoC t) (fwd n P v k)).
Proof. unfold fwd, caxpy. rewrite <- Csum_axpy. f_equal. apply functional_extensionality. intros j.
  unfold RtoC, Cplus, Cmult; cbn. f_equal; ring. Qed.

Theorem jvp_linear n P u v k t0 :
  is_derive (fun t => fst (fwd n P (caxpy u v t) k)) t0 (fst (fwd n P v k)) /\
  is_derive (fun t => snd (fwd n P (caxpy u v t) k)) t0 (snd (fwd n P v k)).
Proof. split.
  - apply (is_derive_ext (fun t => fst (fwd n P u k) + t * fst (fwd n P v k))).
    { intros t. rewrite fwd_axpy. unfold RtoC, Cplus, Cmult; cbn. ring. }
    evar_last. apply add_case. apply (@is_derive_const R_AbsRing R_NormedModule).
    apply mul_case. apply is_derive_id. apply (@is_derive_const R_AbsRing R_NormedModule). unfold zero, one; cbn; ring.
  - apply (is_derive_ext (fun t => snd (fwd n P u k) + t * snd (fwd n P v k))).
    { intros t. rewrite fwd_axpy. unfold RtoC, Cplus, Cmult; cbn. ring. }
    evar_last. apply add_case. apply (@is_derive_const R_AbsRing R_NormedModule).
    apply mul_case. apply is_derive_id. apply (@is_derive_const R_AbsRing R_NormedModule). unfold zero, one; cbn; ring.
Qed.

(* ================================================================ the where / pow nonlinearity of srgb_to_lab and lab_to_srgb *)
Lemma eval_emax a b r : eval (emax a b) r = Rmax (eval a r) (eval b r).
Proof. unfold emax. cbn [eval]. unfold Rmax. destruct (Rlt_dec (eval a r) (eval b r)), (Rle_dec (eval a r) (eval b r)); lra. Qed.

(* the repair does not change any value *)
Theorem wp_fixed_same_value t c k k0 l1 l0 r : eval (wp_fixed t c k k0 l1 l0) r = eval (wp_orig t c k k0 l1 l0) r.
Proof. unfold wp_fixed, wp_orig. cbn [eval]. destruct (Rlt_dec (Q2R t) (r 0%nat)) as [H|H]; [|reflexivity].
  unfold emax. cbn [eval]. destruct (Rlt_dec (r 0%nat) (Q2R t)); [lra | reflexivity]. Qed.

(* repaired: autograd-safe at EVERY real input except the threshold itself *)
Theorem wp_fixed_dom t c k k0 l1 l0 r : 0 < Q2R t -> r 0%nat <> Q2R t -> dom (wp_fixed t c k k0 l1 l0) r.
Proof. intros Ht Hne. unfold wp_fixed, emax. cbn [dom eval]. unfold strict. cbn [eval].
  repeat split; auto. destruct (Rlt_dec (r 0%nat) (Q2R t)); lra. Qed.

(* as found: autograd-safe only for positive inputs ... *)
Theorem wp_orig_partial t c k k0 l1 l0 r : 0 < r 0%nat -> r 0%nat <> Q2R t -> dom (wp_orig t c k k0 l1 l0) r.
Proof. intros Hp Hne. unfold wp_orig. cbn [dom eval]. unfold strict. cbn [eval]. repeat split; auto. Qed.

Lemma lab_t_pos : 0 < Q2R lab_t. Proof. unfold lab_t, Q2R; cbn. lra. Qed.

(* ... and NOT at black, although the function is differentiable there: the unselected power branch has
   the singular local derivative (1/3) x^(-2/3) at x = 0, which reverse mode multiplies by 0 *)
Theorem lab_f_orig_refuted :
  ~ dom lab_f_orig black /\ ~ dom (D 0 lab_f_orig) black /\
  mdom lab_f_orig black /\ is_derive (fun t => eval lab_f_orig (upd black 0 t)) 0 (Q2R (841 # 108)).
Proof. pose proof lab_t_pos as Ht.
  assert (Hm : mdom lab_f_orig black).
  { unfold lab_f_orig, wp_orig, black. cbn [mdom eval]. unfold strict. cbn [eval].
    destruct (Rlt_dec (Q2R lab_t) 0); [lra|]. repeat split; auto. left. lra. }
  split; [|split; [|split]].
  - unfold lab_f_orig, wp_orig, black. cbn [dom eval]. intros H. decompose [and] H. lra.
  - vm_compute (D 0 lab_f_orig). unfold black. cbn [dom eval]. intros H. decompose [and] H. lra.
  - exact Hm.
  - pose proof (D_correct_m black 0%nat lab_f_orig Hm) as H. unfold black at 2 in H.
    evar_last. exact H. vm_compute (D 0 lab_f_orig). unfold black. cbn [eval]. destruct (Rlt_dec (Q2R (216 # 24389)) 0); [|reflexivity].
    unfold Q2R in r; cbn in r. lra. Qed.

Theorem lab_f_fixed_dom r : r 0%nat <> Q2R lab_t -> dom lab_f_fixed r /\ dom (D 0 lab_f_fixed) r /\
  eval lab_f_fixed r = eval lab_f_orig r.
Proof. intros H. pose proof (wp_fixed_dom lab_t (1 # 3) 1 0 (841 # 108) (4 # 29) r lab_t_pos H) as Hd.
  split; [exact Hd | split; [apply dom_D; exact Hd | apply wp_fixed_same_value]]. Qed.

(* ================================================================ side conditions split into thresholds and singularities *)
Lemma dom_of_split r e :
  List.Forall (holds r) (filter hard (conds e)) -> List.Forall (holds r) (filter (fun c => negb (hard c)) (conds e)) -> dom e r.
Proof. intros H1 H2. apply conds_iff. apply Forall_forall. intros c Hc.
  destruct (hard c) eqn:E.
  - rewrite Forall_forall in H1. apply H1. apply filter_In. auto.
  - rewrite Forall_forall in H2. apply H2. apply filter_In. rewrite E. auto. Qed.

Lemma c05_instance : dom lab_f_fixed black /\
  is_derive (fun t => eval lab_f_fixed (upd black 0 t)) (black 0%nat) (eval (D 0 lab_f_fixed) black).
Proof. assert (H : black 0%nat <> Q2R lab_t) by (unfold black; pose proof lab_t_pos; lra).
  split; [exact (proj1 (lab_f_fixed_dom black H)) | apply D_correct; exact (proj1 (lab_f_fixed_dom black H))]. Qed.
