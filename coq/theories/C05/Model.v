(* C05 - differentiability of the PyTorch light and ray models: definitions.

   1. A deep embedding `expr` of the scalar formulas the tracer extracts from odak (one real expression
      per output component; tensors are unrolled by the tracer).  `eval` is its meaning over R,
      `D x e` the symbolic partial derivative (with constant-folding smart constructors so that Coq
      can compute it by vm_compute on every run), `dom e rho` the autograd-safe smooth domain
      (EVERY sub-expression, also the one in a branch `torch.where` does not select, is away from its
      singularity: reverse-mode autograd multiplies the local derivative of the unselected branch by 0,
      and 0 * inf = NaN), `mdom` the mathematical smooth domain (selected branch only), `conds` the
      list of side conditions equivalent to `dom` (computed by Coq, evaluated numerically by the harness).
   2. `evalQ`: exact evaluation over Q of the rational fragment (cross-check of the Python evaluator).
   3. The linear (matrix) model of the FFT-based propagators and the quadratic objective whose
      phase / amplitude gradients are given in closed form.
   4. The `where(x > t, k*x^c + k0, l1*x + l0)` nonlinearity of srgb_to_lab / lab_to_srgb, as found and
      as repaired (power applied to max(x,t)). *)
From Coq Require Import Reals QArith Qreals Lra List Arith Bool.
From Coquelicot Require Import Coquelicot.
From OdakV Require Import Base.RealAux Wave.Fields.
Import ListNotations.
Open Scope R_scope.

Inductive expr :=
| Var (i : nat) | Cst (q : Q) | CPi
| Add (a b : expr) | Sub (a b : expr) | Mul (a b : expr) | Div (a b : expr) | Neg (a : expr)
| Pow (a : expr) (n : nat)
| Sqrt (a : expr) | Sin (a : expr) | Cos (a : expr) | Exp (a : expr) | Ln (a : expr)
| Atan2 (y x : expr)
| Rpw (a : expr) (c : Q)            (* a ^ c = exp (c ln a), a > 0 *)
| Abs (a : expr)
| Floor (a : expr)
| Ite (a b x y : expr).             (* if a < b then x else y *)

Definition envT := nat -> R.

Fixpoint eval (e : expr) (r : envT) : R :=
  match e with
  | Var i => r i | Cst q => Q2R q | CPi => PI
  | Add a b => eval a r + eval b r | Sub a b => eval a r - eval b r
  | Mul a b => eval a r * eval b r | Div a b => eval a r / eval b r
  | Neg a => - eval a r | Pow a n => eval a r ^ n
  | Sqrt a => sqrt (eval a r) | Sin a => sin (eval a r) | Cos a => cos (eval a r)
  | Exp a => exp (eval a r) | Ln a => ln (eval a r)
  | Atan2 y x => atan2 (eval y r) (eval x r)
  | Rpw a c => Rpower (eval a r) (Q2R c)
  | Abs a => Rabs (eval a r)
  | Floor a => Rfloor (eval a r)
  | Ite a b x y => if Rlt_dec (eval a r) (eval b r) then eval x r else eval y r
  end.

Definition upd (r : envT) (x : nat) (t : R) : envT := fun i => if Nat.eqb i x then t else r i.

(* ---------------------------------------------------------------- symbolic derivative *)
Definition is0 (e : expr) : bool := match e with Cst q => Qeq_bool q 0 | _ => false end.
Definition is1 (e : expr) : bool := match e with Cst q => Qeq_bool q 1 | _ => false end.
Definition sneg a := if is0 a then Cst 0 else Neg a.
Definition sadd a b := if is0 a then b else if is0 b then a else Add a b.
Definition ssub a b := if is0 b then a else if is0 a then Neg b else Sub a b.
Definition smul a b := if is0 a || is0 b then Cst 0 else if is1 a then b else if is1 b then a else Mul a b.
Definition sdiv a b := if is0 a then Cst 0 else Div a b.
Definition site a b x y := if is0 x && is0 y then Cst 0 else Ite a b x y.
Definition cnat (n : nat) : expr := Cst (inject_Z (Z.of_nat n)).

(* derivative along a curve of environments: dv i is the expression of the derivative of variable i *)
Fixpoint Dg (dv : nat -> expr) (e : expr) : expr :=
  match e with
  | Var i => dv i
  | Cst _ | CPi => Cst 0
  | Add a b => sadd (Dg dv a) (Dg dv b)
  | Sub a b => ssub (Dg dv a) (Dg dv b)
  | Mul a b => sadd (smul (Dg dv a) b) (smul a (Dg dv b))
  | Div a b => ssub (sdiv (Dg dv a) b) (smul (Div a (Mul b b)) (Dg dv b))
  | Neg a => sneg (Dg dv a)
  | Pow a n => match n with O => Cst 0 | S k => smul (smul (cnat (S k)) (Pow a k)) (Dg dv a) end
  | Sqrt a => sdiv (Dg dv a) (Mul (Cst 2) (Sqrt a))
  | Sin a => smul (Cos a) (Dg dv a)
  | Cos a => smul (Neg (Sin a)) (Dg dv a)
  | Exp a => smul (Exp a) (Dg dv a)
  | Ln a => sdiv (Dg dv a) a
  | Atan2 y0 x0 => sdiv (ssub (smul x0 (Dg dv y0)) (smul y0 (Dg dv x0))) (Add (Mul x0 x0) (Mul y0 y0))
  | Rpw a c => smul (smul (Cst c) (Rpw a (c - 1))) (Dg dv a)
  | Abs a => site (Cst 0) a (Dg dv a) (sneg (Dg dv a))
  | Floor _ => Cst 0
  | Ite a b u v => site a b (Dg dv u) (Dg dv v)
  end.

(* partial derivative with respect to variable x *)
Definition dx (x : nat) (i : nat) : expr := if Nat.eqb i x then Cst 1 else Cst 0.
Definition D (x : nat) (e : expr) : expr := Dg (dx x) e.

Definition grad (n : nat) (e : expr) : list expr := map (fun i => D i e) (seq 0 n).

(* ---------------------------------------------------------------- domains *)
(* syntactically piecewise-constant expressions (indices, sector numbers) *)
Fixpoint lconst (e : expr) : bool :=
  match e with
  | Cst _ | CPi | Floor _ => true
  | Add a b | Sub a b | Mul a b | Div a b => lconst a && lconst b
  | Neg a => lconst a
  | Ite _ _ x y => lconst x && lconst y     (* given a stable condition, which `dom` asks for *)
  | _ => false
  end.

Definition strict (a b : expr) (r : envT) : Prop := eval a r <> eval b r \/ lconst a && lconst b = true.
Definition nonint (a : expr) (r : envT) : Prop := lconst a = true \/ eval a r <> Rfloor (eval a r).

Fixpoint dom (e : expr) (r : envT) : Prop :=
  match e with
  | Var _ | Cst _ | CPi => True
  | Add a b | Sub a b | Mul a b => dom a r /\ dom b r
  | Div a b => dom a r /\ dom b r /\ eval b r <> 0
  | Neg a | Sin a | Cos a | Exp a | Pow a _ => dom a r
  | Sqrt a | Ln a | Rpw a _ => dom a r /\ 0 < eval a r
  | Atan2 y x => dom y r /\ dom x r /\ (0 < eval x r \/ eval y r <> 0)
  | Abs a => dom a r /\ eval a r <> 0
  | Floor a => dom a r /\ nonint a r
  | Ite a b x y => dom a r /\ dom b r /\ strict a b r /\ dom x r /\ dom y r
  end.

Fixpoint mdom (e : expr) (r : envT) : Prop :=
  match e with
  | Var _ | Cst _ | CPi => True
  | Add a b | Sub a b | Mul a b => mdom a r /\ mdom b r
  | Div a b => mdom a r /\ mdom b r /\ eval b r <> 0
  | Neg a | Sin a | Cos a | Exp a | Pow a _ => mdom a r
  | Sqrt a | Ln a | Rpw a _ => mdom a r /\ 0 < eval a r
  | Atan2 y x => mdom y r /\ mdom x r /\ (0 < eval x r \/ eval y r <> 0)
  | Abs a => mdom a r /\ eval a r <> 0
  | Floor a => mdom a r /\ nonint a r
  | Ite a b x y => mdom a r /\ mdom b r /\ strict a b r /\
                   (if Rlt_dec (eval a r) (eval b r) then mdom x r else mdom y r)
  end.

Inductive cond :=
| CNe (a b : expr)        (* a <> b, or both sides piecewise constant *)
| CNz (a : expr)          (* a <> 0 *)
| CPos (a : expr)         (* 0 < a *)
| CCut (y x : expr)       (* (y, x) off the branch cut of atan2 and off the origin *)
| CNonInt (a : expr).     (* a is not an integer, or piecewise constant *)

Definition holds (r : envT) (c : cond) : Prop :=
  match c with
  | CNe a b => strict a b r
  | CNz a => eval a r <> 0
  | CPos a => 0 < eval a r
  | CCut y x => 0 < eval x r \/ eval y r <> 0
  | CNonInt a => nonint a r
  end.

Fixpoint conds (e : expr) : list cond :=
  match e with
  | Var _ | Cst _ | CPi => []
  | Add a b | Sub a b | Mul a b => conds a ++ conds b
  | Div a b => conds a ++ conds b ++ [CNz b]
  | Neg a | Sin a | Cos a | Exp a | Pow a _ => conds a
  | Sqrt a | Ln a | Rpw a _ => conds a ++ [CPos a]
  | Atan2 y x => conds y ++ conds x ++ [CCut y x]
  | Abs a => conds a ++ [CNz a]
  | Floor a => conds a ++ [CNonInt a]
  | Ite a b x y => conds a ++ conds b ++ [CNe a b] ++ conds x ++ conds y
  end.

(* singularities (to be excluded by the valid input range) as opposed to thresholds / ties / sector borders *)
Definition hard (c : cond) : bool := match c with CNe _ _ | CNonInt _ => false | _ => true end.

(* the report Coq computes for one traced objective: gradient terms and the side conditions *)
Definition report (n : nat) (e : expr) : list expr * list cond := (grad n e, conds e).

(* ---------------------------------------------------------------- straight-line programs (sharing) *)
(* A traced objective is a DAG; it is emitted as a list of instructions.  With n inputs (variables 0..n-1),
   instruction j defines variable n+j and may use the variables below it.  Forward-mode differentiation gives
   every variable i < M a tangent variable i+M: the harness seeds the tangents of the inputs (1 for the input
   differentiated against, 0 otherwise) and evaluates value and tangent of every instruction in turn. *)
Fixpoint bounded (k : nat) (e : expr) : bool :=
  match e with
  | Var i => i <? k
  | Cst _ | CPi => true
  | Add a b | Sub a b | Mul a b | Div a b | Atan2 a b => bounded k a && bounded k b
  | Neg a | Pow a _ | Sqrt a | Sin a | Cos a | Exp a | Ln a | Rpw a _ | Abs a | Floor a => bounded k a
  | Ite a b x y => bounded k a && bounded k b && bounded k x && bounded k y
  end.
Definition dvk (k M : nat) (i : nat) : expr := if i <? k then Var (i + M) else Cst 0.
Fixpoint run (p : list expr) (k : nat) (r : envT) : envT :=
  match p with [] => r | e :: q => run q (S k) (upd r k (eval e r)) end.
Fixpoint runT (M : nat) (p : list expr) (k : nat) (r : envT) : envT :=
  match p with
  | [] => r
  | e :: q => runT M q (S k) (upd (upd r k (eval e r)) (k + M) (eval (Dg (dvk k M) e) r))
  end.
Fixpoint wf (p : list expr) (k : nat) : bool :=
  match p with [] => true | e :: q => bounded k e && wf q (S k) end.
(* every instruction is evaluated inside its smooth domain (in the environment the tangent run builds) *)
Fixpoint pdomT (M : nat) (p : list expr) (k : nat) (r : envT) : Prop :=
  match p with
  | [] => True
  | e :: q => mdom e r /\ pdomT M q (S k) (upd (upd r k (eval e r)) (k + M) (eval (Dg (dvk k M) e) r))
  end.
Definition seed (M x : nat) (r : envT) : envT :=
  fun i => if i <? M then r i else if Nat.eqb i (x + M) then 1 else 0.
(* what Coq prints for a traced program: per instruction its tangent expression and its side conditions *)
Fixpoint reportP (M : nat) (p : list expr) (k : nat) : list (expr * list cond) :=
  match p with [] => [] | e :: q => (Dg (dvk k M) e, conds e) :: reportP M q (S k) end.

(* ---------------------------------------------------------------- exact evaluation of the rational fragment *)
Definition obind2 (f : Q -> Q -> option Q) (a b : option Q) : option Q :=
  match a, b with Some u, Some v => f u v | _, _ => None end.

Fixpoint Qpow_nat (u : Q) (n : nat) : Q := match n with O => 1%Q | S k => (u * Qpow_nat u k)%Q end.

Fixpoint evalQ (e : expr) (r : nat -> Q) : option Q :=
  match e with
  | Var i => Some (r i) | Cst q => Some q
  | Add a b => obind2 (fun u v => Some (u + v)%Q) (evalQ a r) (evalQ b r)
  | Sub a b => obind2 (fun u v => Some (u - v)%Q) (evalQ a r) (evalQ b r)
  | Mul a b => obind2 (fun u v => Some (u * v)%Q) (evalQ a r) (evalQ b r)
  | Div a b => obind2 (fun u v => if Qeq_bool v 0 then None else Some (u / v)%Q) (evalQ a r) (evalQ b r)
  | Neg a => match evalQ a r with Some u => Some (- u)%Q | None => None end
  | Pow a n => match evalQ a r with Some u => Some (Qpow_nat u n) | None => None end
  | Ite a b x y => match evalQ a r, evalQ b r with
                   | Some u, Some v => if Qlt_le_dec u v then evalQ x r else evalQ y r
                   | _, _ => None end
  | _ => None
  end.

Definition gradQ (n : nat) (e : expr) (r : nat -> Q) : list (option Q) := map (fun i => evalQ (D i e) r) (seq 0 n).
Definition envQ (l : list Q) : nat -> Q := fun i => nth i l 0%Q.

(* ---------------------------------------------------------------- linear propagators and their quadratic objective *)
(* a linear map C^n -> C^m given by its matrix; the FFT-based propagators of odak are such maps
   (C03: additivity and homogeneity), their columns P e_j are read off the implementation *)
Definition cmat := nat -> nat -> C.
Fixpoint Csum (n : nat) (f : nat -> C) : C := match n with O => RtoC 0 | S k => Cplus (Csum k f) (f k) end.
Definition fwd (n : nat) (P : cmat) (u : nat -> C) (k : nat) : C := Csum n (fun j => Cmult (P k j) (u j)).
Definition polar (a phi : nat -> R) (j : nat) : C := (a j * cos (phi j), a j * sin (phi j)).
Definition objective (m n : nat) (P : cmat) (w : nat -> R) (a phi : nat -> R) : R :=
  Rsum m (fun k => w k * n2 (fwd n P (polar a phi) k)).
Definition Ci : C := (0, 1).
Definition cdot (z1 z2 : C) : R := fst z1 * fst z2 + snd z1 * snd z2.   (* Re (conj z1 * z2) *)
Definition phase_grad (m n : nat) (P : cmat) (w a phi : nat -> R) (j : nat) : R :=
  Rsum m (fun k => w k * (2 * cdot (fwd n P (polar a phi) k) (Cmult Ci (Cmult (P k j) (polar a phi j))))).
Definition amp_grad (m n : nat) (P : cmat) (w a phi : nat -> R) (j : nat) : R :=
  Rsum m (fun k => w k * (2 * cdot (fwd n P (polar a phi) k) (Cmult (P k j) (cos (phi j), sin (phi j))))).
Definition cupd (u : nat -> C) (j : nat) (z : C) : nat -> C := fun i => if Nat.eqb i j then z else u i.
Definition caxpy (u v : nat -> C) (t : R) : nat -> C := fun i => Cplus (u i) (Cmult (RtoC t) (v i)).

(* ---------------------------------------------------------------- the where/pow nonlinearity of the colour conversions *)
(* where (x > t, k * x^c + k0, l1 * x + l0) with x = Var 0, as odak writes it ... *)
Definition wp_orig (t c k k0 l1 l0 : Q) : expr :=
  Ite (Cst t) (Var 0) (Add (Mul (Cst k) (Rpw (Var 0) c)) (Cst k0)) (Add (Mul (Cst l1) (Var 0)) (Cst l0)).
(* ... and repaired: the power is taken of max (x, t), which is x wherever the branch is selected *)
Definition emax (a b : expr) : expr := Ite a b b a.
Definition wp_fixed (t c k k0 l1 l0 : Q) : expr :=
  Ite (Cst t) (Var 0) (Add (Mul (Cst k) (Rpw (emax (Var 0) (Cst t)) c)) (Cst k0)) (Add (Mul (Cst l1) (Var 0)) (Cst l0)).
(* CIE Lab f: t = (6/29)^3, c = 1/3, linear part x / (3 (6/29)^2) + 4/29 *)
Definition lab_t : Q := 216 # 24389.
Definition lab_f_orig : expr := wp_orig lab_t (1 # 3) 1 0 (841 # 108) (4 # 29).
Definition lab_f_fixed : expr := wp_fixed lab_t (1 # 3) 1 0 (841 # 108) (4 # 29).
Definition black : envT := fun _ => 0.
