(* C01 — property theorems.  The forward models `custom` / `centered` are the documented pipelines of
   OdakV.Wave.Fields (every n x m grid: even, odd, non-square; a batch is a list of such fields);
   F, Finv, S, Sinv are fft2, ifft2, fftshift, ifftshift of the numerical library under their contracts
   (Section hypotheses, validated against torch.fft / numpy.fft on every run).  The traced code is tied to
   these models by coq/tie/Wave_Tie*.v on every run. *)
From Coq Require Import Reals List.
From Coquelicot Require Import Complex.
From OdakV Require Import Base.RealAux Wave.Fields Wave.Kernels Wave.Steps.
Import ListNotations.
Open Scope R_scope.

Section Contracts.
Variables n m : nat.
Variables F Finv S Sinv : fld -> fld.
Variable N : R.
Hypothesis N_pos : 0 < N.
Hypothesis F_dom : forall u, F (clip n m u) = F u.
Hypothesis Finv_dom : forall u, Finv (clip n m u) = Finv u.
Hypothesis S_dom : forall u, S (clip n m u) = S u.
Hypothesis Sinv_dom : forall u, Sinv (clip n m u) = Sinv u.
Hypothesis F_add : forall u v, F (fadd u v) = fadd (F u) (F v).
Hypothesis F_scal : forall a u, F (fscal a u) = fscal a (F u).
Hypothesis Finv_add : forall u v, Finv (fadd u v) = fadd (Finv u) (Finv v).
Hypothesis Finv_scal : forall a u, Finv (fscal a u) = fscal a (Finv u).
Hypothesis Finv_F : forall u, Finv (F u) = clip n m u.
Hypothesis F_Finv : forall u, F (Finv u) = clip n m u.
Hypothesis parseval : forall u, energy n m (F u) = N * energy n m u.
Hypothesis S_Sinv : forall u, S (Sinv u) = clip n m u.
Hypothesis Sinv_S : forall u, Sinv (S u) = clip n m u.
Hypothesis S_energy : forall u, energy n m (S u) = energy n m u.
Hypothesis S_add : forall u v, S (fadd u v) = fadd (S u) (S v).
Hypothesis S_scal : forall a u, S (fscal a u) = fscal a (S u).
Hypothesis Sinv_add : forall u v, Sinv (fadd u v) = fadd (Sinv u) (Sinv v).
Hypothesis Sinv_scal : forall a u, Sinv (fscal a u) = fscal a (Sinv u).
Hypothesis S_mul : forall a b, S (fmul a b) = fmul (S a) (S b).
Hypothesis Sinv_mul : forall a b, Sinv (fmul a b) = fmul (Sinv a) (Sinv b).
Notation cust := (custom F Finv S Sinv).
Notation cent := (centered F Finv S Sinv).

(* angular spectrum / Fresnel transfer function, no aperture: energy is conserved exactly *)
Theorem C01_energy_conserved : forall u K, (forall i j, (i < n)%nat -> (j < m)%nat -> n2 (K i j) = 1) ->
  energy n m (cust u K fone) = energy n m u.
Proof. eapply custom_energy_unit; eassumption. Qed.
Theorem C01_energy_conserved_numpy_fresnel : forall u K, (forall i j, (i < n)%nat -> (j < m)%nat -> n2 (K i j) = 1) ->
  energy n m (cent u K) = energy n m u.
Proof. eapply centered_energy_unit; eassumption. Qed.
(* band limit / any aperture with |K A| <= 1 (binary or grey): energy is never created *)
Theorem C01_energy_never_created : forall u K A, (forall i j, (i < n)%nat -> (j < m)%nat -> n2 (Cmult (K i j) (A i j)) <= 1) ->
  energy n m (cust u K A) <= energy n m u.
Proof. eapply custom_energy_le; eassumption. Qed.
Theorem C01_energy_never_created_numpy_fresnel : forall u K, (forall i j, (i < n)%nat -> (j < m)%nat -> n2 (K i j) <= 1) ->
  energy n m (cent u K) <= energy n m u.
Proof. eapply centered_energy_le; eassumption. Qed.
(* applying the same band limit / binary aperture a second time removes nothing more *)
Theorem C01_second_pass_energy : forall u K M,
  (forall i j, Cmult (M i j) (M i j) = M i j) -> (forall i j, (i < n)%nat -> (j < m)%nat -> n2 (K i j) = 1) ->
  energy n m (cust (cust u K M) K M) = energy n m (cust u K M).
Proof. eapply custom_second_pass_energy; eassumption. Qed.
Theorem C01_mask_idempotent : forall u M, (forall i j, Cmult (M i j) (M i j) = M i j) ->
  cust (cust u fone M) fone M = cust u fone M.
Proof. eapply custom_mask_idem; eassumption. Qed.
End Contracts.

(* transfer-function samples: exp(i phase) has modulus one; masked samples have modulus <= 1 *)
Theorem C01_phasor_unit : forall t, n2 (Cexpi t) = 1.
Proof. exact Cexpi_n2. Qed.
Theorem C01_masked_phasor_le : forall b t, n2 (Cmult (RtoC (mask01 b)) (Cexpi t)) <= 1.
Proof. exact masked_n2_le. Qed.
Theorem C01_mask_is_idempotent : forall b, Cmult (RtoC (mask01 b)) (RtoC (mask01 b)) = RtoC (mask01 b).
Proof. exact mask_idem_C. Qed.
(* the sampling guard of the statement: pitch >= lambda/sqrt 2 makes every grid frequency propagating,
   so the angular-spectrum phase is real and the kernel is a pure phasor *)
Theorem C01_all_grid_frequencies_propagate : forall lam dx nu nv i j,
  0 < lam -> 0 < dx -> lam * lam <= 2 * (dx * dx) -> (2 <= nu)%nat -> (2 <= nv)%nat -> (i < nu)%nat -> (j < nv)%nat ->
  0 <= 1 - (lam * fgrid dx nu i) ^ 2 - (lam * fgrid dx nv j) ^ 2.
Proof.
  intros lam dx nu nv i j Hl Hd Hg Hnu Hnv Hi Hj.
  exact (as_all_propagating lam dx _ _ Hl Hd Hg (fgrid_in_band dx nu i Hd Hnu Hi) (fgrid_in_band dx nv j Hd Hnv Hj)).
Qed.
(* non-vacuity: the FFT / shift contracts are satisfiable on every grid *)
Theorem C01_contracts_satisfiable : forall n m,
  let F := clip n m in
  (forall u, F (clip n m u) = F u) /\ (forall u v, F (fadd u v) = fadd (F u) (F v)) /\
  (forall a u, F (fscal a u) = fscal a (F u)) /\ (forall u, F (F u) = clip n m u) /\
  (forall u, energy n m (F u) = 1 * energy n m u) /\ (forall a b, F (fmul a b) = fmul (F a) (F b)).
Proof. exact contracts_satisfiable. Qed.
