(* C06 — property theorems: history independence of the propagator object (any kernel builder, any
   forward model, any sequence of forward calls and reconstructions in any key order), and the
   'back and forth' = net-distance law for unit-modulus kernels with a phase additive in z.
   That the real __call__ is `crop (custom (pad u) (kernel lambda_c z_d) aperture)` with the aperture
   applied once is proved of the traced code on every run (coq/tie/C06_Tie.v). *)
From Coq Require Import List Reals.
From Coquelicot Require Import Complex.
From OdakV Require Import C06.Model C06.Lemmas Wave.Fields Wave.Kernels.
Import ListNotations.

Theorem C06_history_independent : forall (kernel field : Type) (gen : key -> kernel) (apply : kernel -> field -> field) ops,
  run kernel field gen apply (init kernel) ops = map (fresh kernel field gen apply) ops.
Proof. exact history_independent. Qed.

Theorem C06_prefix_irrelevant : forall (kernel field : Type) (gen : key -> kernel) (apply : kernel -> field -> field) pre ops,
  skipn (length pre) (run kernel field gen apply (init kernel) (pre ++ ops)) = run kernel field gen apply (init kernel) ops.
Proof. exact prefix_irrelevant. Qed.

Theorem C06_cached_kernel_is_own : forall (kernel field : Type) (gen : key -> kernel) (apply : kernel -> field -> field) s ops k h,
  Inv kernel gen s -> (fold_left (fun st o => fst (exec kernel field gen apply st o)) ops s) k = Some h -> h = gen k.
Proof. exact cached_kernel_is_own. Qed.

(* forward by z0 then back by -(z0 + offset - d) is one forward step by the net distance d - offset *)
Theorem C06_back_and_forth_net : forall ph : R -> R, (forall z1 z2, ph (z1 + z2) = ph z1 + ph z2)%R ->
  forall z0 off d, Cmult (Cexpi (ph z0)) (Cexpi (ph (- (z0 + off - d)))) = Cexpi (ph (d - off)).
Proof.
  intros ph Hadd z0 off d. rewrite (kernel_compose ph Hadd). f_equal. f_equal. ring.
Qed.

(* non-vacuity: a concrete two-key history, second call on a warm cache *)
Example C06_instance :
  run nat (list nat) (fun k => (fst k * 10 + snd k)%nat) (fun h u => h :: u) (init nat)
      [Call _ (1, 0)%nat [7%nat]; Call _ (0, 1)%nat [8%nat]; Call _ (1, 0)%nat [9%nat]; Reconstruct _ 1 2 2 (fun fr c => [(100 + c)%nat])]
  = [[[10; 7]]; [[1; 8]]; [[10; 9]]; [[0; 100]; [1; 101]; [10; 100]; [11; 101]]]%nat.
Proof. vm_compute. reflexivity. Qed.
