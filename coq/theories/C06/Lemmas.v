From Coq Require Import List Arith Bool Lia.
From OdakV Require Import C06.Model.
Import ListNotations.

Lemma key_eqb_spec a b : key_eqb a b = true <-> a = b.
Proof.
  destruct a as [a1 a2], b as [b1 b2]; unfold key_eqb; cbn [fst snd].
  rewrite andb_true_iff, !Nat.eqb_eq. split; [intros [-> ->]; reflexivity | intros E; inversion E; auto].
Qed.

Section L.
Variables kernel field : Type.
Variable gen : key -> kernel.
Variable apply : kernel -> field -> field.
Notation state := (state kernel).
Notation call := (call kernel field gen apply).
Notation exec := (exec kernel field gen apply).
Notation run := (run kernel field gen apply).
Notation init := (init kernel).

(* every cached kernel is the kernel of its own key *)
Definition Inv (s : state) := forall k h, s k = Some h -> h = gen k.

Lemma init_inv : Inv init.
Proof. intros k h H; discriminate. Qed.

Lemma call_inv s k u : Inv s -> Inv (fst (call s k u)).
Proof.
  intros HI k' h. cbn [call Model.call fst]. destruct (key_eqb k' k) eqn:E.
  - apply key_eqb_spec in E. subst k'. intros Hs. inversion Hs; subst.
    destruct (s k) eqn:Es; [apply HI; exact Es | reflexivity].
  - apply HI.
Qed.

Lemma call_out s k u : Inv s -> snd (call s k u) = apply (gen k) u.
Proof. intros HI. cbn [call Model.call snd]. destruct (s k) eqn:Es; [rewrite (HI _ _ Es)|]; reflexivity. Qed.

Lemma loop_channels_spec s d cs f : Inv s ->
  Inv (fst (loop_channels kernel field gen apply s d cs f)) /\
  snd (loop_channels kernel field gen apply s d cs f) = map (fun c => apply (gen (d, c)) (f c)) cs.
Proof.
  revert s. induction cs as [|c r IH]; intros s HI; cbn [loop_channels]; [split; [exact HI | reflexivity]|].
  pose proof (call_inv s (d, c) (f c) HI) as H1. pose proof (call_out s (d, c) (f c) HI) as H2.
  destruct (call s (d, c) (f c)) as [s1 y] eqn:E1. cbn [fst snd] in H1, H2.
  destruct (IH s1 H1) as [I2 O2]. destruct (loop_channels kernel field gen apply s1 d r f) as [s2 ys] eqn:E2.
  cbn [fst snd] in *. split; [exact I2|]. cbn [map]. rewrite H2, O2. reflexivity.
Qed.

Lemma loop_depths_spec s ds cs f : Inv s ->
  Inv (fst (loop_depths kernel field gen apply s ds cs f)) /\
  snd (loop_depths kernel field gen apply s ds cs f) = flat_map (fun d => map (fun c => apply (gen (d, c)) (f c)) cs) ds.
Proof.
  revert s. induction ds as [|d r IH]; intros s HI; cbn [loop_depths]; [split; [exact HI | reflexivity]|].
  destruct (loop_channels_spec s d cs f HI) as [I1 O1].
  destruct (loop_channels kernel field gen apply s d cs f) as [s1 ys] eqn:E1. cbn [fst snd] in *.
  destruct (IH s1 I1) as [I2 O2]. destruct (loop_depths kernel field gen apply s1 r cs f) as [s2 zs] eqn:E2.
  cbn [fst snd] in *. split; [exact I2|]. cbn [flat_map]. rewrite O1, O2. reflexivity.
Qed.

Lemma loop_frames_spec s fs ds cs mk : Inv s ->
  Inv (fst (loop_frames kernel field gen apply s fs ds cs mk)) /\
  snd (loop_frames kernel field gen apply s fs ds cs mk)
  = flat_map (fun fr => flat_map (fun d => map (fun c => apply (gen (d, c)) (mk fr c)) cs) ds) fs.
Proof.
  revert s. induction fs as [|fr r IH]; intros s HI; cbn [loop_frames]; [split; [exact HI | reflexivity]|].
  destruct (loop_depths_spec s ds cs (mk fr) HI) as [I1 O1].
  destruct (loop_depths kernel field gen apply s ds cs (mk fr)) as [s1 ys] eqn:E1. cbn [fst snd] in *.
  destruct (IH s1 I1) as [I2 O2]. destruct (loop_frames kernel field gen apply s1 r ds cs mk) as [s2 zs] eqn:E2.
  cbn [fst snd] in *. split; [exact I2|]. cbn [flat_map]. rewrite O1, O2. reflexivity.
Qed.

(* the output of an operation does not depend on the state, as long as the state is reachable *)
Definition spec (o : op field) : list field :=
  match o with
  | Call _ k u => [apply (gen k) u]
  | Reconstruct _ nf nd nc mk =>
      flat_map (fun fr => flat_map (fun d => map (fun c => apply (gen (d, c)) (mk fr c)) (seq 0 nc)) (seq 0 nd)) (seq 0 nf)
  end.

Lemma exec_spec s o : Inv s -> Inv (fst (exec s o)) /\ snd (exec s o) = spec o.
Proof.
  intros HI. destruct o as [k u | nf nd nc mk]; cbn [exec Model.exec spec].
  - pose proof (call_inv s k u HI) as H1. pose proof (call_out s k u HI) as H2.
    destruct (call s k u) as [s' y]. cbn [fst snd] in *. split; [exact H1 | rewrite H2; reflexivity].
  - apply loop_frames_spec, HI.
Qed.

Theorem history_independent ops : run init ops = map (fresh kernel field gen apply) ops.
Proof.
  assert (G : forall s, Inv s -> run s ops = map spec ops).
  { induction ops as [|o r IH]; intros s HI; cbn [run Model.run map]; [reflexivity|].
    destruct (exec_spec s o HI) as [I1 O1]. destruct (exec s o) as [s' ys]. cbn [fst snd] in *.
    rewrite O1. f_equal. apply IH, I1. }
  rewrite (G init init_inv). apply map_ext. intros o. unfold fresh.
  destruct (exec_spec init o init_inv) as [_ O]. symmetry. exact O.
Qed.

(* any interleaving: the results of a suffix do not depend on the prefix that ran before it *)
Theorem prefix_irrelevant pre ops :
  skipn (length pre) (run init (pre ++ ops)) = run init ops.
Proof.
  rewrite !history_independent, map_app, skipn_app, skipn_all2 by (rewrite map_length; lia).
  rewrite map_length, Nat.sub_diag. reflexivity.
Qed.

Theorem cached_kernel_is_own s ops k h :
  Inv s -> (fold_left (fun st o => fst (exec st o)) ops s) k = Some h -> h = gen k.
Proof.
  revert s. induction ops as [|o r IH]; intros s HI; cbn [fold_left]; [apply HI|].
  apply IH. apply exec_spec, HI.
Qed.
End L.
