(* C06 — the propagator object as a state machine: a cache of kernels indexed by (depth, channel),
   filled on first use.  Definitions only.  `gen` is the kernel builder for a key and `apply` the
   forward model with that kernel; both are parameters, so the theorems hold for every propagation
   type, resolution, wavelength list, distance list and aperture. *)
From Coq Require Import List Arith Bool ZArith.
Import ListNotations.

Definition key := (nat * nat)%type.                      (* depth id, channel id *)
Definition key_eqb (a b : key) : bool := (fst a =? fst b)%nat && (snd a =? snd b)%nat.

Section Cache.
Variables kernel field : Type.
Variable gen : key -> kernel.
Variable apply : kernel -> field -> field.

Definition state := key -> option kernel.
Definition init : state := fun _ => None.

(* propagator.__call__(field, channel, depth): returns the new state and the output field *)
Definition call (s : state) (k : key) (u : field) : state * field :=
  let h := match s k with Some h => h | None => gen k end in
  ((fun k' => if key_eqb k' k then Some h else s k'), apply h u).

(* operations on the object: a forward call, or reconstruct = the loop over all (frame, depth,
   channel) triples calling the forward model with a field built from (frame, channel) *)
Inductive op :=
| Call (k : key) (u : field)
| Reconstruct (frames depths channels : nat) (mk : nat -> nat -> field).

Fixpoint loop_channels (s : state) (d : nat) (cs : list nat) (f : nat -> field) : state * list field :=
  match cs with
  | [] => (s, [])
  | c :: r => let '(s1, y) := call s (d, c) (f c) in
              let '(s2, ys) := loop_channels s1 d r f in (s2, y :: ys)
  end.
Fixpoint loop_depths (s : state) (ds cs : list nat) (f : nat -> field) : state * list field :=
  match ds with
  | [] => (s, [])
  | d :: r => let '(s1, ys) := loop_channels s d cs f in
              let '(s2, zs) := loop_depths s1 r cs f in (s2, ys ++ zs)
  end.
Fixpoint loop_frames (s : state) (fs ds cs : list nat) (mk : nat -> nat -> field) : state * list field :=
  match fs with
  | [] => (s, [])
  | fr :: r => let '(s1, ys) := loop_depths s ds cs (mk fr) in
               let '(s2, zs) := loop_frames s1 r ds cs mk in (s2, ys ++ zs)
  end.

Definition exec (s : state) (o : op) : state * list field :=
  match o with
  | Call k u => let '(s', y) := call s k u in (s', [y])
  | Reconstruct nf nd nc mk => loop_frames s (seq 0 nf) (seq 0 nd) (seq 0 nc) mk
  end.

Fixpoint run (s : state) (ops : list op) : list (list field) :=
  match ops with
  | [] => []
  | o :: r => let '(s', ys) := exec s o in ys :: run s' r
  end.

(* what a freshly built object returns for the same operation *)
Definition fresh (o : op) : list field := snd (exec init o).

(* observable bookkeeping, for the correspondence with the implementation: was the kernel generated
   by this call, and which keys are marked generated afterwards *)
Definition miss (s : state) (k : key) : bool := match s k with Some _ => false | None => true end.
Fixpoint run_obs (keys : list key) (s : state) (ops : list op) : list (list bool * list field) :=
  match ops with
  | [] => []
  | o :: r => let '(s', ys) := exec s o in (map (fun k => negb (miss s' k)) keys, ys) :: run_obs keys s' r
  end.
End Cache.
