(* C14 — reference model of odak's ray constructors and sample-point generators (definitions only).

   Rays:     odak.learn.raytracing.{create_ray_from_two_points, create_ray_from_all_pairs,
             create_ray_from_point_w_luminous_angle, create_ray_from_grid_w_luminous_angle},
             odak.raytracing.create_ray_from_two_points, odak.tools.batch_of_rays
   Samples:  odak.tools.{grid_sample, circular_sample, sphere_sample, sphere_sample_uniform,
             box_volume_sample}, odak.learn.tools.grid_sample

   The model is written from the descriptions (direction = (p1-p0)/|p1-p0|; spherical cap
   cos(theta) = 1 - U (1 - cos(limit)); row-major lattices placed by rotate_points(offset=centre)).
   The code traced from /repo is proved equal to it on every run (coq/tie/C14_Tie*.v); the
   executable parts (index order of the lattices, rational axis coordinates) are evaluated inside
   Coq and compared with the implementation's output (harness/props/c14.py). *)
From Coq Require Import Reals List QArith Qabs Qreals Bool.
From OdakV Require Import Base.Vec3.
Import ListNotations.
Open Scope R_scope.

(* ---------------------------------------------------------------- rays *)
Definition Ray := (V3 * V3)%type.
Definition ray_origin (r : Ray) : V3 := fst r.
Definition ray_cosines (r : Ray) : V3 := snd r.
Definition ray_at (r : Ray) (t : R) : V3 := vadd (ray_origin r) (vscale t (ray_cosines r)).

Definition ray_dir (p0 p1 : V3) : V3 := vscale (/ vnorm (vsub p1 p0)) (vsub p1 p0).
Definition ray_two (p0 p1 : V3) : Ray := (p0, ray_dir p0 p1).
(* the implementation writes NaN cosines exactly when this holds *)
Definition zero_length (p0 p1 : V3) : Prop := vnorm (vsub p1 p0) = 0.

(* ---------------------------------------------------------------- row-major lattices *)
Definition lattice2 {A : Type} (n0 n1 : nat) (f : nat -> nat -> A) : list A :=
  flat_map (fun i => map (f i) (seq 0 n1)) (seq 0 n0).
Definition lattice3 {A : Type} (n0 n1 n2 : nat) (f : nat -> nat -> nat -> A) : list A :=
  flat_map (fun i => lattice2 n1 n2 (f i)) (seq 0 n0).

(* every start point with every end point: expand/reshape of the code = nested map *)
Definition all_pairs (starts ends : list V3) : list Ray :=
  flat_map (fun s => map (ray_two s) ends) starts.

(* batch_of_rays: ray i from entry i to exit i; a single entry (or a single exit) serves every ray *)
Definition pick (l : list V3) (i : nat) : V3 := nth (if Nat.eqb (length l) 1 then 0%nat else i) l vzero.
Definition batch_rays (entries exits : list V3) : list Ray :=
  map (fun i => ray_two (pick entries i) (pick exits i)) (seq 0 (Nat.max (length entries) (length exits))).

(* ---------------------------------------------------------------- rotations (angles in radians) *)
Definition rotx (a : R) (v : V3) : V3 := (vx v, cos a * vy v - sin a * vz v, sin a * vy v + cos a * vz v).
Definition roty (b : R) (v : V3) : V3 := (cos b * vx v + sin b * vz v, vy v, - sin b * vx v + cos b * vz v).
Definition rotz (g : R) (v : V3) : V3 := (cos g * vx v - sin g * vy v, sin g * vx v + cos g * vy v, vz v).
(* mode 'XYZ' of rotate_points and the tilt of the luminous-angle constructors: Rz (Ry (Rx v)) *)
Definition rot_xyz (t : V3) (v : V3) : V3 := rotz (vz t) (roty (vy t) (rotx (vx t) v)).
Definition deg (d : R) : R := d * PI / 180.
Definition degv (t : V3) : V3 := (deg (vx t), deg (vy t), deg (vz t)).
(* rotate_points(points, angles = tilt, offset = centre) *)
Definition placed (tilt centre v : V3) : V3 := vadd (rot_xyz (degv tilt) v) centre.
Definition ex : V3 := (1, 0, 0).
Definition ey : V3 := (0, 1, 0).
Definition ez : V3 := (0, 0, 1).

(* ---------------------------------------------------------------- luminous-angle rays *)
(* cos(theta) as a function of the uniform draw U, with the multiplier c of the anchor
   ("cos(theta) = 1 - c*U*(1 - cos(limit))"); the description requires c = 1 *)
Definition cap_cos (c U ca : R) : R := 1 - c * U * (1 - ca).
Definition cap_dir (theta phi : R) : V3 := (sin theta * cos phi, sin theta * sin phi, cos theta).
Definition lum_theta (lim U : R) : R := acos (cap_cos 1 U (cos (deg lim))).
Definition lum_dir (tilt : V3) (lim U V : R) : V3 := rot_xyz (degv tilt) (cap_dir (lum_theta lim U) (2 * PI * V)).
Definition lum_axis (tilt : V3) : V3 := rot_xyz (degv tilt) ez.
Definition lum_ray (origin tilt : V3) (lim U V : R) : Ray := (origin, lum_dir tilt lim U V).

(* ---------------------------------------------------------------- sample generators *)
(* grid: no points per axis from -size/2 to +size/2 inclusive *)
Definition grid_coord (s : R) (n i : nat) : R := s * INR i / (INR n - 1) - s / 2.
Definition grid_local (sx sy : R) (n0 n1 i j : nat) : V3 := (grid_coord sx n0 i, grid_coord sy n1 j, 0).
Definition grid_points (sx sy : R) (n0 n1 : nat) (centre tilt : V3) : list V3 :=
  lattice2 n0 n1 (fun i j => placed tilt centre (grid_local sx sy n0 n1 i j)).
(* box: cell centres of an n0 x n1 x n2 partition of the box *)
Definition box_coord (s : R) (n i : nat) : R := INR i * (s / INR n) + s / INR n / 2 - s / 2.
Definition box_local (sx sy sz : R) (n0 n1 n2 i j k : nat) : V3 := (box_coord sx n0 i, box_coord sy n1 j, box_coord sz n2 k).
Definition box_points (sx sy sz : R) (n0 n1 n2 : nat) (centre tilt : V3) : list V3 :=
  lattice3 n0 n1 n2 (fun i j k => placed tilt centre (box_local sx sy sz n0 n1 n2 i j k)).
(* circle: polar lattice, angle index 1..n0 (outer), radius index 1..n1 (inner) *)
Definition circ_radius (rad : R) (n1 j : nat) : R := INR (S j) / INR n1 * rad.
Definition circ_angle (n0 i : nat) : R := INR (S i) / INR n0 * PI * 2.
Definition polar (r a : R) : V3 := (r * cos a, r * sin a, 0).
Definition circ_local (rad : R) (n0 n1 i j : nat) : V3 := polar (circ_radius rad n1 j) (circ_angle n0 i).
Definition circ_points (rad : R) (n0 n1 : nat) (centre tilt : V3) : list V3 :=
  lattice2 n0 n1 (fun i j => placed tilt centre (circ_local rad n0 n1 i j)).
(* circular_uniform_sample: ring i = 0..n0-1 of radius i/n0 rad carries floor(n1 i / n0) points at angles j / (n1 i / n0) 2 pi *)
Definition cu_count (n0 n1 i : nat) : nat := (n1 * i / n0)%nat.
Definition cu_radius (rad : R) (n0 i : nat) : R := INR i / INR n0 * rad.
Definition cu_angle (n0 n1 i j : nat) : R := INR j / (INR n1 * INR i / INR n0) * 2 * PI.
Definition cu_points (rad : R) (n0 n1 : nat) (centre tilt : V3) : list V3 :=
  flat_map (fun i => map (fun j => placed tilt centre (polar (cu_radius rad n0 i) (cu_angle n0 n1 i j))) (seq 0 (cu_count n0 n1 i))) (seq 0 n0).
(* circular_uniform_random_sample: radii rad sqrt(u) for draws u in [0,1], every radius with every drawn angle *)
Definition cur_points (rad : R) (us angs : list R) (centre tilt : V3) : list V3 :=
  flat_map (fun u => map (fun a => placed tilt centre (polar (rad * sqrt u) a)) angs) us.

(* sphere: psi = k0 pi i / n0, teta = k1 pi j / n1 ; no tilt *)
Definition sphere_pt (rad : R) (c : V3) (psi teta : R) : V3 :=
  (vx c + rad * sin psi * cos teta, vy c + rad * sin psi * sin teta, vz c + rad * cos psi).
Definition sph_angle (k : R) (n i : nat) : R := k * PI / INR n * INR i.
Definition sphere_points (rad : R) (c : V3) (k0 k1 : R) (n0 n1 : nat) : list V3 :=
  lattice2 n0 n1 (fun i j => sphere_pt rad c (sph_angle k0 n0 i) (sph_angle k1 n1 j)).

(* grid of lights, every light emitting `per` rays: ray q*S + s starts at light s *)
Definition grid_lum (centre tilt : V3) (sx sy : R) (n0 n1 per : nat) (lim : R) (U V : nat -> R) : list Ray :=
  let lights := grid_points sx sy n0 n1 centre tilt in
  map (fun k => (nth (k mod (n0 * n1)) lights vzero, lum_dir tilt lim (U k) (V k))) (seq 0 (per * (n0 * n1))).

(* ---------------------------------------------------------------- the described shapes *)
Definition rel (centre tilt p : V3) (axis : V3) : R := vdot (vsub p centre) (rot_xyz (degv tilt) axis).
Definition on_sphere (c : V3) (rad : R) (p : V3) : Prop := vnorm2 (vsub p c) = rad * rad.
Definition in_rect (centre tilt : V3) (sx sy : R) (p : V3) : Prop :=
  Rabs (rel centre tilt p ex) <= sx / 2 /\ Rabs (rel centre tilt p ey) <= sy / 2 /\ rel centre tilt p ez = 0.
Definition in_disc (centre tilt : V3) (rad : R) (p : V3) : Prop :=
  rel centre tilt p ez = 0 /\ vnorm2 (vsub p centre) <= rad * rad.
Definition in_box (centre tilt : V3) (sx sy sz : R) (p : V3) : Prop :=
  Rabs (rel centre tilt p ex) <= sx / 2 /\ Rabs (rel centre tilt p ey) <= sy / 2 /\ Rabs (rel centre tilt p ez) <= sz / 2.

(* ---------------------------------------------------------------- executable parts (B2) *)
Definition idx2 (n0 n1 : nat) : list (nat * nat) := lattice2 n0 n1 (fun i j => (i, j)).
Definition idx3 (n0 n1 n2 : nat) : list (nat * nat * nat) := lattice3 n0 n1 n2 (fun i j k => (i, j, k)).
Definition cu_counts (n0 n1 : nat) : list nat := map (cu_count n0 n1) (seq 0 n0).
Definition lum_origin_index (n0 n1 per : nat) : list nat := map (fun k => k mod (n0 * n1))%nat (seq 0 (per * (n0 * n1))).
Open Scope Q_scope.
Definition qn (n : nat) : Q := inject_Z (Z.of_nat n).
Definition grid_coordQ (s : Q) (n i : nat) : Q := s * qn i / (qn n - 1) - s / 2.
Definition box_coordQ (s : Q) (n i : nat) : Q := qn i * (s / qn n) + s / qn n / 2 - s / 2.
Definition Q3 := (Q * Q * Q)%type.
Definition grid_flatQ (sx sy : Q) (n0 n1 : nat) (c : Q3) : list Q3 :=
  lattice2 n0 n1 (fun i j => (fst (fst c) + grid_coordQ sx n0 i, snd (fst c) + grid_coordQ sy n1 j, snd c)).
Definition box_flatQ (sx sy sz : Q) (n0 n1 n2 : nat) (c : Q3) : list Q3 :=
  lattice3 n0 n1 n2 (fun i j k => (fst (fst c) + box_coordQ sx n0 i, snd (fst c) + box_coordQ sy n1 j, snd c + box_coordQ sz n2 k)).
Definition closeQ (tol a b : Q) : bool := Qle_bool (Qabs (a - b)) tol.
Definition close3 (tol : Q) (p q : Q3) : bool :=
  closeQ tol (fst (fst p)) (fst (fst q)) && closeQ tol (snd (fst p)) (snd (fst q)) && closeQ tol (snd p) (snd q).
Fixpoint close_list (tol : Q) (a b : list Q3) : bool :=
  match a, b with
  | [], [] => true
  | p :: a', q :: b' => close3 tol p q && close_list tol a' b'
  | _, _ => false
  end.
