(* C14 — proofs about the reference model (rays, lattices, rotations, spherical cap, sample shapes). *)
From Coq Require Import Reals Lra Lia Psatz Nsatz QArith Qabs Qreals Bool Arith List.
From OdakV Require Import Base.Vec3 C14.Model.
Import ListNotations.
Open Scope R_scope.

Ltac dv := repeat match goal with v : V3 |- _ => destruct v as [[? ?] ?] end.
Ltac v3eq := f_equal; [f_equal|].
Ltac c14 := repeat progress (unfold ray_at, ray_two, ray_dir, ray_origin, ray_cosines, rot_xyz, rotx, roty, rotz, placed, rel,
                             cap_dir, sphere_pt, polar, ex, ey, ez, vzero in *); v3.

(* ================================================================ rays from two points *)
Lemma sumsq0 a b c : a * a + b * b + c * c = 0 -> a = 0 /\ b = 0 /\ c = 0.
Proof.
  intros H. pose proof (Rle_0_sqr a) as Ha. pose proof (Rle_0_sqr b) as Hb. pose proof (Rle_0_sqr c) as Hc.
  unfold Rsqr in *.
  assert (A : a * a = 0) by lra. assert (B : b * b = 0) by lra. assert (C : c * c = 0) by lra.
  apply Rmult_integral in A, B, C. repeat split; lra.
Qed.

Lemma zero_length_iff p0 p1 : zero_length p0 p1 <-> p0 = p1.
Proof.
  unfold zero_length, vnorm. split.
  - intros H. apply sqrt_eq_0 in H; [|apply vnorm2_nonneg]. dv; v3.
    apply sumsq0 in H. destruct H as (Hx & Hy & Hz). v3eq; lra.
  - intros ->. replace (vnorm2 (vsub p1 p1)) with 0 by (dv; v3; ring). apply sqrt_0.
Qed.

Lemma vsub_nonzero p0 p1 : p0 <> p1 -> vsub p1 p0 <> vzero.
Proof.
  intros H E. apply H. dv. unfold vzero in E; v3. inversion E. v3eq; lra.
Qed.

Lemma dist_pos p0 p1 : p0 <> p1 -> 0 < vnorm (vsub p1 p0).
Proof. intros H. apply vnorm_pos, vnorm2_pos, vsub_nonzero, H. Qed.

Lemma normalize_unit d : d <> vzero -> vnorm2 (vscale (/ vnorm d) d) = 1.
Proof.
  intros H. pose proof (vnorm2_pos _ H) as Hp. pose proof (vnorm_pos _ Hp) as Hn.
  pose proof (vnorm_sq d) as Hs. set (r := vnorm d) in *.
  replace (vnorm2 (vscale (/ r) d)) with (/ r * / r * vnorm2 d) by (clearbody r; destruct d as [[? ?] ?]; v3; ring).
  rewrite <- Hs. field. lra.
Qed.

Lemma two_points_unit p0 p1 : p0 <> p1 -> vnorm2 (ray_cosines (ray_two p0 p1)) = 1.
Proof. intros H. unfold ray_cosines, ray_two, ray_dir. cbn [snd]. apply normalize_unit, vsub_nonzero, H. Qed.

Lemma two_points_origin p0 p1 : ray_origin (ray_two p0 p1) = p0.
Proof. reflexivity. Qed.

Lemma two_points_reach p0 p1 : p0 <> p1 -> ray_at (ray_two p0 p1) (vnorm (vsub p1 p0)) = p1.
Proof.
  intros H. pose proof (dist_pos p0 p1 H) as Hn.
  unfold ray_at, ray_two, ray_dir, ray_origin, ray_cosines. cbn [fst snd].
  set (N := vnorm (vsub p1 p0)) in *. clearbody N. dv; v3. v3eq; field; lra.
Qed.

(* the travelled distance is the only non-negative parameter at which the ray meets the end point *)
Lemma two_points_reach_unique p0 p1 t : p0 <> p1 -> ray_at (ray_two p0 p1) t = p1 -> t = vnorm (vsub p1 p0).
Proof.
  intros H E. pose proof (dist_pos p0 p1 H) as Hn. pose proof (two_points_reach p0 p1 H) as E1.
  pose proof (two_points_unit p0 p1 H) as U.
  unfold ray_at, ray_two, ray_origin, ray_cosines in *. cbn [fst snd] in *.
  set (N := vnorm (vsub p1 p0)) in *. set (d := ray_dir p0 p1) in *. clearbody N d.
  destruct d as [[dx dy] dz]. dv. v3. inversion E; inversion E1. nsatz.
Qed.

(* ================================================================ lists: row-major order and counts *)
Local Open Scope nat_scope.
Lemma flat_map_length_const {A B} (f : A -> list B) n l :
  (forall x, length (f x) = n) -> length (flat_map f l) = (length l * n)%nat.
Proof. intros H. induction l as [|x l IH]; simpl; [reflexivity|]. rewrite app_length, H, IH. reflexivity. Qed.

Lemma flat_map_nth {A B} (f : A -> list B) (n : nat) (l : list A) (da : A) (db : B) i j :
  (forall x, length (f x) = n) -> (i < length l)%nat -> (j < n)%nat ->
  nth (i * n + j) (flat_map f l) db = nth j (f (nth i l da)) db.
Proof.
  intros Hlen. revert i. induction l as [|x l IH]; intros i Hi Hj; [simpl in Hi; lia|].
  simpl flat_map. destruct i as [|i].
  - simpl. rewrite app_nth1; [reflexivity | rewrite Hlen; exact Hj].
  - rewrite app_nth2 by (rewrite Hlen; simpl; lia). rewrite Hlen.
    replace (S i * n + j - n)%nat with (i * n + j)%nat by (simpl; lia).
    cbn [nth]. apply IH; [simpl in Hi; lia | exact Hj].
Qed.

Lemma nth_map_any {A B} (g : A -> B) l k (d : B) (d' : A) : (k < length l)%nat -> nth k (map g l) d = g (nth k l d').
Proof. intros H. rewrite (nth_indep _ d (g d')) by (rewrite map_length; exact H). apply map_nth. Qed.

Lemma nth_map_seq {B} (g : nat -> B) M k (d : B) : (k < M)%nat -> nth k (map g (seq 0 M)) d = g k.
Proof. intros H. rewrite (nth_map_any g _ _ d 0%nat) by (rewrite seq_length; exact H). rewrite seq_nth by exact H. reflexivity. Qed.

Lemma lattice2_length {A} n0 n1 (f : nat -> nat -> A) : length (lattice2 n0 n1 f) = (n0 * n1)%nat.
Proof.
  unfold lattice2. rewrite (flat_map_length_const _ n1), seq_length; [reflexivity|].
  intros x. rewrite map_length, seq_length. reflexivity.
Qed.

Lemma lattice2_nth {A} n0 n1 (f : nat -> nat -> A) d i j :
  (i < n0)%nat -> (j < n1)%nat -> nth (i * n1 + j) (lattice2 n0 n1 f) d = f i j.
Proof.
  intros Hi Hj. unfold lattice2.
  rewrite (flat_map_nth _ n1 _ 0%nat); [| intros x; rewrite map_length, seq_length; reflexivity | rewrite seq_length; exact Hi | exact Hj].
  rewrite seq_nth by exact Hi. apply nth_map_seq, Hj.
Qed.

Lemma lattice2_in {A} n0 n1 (f : nat -> nat -> A) p :
  In p (lattice2 n0 n1 f) <-> exists i j, (i < n0)%nat /\ (j < n1)%nat /\ p = f i j.
Proof.
  unfold lattice2. rewrite in_flat_map. split.
  - intros (i & Hi & Hp). apply in_map_iff in Hp. destruct Hp as (j & E & Hj).
    apply in_seq in Hi. apply in_seq in Hj. exists i, j. repeat split; try lia. symmetry; exact E.
  - intros (i & j & Hi & Hj & ->). exists i. split; [apply in_seq; lia|].
    apply in_map_iff. exists j. split; [reflexivity | apply in_seq; lia].
Qed.

Lemma lattice3_length {A} n0 n1 n2 (f : nat -> nat -> nat -> A) : length (lattice3 n0 n1 n2 f) = (n0 * (n1 * n2))%nat.
Proof.
  unfold lattice3. rewrite (flat_map_length_const _ (n1 * n2)), seq_length; [reflexivity|].
  intros x. apply lattice2_length.
Qed.

Lemma lattice3_nth {A} n0 n1 n2 (f : nat -> nat -> nat -> A) d i j k :
  (i < n0)%nat -> (j < n1)%nat -> (k < n2)%nat -> nth ((i * n1 + j) * n2 + k) (lattice3 n0 n1 n2 f) d = f i j k.
Proof.
  intros Hi Hj Hk. unfold lattice3.
  replace ((i * n1 + j) * n2 + k)%nat with (i * (n1 * n2) + (j * n2 + k))%nat by ring.
  rewrite (flat_map_nth _ (n1 * n2) _ 0%nat); [| intros x; apply lattice2_length | rewrite seq_length; exact Hi | nia].
  rewrite seq_nth by exact Hi. apply lattice2_nth; assumption.
Qed.

Lemma lattice3_in {A} n0 n1 n2 (f : nat -> nat -> nat -> A) p :
  In p (lattice3 n0 n1 n2 f) <-> exists i j k, (i < n0)%nat /\ (j < n1)%nat /\ (k < n2)%nat /\ p = f i j k.
Proof.
  unfold lattice3. rewrite in_flat_map. split.
  - intros (i & Hi & Hp). apply lattice2_in in Hp. destruct Hp as (j & k & Hj & Hk & E).
    apply in_seq in Hi. exists i, j, k. repeat split; try lia. exact E.
  - intros (i & j & k & Hi & Hj & Hk & ->). exists i. split; [apply in_seq; lia|].
    apply lattice2_in. exists j, k. repeat split; assumption.
Qed.

Lemma all_pairs_length ss es : length (all_pairs ss es) = (length ss * length es)%nat.
Proof. unfold all_pairs. apply flat_map_length_const. intros x. apply map_length. Qed.

Lemma all_pairs_nth ss es d i j :
  (i < length ss)%nat -> (j < length es)%nat ->
  nth (i * length es + j) (all_pairs ss es) d = ray_two (nth i ss vzero) (nth j es vzero).
Proof.
  intros Hi Hj. unfold all_pairs.
  rewrite (flat_map_nth _ (length es) _ vzero); [| intros x; apply map_length | exact Hi | exact Hj].
  apply nth_map_any, Hj.
Qed.

Local Open Scope R_scope.
(* every row of the all-pairs result is a sound ray from its start to its end point *)
Lemma all_pairs_sound ss es d i j :
  (i < length ss)%nat -> (j < length es)%nat -> nth i ss vzero <> nth j es vzero ->
  let r := nth (i * length es + j)%nat (all_pairs ss es) d in
  ray_origin r = nth i ss vzero /\ vnorm2 (ray_cosines r) = 1 /\
  ray_at r (vnorm (vsub (nth j es vzero) (nth i ss vzero))) = nth j es vzero.
Proof.
  intros Hi Hj Hne r. unfold r. rewrite all_pairs_nth by assumption.
  repeat split; [apply two_points_unit | apply two_points_reach]; exact Hne.
Qed.

(* ---- batch_of_rays *)
Lemma batch_length entries exits : length (batch_rays entries exits) = Nat.max (length entries) (length exits).
Proof. unfold batch_rays. rewrite map_length, seq_length. reflexivity. Qed.

Lemma batch_nth entries exits d i : (i < Nat.max (length entries) (length exits))%nat ->
  nth i (batch_rays entries exits) d = ray_two (pick entries i) (pick exits i).
Proof.
  intros H. unfold batch_rays.
  rewrite (nth_map_seq (fun k => ray_two (pick entries k) (pick exits k))) by exact H. reflexivity.
Qed.

Lemma pick_single p i : pick [p] i = p.
Proof. reflexivity. Qed.
Lemma pick_many l i : length l <> 1%nat -> pick l i = nth i l vzero.
Proof. intros H. unfold pick. apply Nat.eqb_neq in H. rewrite H. reflexivity. Qed.

Lemma batch_sound entries exits d i : (i < Nat.max (length entries) (length exits))%nat ->
  pick entries i <> pick exits i ->
  let r := nth i (batch_rays entries exits) d in
  ray_origin r = pick entries i /\ vnorm2 (ray_cosines r) = 1 /\
  ray_at r (vnorm (vsub (pick exits i) (pick entries i))) = pick exits i.
Proof.
  intros Hi Hne r. unfold r. rewrite batch_nth by exact Hi.
  repeat split; [apply two_points_unit | apply two_points_reach]; exact Hne.
Qed.

(* ================================================================ rotations *)
Lemma rotx_dot a u v : vdot (rotx a u) (rotx a v) = vdot u v.
Proof. dv. c14. pose proof (sin2_cos2 a) as H. unfold Rsqr in H. nsatz. Qed.
Lemma roty_dot a u v : vdot (roty a u) (roty a v) = vdot u v.
Proof. dv. c14. pose proof (sin2_cos2 a) as H. unfold Rsqr in H. nsatz. Qed.
Lemma rotz_dot a u v : vdot (rotz a u) (rotz a v) = vdot u v.
Proof. dv. c14. pose proof (sin2_cos2 a) as H. unfold Rsqr in H. nsatz. Qed.

Lemma rot_dot t u v : vdot (rot_xyz t u) (rot_xyz t v) = vdot u v.
Proof. unfold rot_xyz. rewrite rotz_dot, roty_dot, rotx_dot. reflexivity. Qed.

Lemma rot_norm2 t v : vnorm2 (rot_xyz t v) = vnorm2 v.
Proof. unfold vnorm2. apply rot_dot. Qed.

Lemma rot_zero_angles v : rot_xyz (degv (0, 0, 0)) v = v.
Proof.
  unfold rot_xyz, degv, deg. cbn [vx vy vz fst snd]. replace (0 * PI / 180) with 0 by field.
  dv. unfold rotx, roty, rotz; v3. rewrite cos_0, sin_0. v3eq; ring.
Qed.

Lemma vadd_sub q c : vsub (vadd q c) c = q.
Proof. dv; v3. v3eq; ring. Qed.

Lemma placed_rel tilt centre v axis : rel centre tilt (placed tilt centre v) axis = vdot v axis.
Proof. unfold rel, placed. rewrite vadd_sub. apply rot_dot. Qed.

Lemma placed_dist tilt centre v : vnorm2 (vsub (placed tilt centre v) centre) = vnorm2 v.
Proof. unfold placed. rewrite vadd_sub. apply rot_norm2. Qed.

Lemma placed_untilted centre v : placed (0, 0, 0) centre v = vadd v centre.
Proof. unfold placed. rewrite rot_zero_angles. reflexivity. Qed.

Lemma dot_ex v : vdot v ex = vx v. Proof. dv; c14; ring. Qed.
Lemma dot_ey v : vdot v ey = vy v. Proof. dv; c14; ring. Qed.
Lemma dot_ez v : vdot v ez = vz v. Proof. dv; c14; ring. Qed.

(* ================================================================ luminous-angle rays *)
Lemma cap_within_limit U ca : 0 <= U <= 1 -> -1 <= ca <= 1 -> ca <= cap_cos 1 U ca <= 1.
Proof. intros HU Hc. unfold cap_cos. split; nra. Qed.

(* the anchor's multiplier c = 2 (the code before the repair) leaves the cone *)
Lemma cap_c2_refuted : exists U lim, 0 <= U < 1 /\ 0 <= lim <= 90 /\ cap_cos 2 U (cos (deg lim)) < cos (deg lim).
Proof.
  exists (3 / 4), 60. repeat split; try lra.
  replace (deg 60) with (PI / 3) by (unfold deg; field). rewrite cos_PI3. unfold cap_cos. lra.
Qed.

Lemma cap_c2_angle_refuted : exists U lim, 0 <= U < 1 /\ 0 <= lim <= 90 /\ deg lim < acos (cap_cos 2 U (cos (deg lim))).
Proof.
  exists (3 / 4), 60. repeat split; try lra.
  replace (deg 60) with (PI / 3) by (unfold deg; field). rewrite cos_PI3.
  replace (cap_cos 2 (3 / 4) (1 / 2)) with (1 / 4) by (unfold cap_cos; field).
  apply Rnot_le_lt. intros H.
  pose proof (acos_bound (1 / 4)) as [B0 B1]. pose proof PI_RGT_0 as Hpi.
  assert (C : cos (PI / 3) <= cos (acos (1 / 4))) by (apply cos_decr_1; lra).
  rewrite cos_PI3, cos_acos in C; lra.
Qed.

(* what does hold for c = 2: the bound 2 cos(limit) - 1, attained at U = 1 *)
Lemma cap_c2_partial U ca : 0 <= U <= 1 -> -1 <= ca <= 1 -> 2 * ca - 1 <= cap_cos 2 U ca <= 1.
Proof. intros HU Hc. unfold cap_cos. split; nra. Qed.

Lemma cap_dir_unit theta phi : vnorm2 (cap_dir theta phi) = 1.
Proof.
  c14. pose proof (sin2_cos2 theta) as H1. pose proof (sin2_cos2 phi) as H2. unfold Rsqr in *. nsatz.
Qed.

Lemma lum_unit tilt lim U V : vnorm2 (lum_dir tilt lim U V) = 1.
Proof. unfold lum_dir. rewrite rot_norm2. apply cap_dir_unit. Qed.

Lemma lum_axis_unit tilt : vnorm2 (lum_axis tilt) = 1.
Proof. unfold lum_axis. rewrite rot_norm2. c14. ring. Qed.

Lemma lum_dot tilt lim U V : vdot (lum_dir tilt lim U V) (lum_axis tilt) = cos (lum_theta lim U).
Proof. unfold lum_dir, lum_axis. rewrite rot_dot, dot_ez. reflexivity. Qed.

Lemma lum_cos lim U : 0 <= U <= 1 -> cos (lum_theta lim U) = cap_cos 1 U (cos (deg lim)).
Proof.
  intros HU. unfold lum_theta. apply cos_acos.
  pose proof (COS_bound (deg lim)) as B. pose proof (cap_within_limit U (cos (deg lim)) HU B). lra.
Qed.

Lemma deg_range lim : 0 <= lim <= 180 -> 0 <= deg lim <= PI.
Proof. intros H. pose proof PI_RGT_0. unfold deg. split; nra. Qed.

(* unit length, cosine of the deviation at least cos(limit), deviation angle at most the limit *)
Lemma lum_within_limit tilt lim U V : 0 <= U <= 1 -> 0 <= lim <= 180 ->
  vnorm2 (lum_dir tilt lim U V) = 1 /\
  cos (deg lim) <= vdot (lum_dir tilt lim U V) (lum_axis tilt) /\
  acos (vdot (lum_dir tilt lim U V) (lum_axis tilt)) <= deg lim.
Proof.
  intros HU HL. split; [apply lum_unit|]. rewrite lum_dot, (lum_cos lim U HU).
  pose proof (COS_bound (deg lim)) as B. pose proof (cap_within_limit U (cos (deg lim)) HU B) as [C0 C1].
  split; [exact C0|]. pose proof (deg_range lim HL) as [D0 D1].
  pose proof (acos_bound (cap_cos 1 U (cos (deg lim)))) as [A0 A1].
  apply cos_decr_0; try assumption. rewrite cos_acos by lra. exact C0.
Qed.

Lemma lum_ray_origin origin tilt lim U V : ray_origin (lum_ray origin tilt lim U V) = origin.
Proof. reflexivity. Qed.

(* ================================================================ sample generators *)
Lemma INR_2 : INR 2 = 2. Proof. simpl; ring. Qed.

Lemma grid_coord_bounds s n i : 0 <= s -> (2 <= n)%nat -> (i < n)%nat -> - (s / 2) <= grid_coord s n i <= s / 2.
Proof.
  intros Hs Hn Hi. unfold grid_coord.
  assert (H2 : 2 <= INR n) by (rewrite <- INR_2; apply le_INR, Hn).
  assert (H0 : 0 <= INR i) by apply pos_INR.
  assert (H1 : INR i + 1 <= INR n) by (rewrite <- S_INR; apply le_INR; lia).
  assert (F : 0 <= INR i / (INR n - 1) <= 1).
  { split; [apply Rmult_le_pos; [lra | left; apply Rinv_0_lt_compat; lra]|].
    apply (Rmult_le_reg_r (INR n - 1)); [lra|]. unfold Rdiv. rewrite Rmult_assoc, Rinv_l by lra. lra. }
  replace (s * INR i / (INR n - 1)) with (s * (INR i / (INR n - 1))) by (field; lra).
  split; nra.
Qed.

Lemma grid_coord_first s n : grid_coord s n 0 = - (s / 2).
Proof. unfold grid_coord. simpl INR. unfold Rdiv. ring. Qed.

Lemma grid_coord_last s n : (2 <= n)%nat -> grid_coord s n (n - 1) = s / 2.
Proof.
  intros Hn. unfold grid_coord. rewrite minus_INR by lia.
  assert (H2 : 2 <= INR n) by (rewrite <- INR_2; apply le_INR, Hn). simpl INR. field. lra.
Qed.

(* the NumPy grid step size/(no - 1) has a vanishing denominator for a single row or column: the
   lattice theorems above need at least 2 points per axis (open finding C14-numpy-grid-single) *)
Lemma grid_single_refuted : exists n, (1 <= n)%nat /\ INR n - 1 = 0.
Proof. exists 1%nat. split; [lia | simpl; lra]. Qed.

Lemma box_coord_bounds s n i : 0 <= s -> (1 <= n)%nat -> (i < n)%nat -> - (s / 2) <= box_coord s n i <= s / 2.
Proof.
  intros Hs Hn Hi. unfold box_coord.
  assert (H1 : 1 <= INR n) by (change 1 with (INR 1); apply le_INR, Hn).
  assert (H0 : 0 <= INR i) by apply pos_INR.
  assert (H2 : INR i + 1 <= INR n) by (rewrite <- S_INR; apply le_INR; lia).
  assert (Hq : 0 <= s / INR n) by (apply Rmult_le_pos; [lra | left; apply Rinv_0_lt_compat; lra]).
  assert (E : s = s / INR n * INR n) by (field; lra).
  set (q := s / INR n) in *. clearbody q. rewrite E at 3 4. split; nra.
Qed.

(* cell centres: symmetric about the centre, spacing size/no *)
Lemma box_coord_step s n i : (1 <= n)%nat -> box_coord s n (S i) - box_coord s n i = s / INR n.
Proof.
  intros Hn. unfold box_coord. rewrite S_INR.
  assert (H1 : 1 <= INR n) by (change 1 with (INR 1); apply le_INR, Hn). field. lra.
Qed.

Lemma circ_radius_bounds rad n1 j : 0 <= rad -> (j < n1)%nat -> 0 <= circ_radius rad n1 j <= rad.
Proof.
  intros Hr Hj. unfold circ_radius.
  assert (H0 : 0 < INR (S j)) by (apply lt_0_INR; lia).
  assert (H1 : INR (S j) <= INR n1) by (apply le_INR; lia).
  assert (F : 0 <= INR (S j) / INR n1 <= 1).
  { split; [apply Rmult_le_pos; [lra | left; apply Rinv_0_lt_compat; lra]|].
    apply (Rmult_le_reg_r (INR n1)); [lra|]. unfold Rdiv. rewrite Rmult_assoc, Rinv_l by lra. lra. }
  split; nra.
Qed.

Lemma circ_radius_rim rad n1 : (1 <= n1)%nat -> circ_radius rad n1 (n1 - 1) = rad.
Proof.
  intros Hn. unfold circ_radius. replace (S (n1 - 1)) with n1 by lia.
  assert (H1 : 1 <= INR n1) by (change 1 with (INR 1); apply le_INR, Hn). field. lra.
Qed.

Lemma polar_norm2 r a : vnorm2 (polar r a) = r * r.
Proof. c14. pose proof (sin2_cos2 a) as H. unfold Rsqr in H. nsatz. Qed.

Lemma sphere_on rad c psi teta : on_sphere c rad (sphere_pt rad c psi teta).
Proof.
  unfold on_sphere. dv. c14.
  pose proof (sin2_cos2 psi) as H1. pose proof (sin2_cos2 teta) as H2. unfold Rsqr in *. nsatz.
Qed.

Lemma grid_point_in sx sy n0 n1 centre tilt i j :
  0 <= sx -> 0 <= sy -> (2 <= n0)%nat -> (2 <= n1)%nat -> (i < n0)%nat -> (j < n1)%nat ->
  in_rect centre tilt sx sy (placed tilt centre (grid_local sx sy n0 n1 i j)).
Proof.
  intros Hx Hy H0 H1 Hi Hj. unfold in_rect. rewrite !placed_rel, dot_ex, dot_ey, dot_ez.
  unfold grid_local. cbn [vx vy vz fst snd].
  pose proof (grid_coord_bounds sx n0 i Hx H0 Hi). pose proof (grid_coord_bounds sy n1 j Hy H1 Hj).
  repeat split; try apply Rabs_le; lra.
Qed.

Lemma grid_in sx sy n0 n1 centre tilt :
  0 <= sx -> 0 <= sy -> (2 <= n0)%nat -> (2 <= n1)%nat ->
  Forall (in_rect centre tilt sx sy) (grid_points sx sy n0 n1 centre tilt).
Proof.
  intros Hx Hy H0 H1. apply Forall_forall. intros p Hp. apply lattice2_in in Hp.
  destruct Hp as (i & j & Hi & Hj & ->). apply grid_point_in; assumption.
Qed.

(* the lattice spans the requested size: first/last rows and columns sit on the rectangle's edges *)
Lemma grid_extent sx sy n0 n1 i j : (2 <= n0)%nat -> (2 <= n1)%nat ->
  vx (grid_local sx sy n0 n1 0 j) = - (sx / 2) /\ vx (grid_local sx sy n0 n1 (n0 - 1) j) = sx / 2 /\
  vy (grid_local sx sy n0 n1 i 0) = - (sy / 2) /\ vy (grid_local sx sy n0 n1 i (n1 - 1)) = sy / 2.
Proof.
  intros H0 H1. unfold grid_local. cbn [vx vy fst snd].
  rewrite !grid_coord_first, !grid_coord_last by assumption. repeat split; reflexivity.
Qed.

Lemma box_point_in sx sy sz n0 n1 n2 centre tilt i j k :
  0 <= sx -> 0 <= sy -> 0 <= sz -> (1 <= n0)%nat -> (1 <= n1)%nat -> (1 <= n2)%nat ->
  (i < n0)%nat -> (j < n1)%nat -> (k < n2)%nat ->
  in_box centre tilt sx sy sz (placed tilt centre (box_local sx sy sz n0 n1 n2 i j k)).
Proof.
  intros Hx Hy Hz H0 H1 H2 Hi Hj Hk. unfold in_box. rewrite !placed_rel, dot_ex, dot_ey, dot_ez.
  unfold box_local. cbn [vx vy vz fst snd].
  pose proof (box_coord_bounds sx n0 i Hx H0 Hi). pose proof (box_coord_bounds sy n1 j Hy H1 Hj).
  pose proof (box_coord_bounds sz n2 k Hz H2 Hk). repeat split; apply Rabs_le; lra.
Qed.

Lemma box_in sx sy sz n0 n1 n2 centre tilt :
  0 <= sx -> 0 <= sy -> 0 <= sz -> (1 <= n0)%nat -> (1 <= n1)%nat -> (1 <= n2)%nat ->
  Forall (in_box centre tilt sx sy sz) (box_points sx sy sz n0 n1 n2 centre tilt).
Proof.
  intros Hx Hy Hz H0 H1 H2. apply Forall_forall. intros p Hp. apply lattice3_in in Hp.
  destruct Hp as (i & j & k & Hi & Hj & Hk & ->). apply box_point_in; assumption.
Qed.

Lemma circ_point_in rad n0 n1 centre tilt i j : 0 <= rad -> (j < n1)%nat ->
  in_disc centre tilt rad (placed tilt centre (circ_local rad n0 n1 i j)).
Proof.
  intros Hr Hj. unfold in_disc. rewrite placed_rel, dot_ez, placed_dist. unfold circ_local.
  rewrite polar_norm2. split; [reflexivity|].
  pose proof (circ_radius_bounds rad n1 j Hr Hj). nra.
Qed.

Lemma circle_in rad n0 n1 centre tilt : 0 <= rad ->
  Forall (in_disc centre tilt rad) (circ_points rad n0 n1 centre tilt).
Proof.
  intros Hr. apply Forall_forall. intros p Hp. apply lattice2_in in Hp.
  destruct Hp as (i & j & Hi & Hj & ->). apply circ_point_in; assumption.
Qed.

(* the outermost ring has the requested radius *)
Lemma circle_rim rad n0 n1 centre tilt i : (1 <= n1)%nat ->
  vnorm2 (vsub (placed tilt centre (circ_local rad n0 n1 i (n1 - 1))) centre) = rad * rad.
Proof. intros H. rewrite placed_dist. unfold circ_local. rewrite polar_norm2, circ_radius_rim by exact H. reflexivity. Qed.

(* ---- circular_uniform_sample / circular_uniform_random_sample *)
Lemma flat_map_length_sum {A B} (f : A -> list B) l : length (flat_map f l) = list_sum (map (fun x => length (f x)) l).
Proof. induction l as [|x l IH]; simpl; [reflexivity|]. rewrite app_length, IH. reflexivity. Qed.

Lemma cu_radius_bounds rad n0 i : 0 <= rad -> (i < n0)%nat -> 0 <= cu_radius rad n0 i <= rad.
Proof.
  intros Hr Hi. unfold cu_radius.
  assert (H0 : 0 <= INR i) by apply pos_INR.
  assert (H1 : INR i + 1 <= INR n0) by (rewrite <- S_INR; apply le_INR; lia).
  assert (F : 0 <= INR i / INR n0 <= 1).
  { split; [apply Rmult_le_pos; [lra | left; apply Rinv_0_lt_compat; lra]|].
    apply (Rmult_le_reg_r (INR n0)); [lra|]. unfold Rdiv. rewrite Rmult_assoc, Rinv_l by lra. lra. }
  split; nra.
Qed.

Lemma polar_in_disc rad centre tilt r a : 0 <= r <= rad -> in_disc centre tilt rad (placed tilt centre (polar r a)).
Proof.
  intros H. unfold in_disc. rewrite placed_rel, dot_ez, placed_dist, polar_norm2. split; [reflexivity | nra].
Qed.

Lemma circle_uniform_in rad n0 n1 centre tilt : 0 <= rad ->
  Forall (in_disc centre tilt rad) (cu_points rad n0 n1 centre tilt).
Proof.
  intros Hr. apply Forall_forall. intros p Hp. unfold cu_points in Hp. apply in_flat_map in Hp.
  destruct Hp as (i & Hi & Hp). apply in_map_iff in Hp. destruct Hp as (j & <- & _). apply in_seq in Hi.
  apply polar_in_disc, cu_radius_bounds; [exact Hr | lia].
Qed.

Lemma count_circle_uniform rad n0 n1 centre tilt :
  length (cu_points rad n0 n1 centre tilt) = list_sum (cu_counts n0 n1).
Proof.
  unfold cu_points, cu_counts. rewrite flat_map_length_sum. f_equal. apply map_ext. intros i.
  rewrite map_length, seq_length. reflexivity.
Qed.

Lemma circle_random_in rad us angs centre tilt : 0 <= rad -> Forall (fun u => 0 <= u <= 1) us ->
  Forall (in_disc centre tilt rad) (cur_points rad us angs centre tilt).
Proof.
  intros Hr HU. apply Forall_forall. intros p Hp. unfold cur_points in Hp. apply in_flat_map in Hp.
  destruct Hp as (u & Hu & Hp). apply in_map_iff in Hp. destruct Hp as (a & <- & _).
  rewrite Forall_forall in HU. specialize (HU u Hu).
  apply polar_in_disc.
  assert (S0 : 0 <= sqrt u) by apply sqrt_pos.
  assert (S1 : sqrt u <= 1) by (rewrite <- sqrt_1; apply sqrt_le_1; lra).
  split; nra.
Qed.

Lemma count_circle_random rad us angs centre tilt :
  length (cur_points rad us angs centre tilt) = (length us * length angs)%nat.
Proof. unfold cur_points. apply flat_map_length_const. intros u. apply map_length. Qed.

Lemma sphere_all_on rad c k0 k1 n0 n1 : Forall (on_sphere c rad) (sphere_points rad c k0 k1 n0 n1).
Proof.
  apply Forall_forall. intros p Hp. apply lattice2_in in Hp.
  destruct Hp as (i & j & Hi & Hj & ->). apply sphere_on.
Qed.

Lemma count_grid sx sy n0 n1 centre tilt : length (grid_points sx sy n0 n1 centre tilt) = (n0 * n1)%nat.
Proof. apply lattice2_length. Qed.
Lemma count_circle rad n0 n1 centre tilt : length (circ_points rad n0 n1 centre tilt) = (n0 * n1)%nat.
Proof. apply lattice2_length. Qed.
Lemma count_sphere rad c k0 k1 n0 n1 : length (sphere_points rad c k0 k1 n0 n1) = (n0 * n1)%nat.
Proof. apply lattice2_length. Qed.
Lemma count_box sx sy sz n0 n1 n2 centre tilt : length (box_points sx sy sz n0 n1 n2 centre tilt) = (n0 * (n1 * n2))%nat.
Proof. apply lattice3_length. Qed.

(* ================================================================ grid of lights *)
Lemma grid_lum_length centre tilt sx sy n0 n1 per lim U V :
  length (grid_lum centre tilt sx sy n0 n1 per lim U V) = (per * (n0 * n1))%nat.
Proof. unfold grid_lum. cbv zeta. rewrite map_length, seq_length. reflexivity. Qed.

Lemma grid_lum_nth centre tilt sx sy n0 n1 per lim U V d q s :
  (q < per)%nat -> (s < n0 * n1)%nat ->
  nth (q * (n0 * n1) + s) (grid_lum centre tilt sx sy n0 n1 per lim U V) d =
  (nth s (grid_points sx sy n0 n1 centre tilt) vzero, lum_dir tilt lim (U (q * (n0 * n1) + s)%nat) (V (q * (n0 * n1) + s)%nat)).
Proof.
  intros Hq Hs. unfold grid_lum. cbv zeta. rewrite nth_map_seq by nia.
  replace ((q * (n0 * n1) + s) mod (n0 * n1))%nat with s; [reflexivity|].
  rewrite Nat.add_comm, Nat.mod_add by lia. symmetry. apply Nat.mod_small, Hs.
Qed.

(* every light (i, j) of the grid is the origin of `per` rays; all of them are unit and inside the cone *)
Lemma grid_lum_sound centre tilt sx sy n0 n1 per lim U V d q i j :
  (forall k, 0 <= U k <= 1) -> 0 <= lim <= 180 -> 0 <= sx -> 0 <= sy -> (2 <= n0)%nat -> (2 <= n1)%nat ->
  (q < per)%nat -> (i < n0)%nat -> (j < n1)%nat ->
  let r := nth (q * (n0 * n1) + (i * n1 + j)) (grid_lum centre tilt sx sy n0 n1 per lim U V) d in
  ray_origin r = placed tilt centre (grid_local sx sy n0 n1 i j) /\
  in_rect centre tilt sx sy (ray_origin r) /\
  vnorm2 (ray_cosines r) = 1 /\ acos (vdot (ray_cosines r) (lum_axis tilt)) <= deg lim.
Proof.
  intros HU HL Hx Hy H0 H1 Hq Hi Hj r. unfold r. rewrite grid_lum_nth by nia.
  unfold ray_origin, ray_cosines. cbn [fst snd]. unfold grid_points. rewrite lattice2_nth by assumption.
  pose proof (lum_within_limit tilt lim (U (q * (n0 * n1) + (i * n1 + j))%nat) (V (q * (n0 * n1) + (i * n1 + j))%nat) (HU _) HL) as (A & _ & B).
  split; [reflexivity|]. split; [apply grid_point_in; assumption|]. split; assumption.
Qed.

(* ================================================================ rational axis coordinates (B2) *)
Lemma qn_R n : Q2R (qn n) = INR n.
Proof. unfold qn, Q2R. simpl. rewrite Rinv_1, Rmult_1_r. symmetry. apply INR_IZR_INZ. Qed.
Lemma Q2R_2 : Q2R 2 = 2.
Proof. unfold Q2R; simpl; lra. Qed.
Lemma Q2_neq : ~ (2 == 0)%Q.
Proof. intros H. apply Qeq_eqR in H. rewrite Q2R_2, RMicromega.Q2R_0 in H. lra. Qed.

Lemma grid_coordQ_R s n i : (2 <= n)%nat -> Q2R (grid_coordQ s n i) = grid_coord (Q2R s) n i.
Proof.
  intros Hn. assert (H2 : 2 <= INR n) by (rewrite <- INR_2; apply le_INR, Hn).
  assert (Hd : ~ (qn n - 1 == 0)%Q).
  { intros H. apply Qeq_eqR in H. rewrite Q2R_minus, qn_R, RMicromega.Q2R_1, RMicromega.Q2R_0 in H. lra. }
  unfold grid_coordQ, grid_coord.
  rewrite Q2R_minus, !Q2R_div, Q2R_mult, Q2R_minus, !qn_R, RMicromega.Q2R_1, Q2R_2 by (exact Hd || exact Q2_neq).
  reflexivity.
Qed.

Lemma box_coordQ_R s n i : (1 <= n)%nat -> Q2R (box_coordQ s n i) = box_coord (Q2R s) n i.
Proof.
  intros Hn. assert (H1 : 1 <= INR n) by (change 1 with (INR 1); apply le_INR, Hn).
  assert (Hd : ~ (qn n == 0)%Q).
  { intros H. apply Qeq_eqR in H. rewrite qn_R, RMicromega.Q2R_0 in H. lra. }
  unfold box_coordQ, box_coord.
  rewrite Q2R_minus, Q2R_plus, Q2R_mult, !Q2R_div, !qn_R, Q2R_2 by (exact Hd || exact Q2_neq).
  reflexivity.
Qed.

Lemma closeQ_sound tol a b : closeQ tol a b = true -> Rabs (Q2R a - Q2R b) <= Q2R tol.
Proof.
  unfold closeQ. intros H. apply Qle_bool_iff in H. apply Qabs_Qle_condition in H. destruct H as [L U].
  apply Qle_Rle in L. apply Qle_Rle in U. rewrite Q2R_opp in L. rewrite Q2R_minus in L, U.
  apply Rabs_le. lra.
Qed.
