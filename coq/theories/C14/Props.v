(* C14 — generated rays and sample points lie where their description says (reference model).
   The code traced from /repo is proved equal to this model on every run (coq/tie/C14_Tie*.v), where the
   clauses are also restated on the traced definitions. *)
From Coq Require Import Reals QArith Qreals List.
From OdakV Require Import Base.Vec3 C14.Model C14.Lemmas.
Open Scope R_scope.

(* ---- rays from two points: unit cosines; the end point is reached after the distance between the points *)
Theorem C14_two_points_unit : forall p0 p1, p0 <> p1 -> vnorm2 (ray_cosines (ray_two p0 p1)) = 1.
Proof. exact two_points_unit. Qed.
Theorem C14_two_points_reach : forall p0 p1, p0 <> p1 -> ray_at (ray_two p0 p1) (vnorm (vsub p1 p0)) = p1.
Proof. exact two_points_reach. Qed.
Theorem C14_two_points_reach_unique : forall p0 p1 t, p0 <> p1 -> ray_at (ray_two p0 p1) t = p1 -> t = vnorm (vsub p1 p0).
Proof. exact two_points_reach_unique. Qed.
(* the NaN guard of the code (length = 0) fires exactly for coinciding points *)
Theorem C14_zero_length_iff : forall p0 p1, zero_length p0 p1 <-> p0 = p1.
Proof. exact zero_length_iff. Qed.

(* ---- all pairs: one ray per (start, end) pair, row-major *)
Theorem C14_all_pairs_count : forall ss es, length (all_pairs ss es) = (length ss * length es)%nat.
Proof. exact all_pairs_length. Qed.
Theorem C14_all_pairs_nth : forall ss es d i j, (i < length ss)%nat -> (j < length es)%nat ->
  nth (i * length es + j) (all_pairs ss es) d = ray_two (nth i ss vzero) (nth j es vzero).
Proof. exact all_pairs_nth. Qed.
Theorem C14_all_pairs_sound : forall ss es d i j,
  (i < length ss)%nat -> (j < length es)%nat -> nth i ss vzero <> nth j es vzero ->
  let r := nth (i * length es + j)%nat (all_pairs ss es) d in
  ray_origin r = nth i ss vzero /\ vnorm2 (ray_cosines r) = 1 /\
  ray_at r (vnorm (vsub (nth j es vzero) (nth i ss vzero))) = nth j es vzero.
Proof. exact all_pairs_sound. Qed.

(* ---- batch_of_rays: ray i from entry i to exit i, a single entry / exit is shared by all rays *)
Theorem C14_batch_count : forall entries exits, length (batch_rays entries exits) = Nat.max (length entries) (length exits).
Proof. exact batch_length. Qed.
Theorem C14_batch_sound : forall entries exits d i, (i < Nat.max (length entries) (length exits))%nat ->
  pick entries i <> pick exits i ->
  let r := nth i (batch_rays entries exits) d in
  ray_origin r = pick entries i /\ vnorm2 (ray_cosines r) = 1 /\
  ray_at r (vnorm (vsub (pick exits i) (pick entries i))) = pick exits i.
Proof. exact batch_sound. Qed.

(* ---- luminous-angle rays *)
Theorem C14_cap_within_limit : forall U ca, 0 <= U <= 1 -> -1 <= ca <= 1 -> ca <= cap_cos 1 U ca <= 1.
Proof. exact cap_within_limit. Qed.
Theorem C14_cap_c2_refuted : exists U lim, 0 <= U < 1 /\ 0 <= lim <= 90 /\ cap_cos 2 U (cos (deg lim)) < cos (deg lim).
Proof. exact cap_c2_refuted. Qed.
Theorem C14_cap_c2_angle_refuted : exists U lim, 0 <= U < 1 /\ 0 <= lim <= 90 /\ deg lim < acos (cap_cos 2 U (cos (deg lim))).
Proof. exact cap_c2_angle_refuted. Qed.
Theorem C14_cap_c2_partial : forall U ca, 0 <= U <= 1 -> -1 <= ca <= 1 -> 2 * ca - 1 <= cap_cos 2 U ca <= 1.
Proof. exact cap_c2_partial. Qed.
Theorem C14_cap_unit : forall theta phi, vnorm2 (cap_dir theta phi) = 1.
Proof. exact cap_dir_unit. Qed.
Theorem C14_tilt_preserves_angle : forall t u v, vdot (rot_xyz t u) (rot_xyz t v) = vdot u v.
Proof. exact rot_dot. Qed.
Theorem C14_lum_within_limit : forall tilt lim U V, 0 <= U <= 1 -> 0 <= lim <= 180 ->
  vnorm2 (lum_dir tilt lim U V) = 1 /\
  cos (deg lim) <= vdot (lum_dir tilt lim U V) (lum_axis tilt) /\
  acos (vdot (lum_dir tilt lim U V) (lum_axis tilt)) <= deg lim.
Proof. exact lum_within_limit. Qed.
Theorem C14_lum_axis_unit : forall tilt, vnorm2 (lum_axis tilt) = 1.
Proof. exact lum_axis_unit. Qed.
Theorem C14_grid_lum_count : forall centre tilt sx sy n0 n1 per lim U V,
  length (grid_lum centre tilt sx sy n0 n1 per lim U V) = (per * (n0 * n1))%nat.
Proof. exact grid_lum_length. Qed.
Theorem C14_grid_lum_sound : forall centre tilt sx sy n0 n1 per lim U V d q i j,
  (forall k, 0 <= U k <= 1) -> 0 <= lim <= 180 -> 0 <= sx -> 0 <= sy -> (2 <= n0)%nat -> (2 <= n1)%nat ->
  (q < per)%nat -> (i < n0)%nat -> (j < n1)%nat ->
  let r := nth (q * (n0 * n1) + (i * n1 + j)) (grid_lum centre tilt sx sy n0 n1 per lim U V) d in
  ray_origin r = placed tilt centre (grid_local sx sy n0 n1 i j) /\
  in_rect centre tilt sx sy (ray_origin r) /\
  vnorm2 (ray_cosines r) = 1 /\ acos (vdot (ray_cosines r) (lum_axis tilt)) <= deg lim.
Proof. exact grid_lum_sound. Qed.

(* ---- sample generators: every point on / in the described shape, with centre and tilt *)
Theorem C14_placed_rel : forall tilt centre v axis, rel centre tilt (placed tilt centre v) axis = vdot v axis.
Proof. exact placed_rel. Qed.
Theorem C14_placed_dist : forall tilt centre v, vnorm2 (vsub (placed tilt centre v) centre) = vnorm2 v.
Proof. exact placed_dist. Qed.
Theorem C14_sphere_on : forall rad c k0 k1 n0 n1, Forall (on_sphere c rad) (sphere_points rad c k0 k1 n0 n1).
Proof. exact sphere_all_on. Qed.
Theorem C14_circle_in : forall rad n0 n1 centre tilt, 0 <= rad -> Forall (in_disc centre tilt rad) (circ_points rad n0 n1 centre tilt).
Proof. exact circle_in. Qed.
Theorem C14_circle_rim : forall rad n0 n1 centre tilt i, (1 <= n1)%nat ->
  vnorm2 (vsub (placed tilt centre (circ_local rad n0 n1 i (n1 - 1))) centre) = rad * rad.
Proof. exact circle_rim. Qed.
Theorem C14_circle_uniform_in : forall rad n0 n1 centre tilt, 0 <= rad -> Forall (in_disc centre tilt rad) (cu_points rad n0 n1 centre tilt).
Proof. exact circle_uniform_in. Qed.
Theorem C14_count_circle_uniform : forall rad n0 n1 centre tilt, length (cu_points rad n0 n1 centre tilt) = list_sum (cu_counts n0 n1).
Proof. exact count_circle_uniform. Qed.
Theorem C14_circle_random_in : forall rad us angs centre tilt, 0 <= rad -> Forall (fun u => 0 <= u <= 1) us ->
  Forall (in_disc centre tilt rad) (cur_points rad us angs centre tilt).
Proof. exact circle_random_in. Qed.
Theorem C14_count_circle_random : forall rad us angs centre tilt, length (cur_points rad us angs centre tilt) = (length us * length angs)%nat.
Proof. exact count_circle_random. Qed.
Theorem C14_grid_in : forall sx sy n0 n1 centre tilt, 0 <= sx -> 0 <= sy -> (2 <= n0)%nat -> (2 <= n1)%nat ->
  Forall (in_rect centre tilt sx sy) (grid_points sx sy n0 n1 centre tilt).
Proof. exact grid_in. Qed.
Theorem C14_grid_extent : forall sx sy n0 n1 i j, (2 <= n0)%nat -> (2 <= n1)%nat ->
  vx (grid_local sx sy n0 n1 0 j) = - (sx / 2) /\ vx (grid_local sx sy n0 n1 (n0 - 1) j) = sx / 2 /\
  vy (grid_local sx sy n0 n1 i 0) = - (sy / 2) /\ vy (grid_local sx sy n0 n1 i (n1 - 1)) = sy / 2.
Proof. exact grid_extent. Qed.
(* plain arithmetic (1 - 1 = 0), NOT a statement about the generator: it only records why the model's grid_coord, like the
   NumPy step size/(no - 1), has no meaning for a single row or column (the implementation raises; the exception itself is
   outside a model over R).  C14_grid_in is the strongest statement, from 2 points per axis on *)
Theorem C14_grid_single_refuted : exists n, (1 <= n)%nat /\ INR n - 1 = 0.
Proof. exact grid_single_refuted. Qed.
Theorem C14_box_in : forall sx sy sz n0 n1 n2 centre tilt,
  0 <= sx -> 0 <= sy -> 0 <= sz -> (1 <= n0)%nat -> (1 <= n1)%nat -> (1 <= n2)%nat ->
  Forall (in_box centre tilt sx sy sz) (box_points sx sy sz n0 n1 n2 centre tilt).
Proof. exact box_in. Qed.

(* ---- lattice generators: exactly the requested number of points, in row-major order *)
Theorem C14_count_grid : forall sx sy n0 n1 centre tilt, length (grid_points sx sy n0 n1 centre tilt) = (n0 * n1)%nat.
Proof. exact count_grid. Qed.
Theorem C14_count_circle : forall rad n0 n1 centre tilt, length (circ_points rad n0 n1 centre tilt) = (n0 * n1)%nat.
Proof. exact count_circle. Qed.
Theorem C14_count_sphere : forall rad c k0 k1 n0 n1, length (sphere_points rad c k0 k1 n0 n1) = (n0 * n1)%nat.
Proof. exact count_sphere. Qed.
Theorem C14_count_box : forall sx sy sz n0 n1 n2 centre tilt, length (box_points sx sy sz n0 n1 n2 centre tilt) = (n0 * (n1 * n2))%nat.
Proof. exact count_box. Qed.
Theorem C14_lattice2_nth : forall (A : Type) n0 n1 (f : nat -> nat -> A) d i j,
  (i < n0)%nat -> (j < n1)%nat -> nth (i * n1 + j) (lattice2 n0 n1 f) d = f i j.
Proof. exact @lattice2_nth. Qed.
Theorem C14_lattice3_nth : forall (A : Type) n0 n1 n2 (f : nat -> nat -> nat -> A) d i j k,
  (i < n0)%nat -> (j < n1)%nat -> (k < n2)%nat -> nth ((i * n1 + j) * n2 + k) (lattice3 n0 n1 n2 f) d = f i j k.
Proof. exact @lattice3_nth. Qed.

(* ---- the rational axis coordinates evaluated inside Coq for the correspondence are the model's *)
Theorem C14_grid_coordQ_R : forall s n i, (2 <= n)%nat -> Q2R (grid_coordQ s n i) = grid_coord (Q2R s) n i.
Proof. exact grid_coordQ_R. Qed.
Theorem C14_box_coordQ_R : forall s n i, (1 <= n)%nat -> Q2R (box_coordQ s n i) = box_coord (Q2R s) n i.
Proof. exact box_coordQ_R. Qed.
Theorem C14_closeQ_sound : forall tol a b, closeQ tol a b = true -> Rabs (Q2R a - Q2R b) <= Q2R tol.
Proof. exact closeQ_sound. Qed.

(* non-vacuity: a centre with distinct coordinates, a non-trivial tilt, a 30 degree limit and a draw U = 1/2
   meet every hypothesis above; two distinct points give a unit ray *)
Example C14_instance :
  (vnorm2 (lum_dir (10, 20, 30) 30 (1 / 2) (1 / 4)) = 1 /\
   acos (vdot (lum_dir (10, 20, 30) 30 (1 / 2) (1 / 4)) (lum_axis (10, 20, 30))) <= deg 30) /\
  vnorm2 (ray_cosines (ray_two (0, 0, 0) (1, 2, 2))) = 1 /\
  Forall (in_rect (1, 2, 3) (10, 20, 30) 4 6) (grid_points 4 6 3 2 (1, 2, 3) (10, 20, 30)) /\
  length (sphere_points 2 (1, 20, 300) 1 2 4 5) = 20%nat.
Proof.
  split; [| split; [| split]].
  - destruct (lum_within_limit (10, 20, 30) 30 (1 / 2) (1 / 4)) as (A & _ & B); [Lra.lra | Lra.lra |]. split; assumption.
  - apply two_points_unit. intros E. inversion E. Lra.lra.
  - apply grid_in; [Lra.lra | Lra.lra | Lia.lia | Lia.lia].
  - apply count_sphere.
Qed.
