(* C03 — property theorems.  The forward models `custom` / `centered` are the documented pipelines of
   OdakV.Wave.Fields (every n x m grid: even, odd, non-square; a batch is a list of such fields);
   F, Finv, S, Sinv are fft2, ifft2, fftshift, ifftshift of the numerical library under their contracts
   (Section hypotheses, validated against torch.fft / numpy.fft on every run).  The traced code is tied to
   these models by coq/tie/Wave_Tie*.v on every run. *)
From Coq Require Import Reals List.
From Coquelicot Require Import Complex.
From OdakV Require Import Base.RealAux Wave.Fields Wave.Kernels Wave.Steps Wave.Upsample.
Import ListNotations.
Open Scope R_scope.

Section Contracts.
Variables n m : nat.
Variables F Finv S Sinv : fld -> fld.
Variable N : R.
Hypothesis N_pos : 0 < N.
Hypothesis F_dom : forall u, F (clip n m u) = F u.
Hypothesis Finv_dom : forall u, Finv (clip n m u) = Finv u.
Hypothesis S_dom : forall u, S (clip n m u) = S u.
Hypothesis Sinv_dom : forall u, Sinv (clip n m u) = Sinv u.
Hypothesis F_add : forall u v, F (fadd u v) = fadd (F u) (F v).
Hypothesis F_scal : forall a u, F (fscal a u) = fscal a (F u).
Hypothesis Finv_add : forall u v, Finv (fadd u v) = fadd (Finv u) (Finv v).
Hypothesis Finv_scal : forall a u, Finv (fscal a u) = fscal a (Finv u).
Hypothesis Finv_F : forall u, Finv (F u) = clip n m u.
Hypothesis F_Finv : forall u, F (Finv u) = clip n m u.
Hypothesis parseval : forall u, energy n m (F u) = N * energy n m u.
Hypothesis S_Sinv : forall u, S (Sinv u) = clip n m u.
Hypothesis Sinv_S : forall u, Sinv (S u) = clip n m u.
Hypothesis S_energy : forall u, energy n m (S u) = energy n m u.
Hypothesis S_add : forall u v, S (fadd u v) = fadd (S u) (S v).
Hypothesis S_scal : forall a u, S (fscal a u) = fscal a (S u).
Hypothesis Sinv_add : forall u v, Sinv (fadd u v) = fadd (Sinv u) (Sinv v).
Hypothesis Sinv_scal : forall a u, Sinv (fscal a u) = fscal a (Sinv u).
Hypothesis S_mul : forall a b, S (fmul a b) = fmul (S a) (S b).
Hypothesis Sinv_mul : forall a b, Sinv (fmul a b) = fmul (Sinv a) (Sinv b).
Notation cust := (custom F Finv S Sinv).
Notation cent := (centered F Finv S Sinv).

(* superposition: out(a u + b v) = a out(u) + b out(v) for every kernel and aperture *)
Theorem C03_linear : forall a b u v K A,
  cust (fadd (fscal a u) (fscal b v)) K A = fadd (fscal a (cust u K A)) (fscal b (cust v K A)).
Proof. eapply custom_linear; eassumption. Qed.
Theorem C03_zero_to_zero : forall K A, cust fzero K A = fzero.
Proof. eapply custom_zero; eassumption. Qed.
Theorem C03_zero_to_zero_other_forms : forall K h c,
  cent fzero K = fzero /\ conv_centered F Finv S Sinv fzero h = fzero /\ fraun F S Sinv fzero c = fzero.
Proof.
  intros K h c. split; [|split].
  - eapply centered_zero; eassumption.
  - eapply conv_centered_zero; eassumption.
  - eapply fraun_zero; eassumption.
Qed.
Theorem C03_linear_numpy_fresnel : forall a b u v K,
  cent (fadd (fscal a u) (fscal b v)) K = fadd (fscal a (cent u K)) (fscal b (cent v K)).
Proof. eapply centered_linear; eassumption. Qed.
Theorem C03_linear_numpy_impulse_response : forall a b u v h,
  conv_centered F Finv S Sinv (fadd (fscal a u) (fscal b v)) h
  = fadd (fscal a (conv_centered F Finv S Sinv u h)) (fscal b (conv_centered F Finv S Sinv v h)).
Proof. eapply conv_centered_linear; eassumption. Qed.
Theorem C03_linear_fraunhofer : forall a b u v c,
  fraun F S Sinv (fadd (fscal a u) (fscal b v)) c = fadd (fscal a (fraun F S Sinv u c)) (fscal b (fraun F S Sinv v c)).
Proof. eapply fraun_linear; eassumption. Qed.
(* whole-pixel circular translation T (with Fourier-side modulation Ph) commutes with propagation *)
Theorem C03_shift_equivariant : forall (T : fld -> fld) (Ph : fld),
  (forall u, F (T u) = fmul Ph (F u)) -> (forall U, Finv (fmul Ph U) = T (Finv U)) ->
  forall u K A, cust (T u) K A = T (cust u K A).
Proof. intros T Ph H1 H2. eapply custom_shift; eassumption. Qed.
Theorem C03_shift_equivariant_numpy_fresnel : forall (T : fld -> fld) (Ph : fld),
  (forall u, F (T u) = fmul Ph (F u)) -> (forall U, Finv (fmul Ph U) = T (Finv U)) ->
  (forall u, S (T u) = T (S u)) -> (forall u, Sinv (T u) = T (Sinv u)) ->
  forall u K h, cent (T u) K = T (cent u K) /\ conv_centered F Finv S Sinv (T u) h = T (conv_centered F Finv S Sinv u h).
Proof.
  intros T Ph H1 H2 H3 H4 u K h. split.
  - eapply centered_shift; eassumption.
  - eapply conv_centered_shift; eassumption.
Qed.
End Contracts.

(* scale > 1 (impulse-response methods): zero insertion on the finer grid is linear, so the whole path
   custom (upsample s u) K A is linear as well *)
Theorem C03_upsample_linear : forall s a b u v,
  upsample s (fadd (fscal a u) (fscal b v)) = fadd (fscal a (upsample s u)) (fscal b (upsample s v)).
Proof. exact upsample_linear. Qed.
Theorem C03_upsample_zero : forall s, upsample s fzero = fzero.
Proof. exact upsample_zero. Qed.
