(* C19 — proofs.  Sections follow Model.v. *)
From Coq Require Import ZArith Reals Lra Lia List Bool.
From Flocq Require Import Core Relative BinarySingleNaN.
From OdakV Require Import C19.Model.
Import ListNotations.
Ltac Zify.zify_post_hook ::= Z.div_mod_to_equations.

Open Scope Z_scope.

(* ==================== 1. text line lists ==================== *)
(* ---------------------------------------------------------------- 1. text lines *)
Lemma readlines_line : forall l cur r, clean_line l ->
  readlines cur (l ++ LF :: r) = (cur ++ l ++ [LF]) :: readlines [] r.
Proof.
  induction l as [|c l IH]; intros cur r H; simpl.
  - reflexivity.
  - inversion H as [|? ? [Hc1 Hc2] Hl]; subst.
    destruct (c =? LF) eqn:E1; [apply Z.eqb_eq in E1; contradiction|].
    destruct (c =? CR) eqn:E2; [apply Z.eqb_eq in E2; contradiction|].
    rewrite IH by exact Hl. rewrite <- app_assoc. reflexivity.
Qed.

Lemma readlines_write : forall ls, Forall clean_line ls ->
  readlines [] (write_lines ls) = map (fun l => l ++ [LF]) ls.
Proof.
  induction 1 as [|l ls Hl _ IH]; [reflexivity|].
  unfold write_lines. simpl. rewrite <- app_assoc. simpl.
  rewrite readlines_line by exact Hl. simpl. f_equal. exact IH.
Qed.

Lemma dropwhile_head : forall p l, match l with [] => True | c :: _ => p c = false end -> dropwhile p l = l.
Proof. intros p [|c l] H; simpl; [reflexivity|]. rewrite H. reflexivity. Qed.

Lemma rstrip_terminated : forall (p : Z -> bool) l, p LF = true ->
  match rev l with [] => True | c :: _ => p c = false end -> rstrip_by p (l ++ [LF]) = l.
Proof.
  intros p l Hp H. unfold rstrip_by. rewrite rev_app_distr. simpl. rewrite Hp.
  rewrite dropwhile_head by exact H. apply rev_involutive.
Qed.

Lemma clean_rev_head : forall l, clean_line l -> match rev l with [] => True | c :: _ => (c =? LF) = false end.
Proof.
  intros l H. destruct (rev l) as [|c r] eqn:E; [exact I|].
  assert (Hin : In c l) by (apply in_rev; rewrite E; left; reflexivity).
  unfold clean_line in H. rewrite Forall_forall in H. destruct (H c Hin) as [H1 _].
  apply Z.eqb_neq. exact H1.
Qed.

Lemma lines_rt : forall ls, Forall clean_line ls -> read_lines strip_nl (write_lines ls) = ls.
Proof.
  intros ls H. unfold read_lines. rewrite readlines_write by exact H. rewrite map_map.
  induction H as [|l ls Hl _ IH]; [reflexivity|]. simpl. f_equal; [|exact IH].
  unfold strip_nl. apply rstrip_terminated; [reflexivity|]. apply clean_rev_head. exact Hl.
Qed.

Lemma lines_rt_legacy_partial : forall ls, Forall clean_line ls -> Forall ends_solid ls ->
  read_lines strip_ws (write_lines ls) = ls.
Proof.
  intros ls H. unfold read_lines. rewrite readlines_write by exact H. rewrite map_map.
  induction H as [|l ls Hl _ IH]; intros Hs; [reflexivity|]. inversion Hs; subst. simpl. f_equal; [|apply IH; assumption].
  unfold strip_ws. apply rstrip_terminated; [reflexivity|assumption].
Qed.

Lemma lines_rt_legacy_refuted : exists ls, Forall clean_line ls /\ read_lines strip_ws (write_lines ls) <> ls.
Proof.
  exists [[97; 32]]. split.
  - repeat constructor; unfold LF, CR; lia.
  - vm_compute. discriminate.
Qed.

(* the side condition is needed: a terminator inside a line splits it, whatever is stripped *)
Lemma lines_need_clean : forall strip, read_lines strip (write_lines [[97; 13; 98]]) <> [[97; 13; 98]]
                                     /\ read_lines strip (write_lines [[97; 10; 98]]) <> [[97; 10; 98]].
Proof. intros strip. split; vm_compute; discriminate. Qed.


(* ==================== 2. UTF-8 ==================== *)
Lemma utf8_decode_char : forall c r, scalar c -> utf8_decode (utf8_char c ++ r) = option_map (cons c) (utf8_decode r).
Proof.
  intros c r [[H0 H1] Hs]. unfold utf8_char.
  destruct (c <? 128) eqn:E1.
  { apply Z.ltb_lt in E1. simpl.
    replace ((0 <=? c) && (c <? 128)) with true by (symmetry; apply andb_true_intro; split; [apply Z.leb_le|apply Z.ltb_lt]; lia).
    reflexivity. }
  apply Z.ltb_ge in E1.
  destruct (c <? 2048) eqn:E2.
  { apply Z.ltb_lt in E2. cbn [app utf8_decode].
    set (b0 := 192 + c / 64). set (b1 := 128 + c mod 64).
    assert (Hb0 : 194 <= b0 < 224) by (unfold b0; lia).
    assert (Hb1 : 128 <= b1 < 192) by (unfold b1; lia).
    replace ((0 <=? b0) && (b0 <? 128)) with false by (symmetry; apply andb_false_intro2; apply Z.ltb_ge; lia).
    replace ((192 <=? b0) && (b0 <? 224)) with true by (symmetry; apply andb_true_intro; split; [apply Z.leb_le|apply Z.ltb_lt]; lia).
    assert (Hc : (b0 - 192) * 64 + (b1 - 128) = c) by (unfold b0, b1; lia).
    rewrite Hc. unfold is_cont.
    replace ((128 <=? b1) && (b1 <? 192)) with true by (symmetry; apply andb_true_intro; split; [apply Z.leb_le|apply Z.ltb_lt]; lia).
    replace (128 <=? c) with true by (symmetry; apply Z.leb_le; lia). reflexivity. }
  apply Z.ltb_ge in E2.
  destruct (c <? 65536) eqn:E3.
  { apply Z.ltb_lt in E3. cbn [app utf8_decode].
    set (b0 := 224 + c / 4096). set (b1 := 128 + (c / 64) mod 64). set (b2 := 128 + c mod 64).
    assert (Hb0 : 224 <= b0 < 240) by (unfold b0; lia).
    assert (Hb1 : 128 <= b1 < 192) by (unfold b1; lia).
    assert (Hb2 : 128 <= b2 < 192) by (unfold b2; lia).
    replace ((0 <=? b0) && (b0 <? 128)) with false by (symmetry; apply andb_false_intro2; apply Z.ltb_ge; lia).
    replace ((192 <=? b0) && (b0 <? 224)) with false by (symmetry; apply andb_false_intro2; apply Z.ltb_ge; lia).
    replace ((224 <=? b0) && (b0 <? 240)) with true by (symmetry; apply andb_true_intro; split; [apply Z.leb_le|apply Z.ltb_lt]; lia).
    assert (Hc : (b0 - 224) * 4096 + (b1 - 128) * 64 + (b2 - 128) = c) by (unfold b0, b1, b2; lia).
    rewrite Hc. unfold is_cont.
    replace ((128 <=? b1) && (b1 <? 192)) with true by (symmetry; apply andb_true_intro; split; [apply Z.leb_le|apply Z.ltb_lt]; lia).
    replace ((128 <=? b2) && (b2 <? 192)) with true by (symmetry; apply andb_true_intro; split; [apply Z.leb_le|apply Z.ltb_lt]; lia).
    replace (2048 <=? c) with true by (symmetry; apply Z.leb_le; lia).
    replace ((55296 <=? c) && (c <? 57344)) with false.
    2:{ symmetry. destruct (55296 <=? c) eqn:Ea; [|reflexivity]. destruct (c <? 57344) eqn:Eb; [|reflexivity].
        apply Z.leb_le in Ea. apply Z.ltb_lt in Eb. exfalso. apply Hs. lia. }
    reflexivity. }
  apply Z.ltb_ge in E3. cbn [app utf8_decode].
  set (b0 := 240 + c / 262144). set (b1 := 128 + (c / 4096) mod 64). set (b2 := 128 + (c / 64) mod 64). set (b3 := 128 + c mod 64).
  assert (Hb0 : 240 <= b0 < 245) by (unfold b0; lia).
  assert (Hb1 : 128 <= b1 < 192) by (unfold b1; lia).
  assert (Hb2 : 128 <= b2 < 192) by (unfold b2; lia).
  assert (Hb3 : 128 <= b3 < 192) by (unfold b3; lia).
  replace ((0 <=? b0) && (b0 <? 128)) with false by (symmetry; apply andb_false_intro2; apply Z.ltb_ge; lia).
  replace ((192 <=? b0) && (b0 <? 224)) with false by (symmetry; apply andb_false_intro2; apply Z.ltb_ge; lia).
  replace ((224 <=? b0) && (b0 <? 240)) with false by (symmetry; apply andb_false_intro2; apply Z.ltb_ge; lia).
  replace ((240 <=? b0) && (b0 <? 248)) with true by (symmetry; apply andb_true_intro; split; [apply Z.leb_le|apply Z.ltb_lt]; lia).
  assert (Hc : (b0 - 240) * 262144 + (b1 - 128) * 4096 + (b2 - 128) * 64 + (b3 - 128) = c) by (unfold b0, b1, b2, b3; lia).
  rewrite Hc. unfold is_cont.
  replace ((128 <=? b1) && (b1 <? 192)) with true by (symmetry; apply andb_true_intro; split; [apply Z.leb_le|apply Z.ltb_lt]; lia).
  replace ((128 <=? b2) && (b2 <? 192)) with true by (symmetry; apply andb_true_intro; split; [apply Z.leb_le|apply Z.ltb_lt]; lia).
  replace ((128 <=? b3) && (b3 <? 192)) with true by (symmetry; apply andb_true_intro; split; [apply Z.leb_le|apply Z.ltb_lt]; lia).
  replace (65536 <=? c) with true by (symmetry; apply Z.leb_le; lia).
  replace (c <? 1114112) with true by (symmetry; apply Z.ltb_lt; lia). reflexivity.
Qed.

Lemma utf8_rt : forall s, Forall scalar s -> utf8_decode (utf8_encode s) = Some s.
Proof.
  induction 1 as [|c s Hc _ IH]; [reflexivity|].
  unfold utf8_encode. simpl. rewrite utf8_decode_char by exact Hc.
  unfold utf8_encode in IH. rewrite IH. reflexivity.
Qed.

(* ---- whole files: bytes on disk ---- *)
Lemma scalar_LF : scalar LF.
Proof. unfold scalar, LF. lia. Qed.
Lemma write_lines_scalar : forall ls, Forall (Forall scalar) ls -> Forall scalar (write_lines ls).
Proof.
  induction 1 as [|l ls Hl _ IH]; [constructor|]. unfold write_lines. simpl.
  apply Forall_app. split; [apply Forall_app; split; [exact Hl|constructor; [exact scalar_LF|constructor]]|exact IH].
Qed.
Lemma text_file_rt : forall ls, Forall clean_line ls -> Forall (Forall scalar) ls ->
  read_text_file_model strip_nl (write_text_file_model ls) = Some ls.
Proof.
  intros ls Hc Hs. unfold read_text_file_model, write_text_file_model.
  rewrite utf8_rt by (apply write_lines_scalar; exact Hs). simpl. rewrite lines_rt by exact Hc. reflexivity.
Qed.

Lemma dict_rt : forall (D : Type) (dump : D -> text) (parse : text -> option D) d,
  parse (dump d) = Some d -> Forall scalar (dump d) ->
  load_dictionary_model D parse utf8_decode (save_dictionary_model D dump d) = Some d.
Proof.
  intros D dump parse d Hp Hs. unfold load_dictionary_model, save_dictionary_model.
  rewrite utf8_rt by exact Hs. exact Hp.
Qed.

Lemma utf8_ascii : forall s, Forall (fun c => 0 <= c < 128) s -> utf8_encode s = s.
Proof.
  induction 1 as [|c s Hc _ IH]; [reflexivity|]. unfold utf8_encode in *. simpl. rewrite IH.
  unfold utf8_char. replace (c <? 128) with true by (symmetry; apply Z.ltb_lt; lia). reflexivity.
Qed.
Lemma ascii_decode_ascii : forall s, Forall (fun c => 0 <= c < 128) s -> ascii_decode s = Some s.
Proof.
  intros s H. unfold ascii_decode. replace (forallb _ s) with true; [reflexivity|].
  symmetry. apply forallb_forall. intros c Hc. rewrite Forall_forall in H. specialize (H c Hc).
  apply andb_true_intro. split; [apply Z.leb_le|apply Z.ltb_lt]; lia.
Qed.
(* the former reader under a C locale: fine for ASCII text only *)
Lemma dict_legacy_partial : forall (D : Type) (dump : D -> text) (parse : text -> option D) d,
  parse (dump d) = Some d -> Forall (fun c => 0 <= c < 128) (dump d) ->
  load_dictionary_model D parse ascii_decode (save_dictionary_model D dump d) = Some d.
Proof.
  intros D dump parse d Hp Hs. unfold load_dictionary_model, save_dictionary_model.
  rewrite utf8_ascii by exact Hs. rewrite ascii_decode_ascii by exact Hs. exact Hp.
Qed.
Lemma dict_legacy_refuted : exists s, Forall scalar s /\
  forall (D : Type) (dump : D -> text) (parse : text -> option D) d, dump d = s ->
  load_dictionary_model D parse ascii_decode (save_dictionary_model D dump d) = None.
Proof.
  exists [34; 233; 34]. split.
  - repeat constructor; unfold scalar; lia.
  - intros D dump parse d Hd. unfold load_dictionary_model, save_dictionary_model. rewrite Hd. reflexivity.
Qed.

(* ==================== 3. copy_file, 4. PLY ==================== *)
(* ---------------------------------------------------------------- 3. copy *)
Lemma lookup_store_same : forall p b f, lookup p (store p b f) = Some b.
Proof.
  intros p b f. induction f as [|[q c] r IH]; simpl.
  - rewrite Z.eqb_refl. reflexivity.
  - destruct (q =? p) eqn:E; simpl; rewrite E; [reflexivity|exact IH].
Qed.
Lemma lookup_store_other : forall p p' b f, p' <> p -> lookup p' (store p b f) = lookup p' f.
Proof.
  intros p p' b f H. induction f as [|[q c] r IH]; simpl.
  - destruct (p =? p') eqn:E; [apply Z.eqb_eq in E; congruence|reflexivity].
  - destruct (q =? p) eqn:E; simpl.
    + apply Z.eqb_eq in E. subst q. destruct (p =? p') eqn:E'; [apply Z.eqb_eq in E'; congruence|reflexivity].
    + destruct (q =? p'); [reflexivity|exact IH].
Qed.

Lemma copy_spec : forall src dst f f', copy_file_model src dst f = Copied f' ->
  lookup src f <> None /\ lookup dst f' = lookup src f /\ lookup src f' = lookup src f /\
  forall p, p <> dst -> lookup p f' = lookup p f.
Proof.
  intros src dst f f'. unfold copy_file_model, copyfile.
  destruct (lookup src f) as [b|] eqn:E; [|discriminate].
  destruct (src =? dst) eqn:Esd; [discriminate|]. intros H. injection H as <-.
  apply Z.eqb_neq in Esd.
  split; [discriminate|]. split; [apply lookup_store_same|]. split.
  - rewrite lookup_store_other by exact Esd. exact E.
  - intros p Hp. apply lookup_store_other. exact Hp.
Qed.

Lemma copy_total : forall src dst f b, src <> dst -> lookup src f = Some b ->
  exists f', copy_file_model src dst f = Copied f'.
Proof.
  intros src dst f b H E. unfold copy_file_model, copyfile. rewrite E.
  destruct (src =? dst) eqn:Esd; [apply Z.eqb_eq in Esd; contradiction|]. eexists. reflexivity.
Qed.

Lemma copy_legacy_never : forall src dst f f', copy_file_legacy src dst f <> Copied f'.
Proof.
  intros src dst f f'. unfold copy_file_legacy, copyfile.
  destruct (lookup src f); [|discriminate]. rewrite Z.eqb_refl. discriminate.
Qed.

Lemma copy_legacy_refuted : exists src dst f b, src <> dst /\ lookup src f = Some b /\
  forall f', copy_file_legacy src dst f <> Copied f'.
Proof. exists 1, 2, [(1, [104; 105])], [104; 105]. split; [lia|]. split; [reflexivity|]. intros f'. apply copy_legacy_never. Qed.

(* ---------------------------------------------------------------- 4. PLY *)
Section PlyLemmas.
Context {A : Type}.
Lemma ply_read_from : forall (ts : list (@triangle A)) pre k, length pre = (3 * k)%nat ->
  ply_read (pre ++ ply_vertices ts) (ply_faces_from k (length ts)) = Some ts.
Proof.
  induction ts as [|[[a b] c] ts IH]; intros pre k Hk; [reflexivity|].
  unfold ply_faces_from. simpl seq. simpl map. unfold ply_face at 1. cbn [ply_read].
  match goal with |- context [nth_error ?V (3 * k)%nat] => set (VV := V) end.
  assert (Ea : nth_error VV (3 * k) = Some a).
  { unfold VV. rewrite nth_error_app2 by lia. replace (3 * k - length pre)%nat with 0%nat by lia. reflexivity. }
  assert (Eb : nth_error VV (3 * k + 1) = Some b).
  { unfold VV. rewrite nth_error_app2 by lia. replace (3 * k + 1 - length pre)%nat with 1%nat by lia. reflexivity. }
  assert (Ec : nth_error VV (3 * k + 2) = Some c).
  { unfold VV. rewrite nth_error_app2 by lia. replace (3 * k + 2 - length pre)%nat with 2%nat by lia. reflexivity. }
  rewrite Ea, Eb, Ec. unfold VV.
  match goal with |- context [ply_read ?V _] =>
    replace V with ((pre ++ [a; b; c]) ++ ply_vertices ts) by (rewrite <- app_assoc; reflexivity) end.
  specialize (IH (pre ++ [a; b; c]) (S k)). unfold ply_faces_from in IH.
  rewrite IH; [reflexivity|]. rewrite app_length. simpl. lia.
Qed.

Lemma ply_rt : forall (ts : list (@triangle A)), ply_read (ply_vertices ts) (ply_faces (length ts)) = Some ts.
Proof. intros ts. apply (ply_read_from ts [] 0%nat). reflexivity. Qed.

Lemma ply_file_rt : forall (rnd : A -> A) ts, read_ply_model (write_ply_model rnd ts) = Some (map (map_triangle rnd) ts).
Proof.
  intros rnd ts. unfold read_ply_model, write_ply_model. simpl.
  rewrite <- (map_length (map_triangle rnd) ts). apply ply_rt.
Qed.

Lemma map_triangle_id : forall (rnd : A -> A) t,
  (let '((a1, a2, a3), (b1, b2, b3), (c1, c2, c3)) := t in
   rnd a1 = a1 /\ rnd a2 = a2 /\ rnd a3 = a3 /\ rnd b1 = b1 /\ rnd b2 = b2 /\ rnd b3 = b3 /\ rnd c1 = c1 /\ rnd c2 = c2 /\ rnd c3 = c3) ->
  map_triangle rnd t = t.
Proof.
  intros rnd [[[[a1 a2] a3] [[b1 b2] b3]] [[c1 c2] c3]]. simpl.
  intros (H1 & H2 & H3 & H4 & H5 & H6 & H7 & H8 & H9). congruence.
Qed.

Lemma ply_file_rt_exact : forall (rnd : A -> A) ts, Forall (representable rnd) ts ->
  read_ply_model (write_ply_model rnd ts) = Some ts.
Proof.
  intros rnd ts H. rewrite ply_file_rt. f_equal.
  induction H as [|t ts Ht _ IH]; [reflexivity|]. simpl. rewrite Ht, IH. reflexivity.
Qed.

Lemma ply_file_idempotent : forall (rnd : A -> A) ts, (forall a, rnd (rnd a) = rnd a) ->
  forall ts', read_ply_model (write_ply_model rnd ts) = Some ts' ->
  read_ply_model (write_ply_model rnd ts') = Some ts'.
Proof.
  intros rnd ts Hi ts' H. rewrite ply_file_rt in H. injection H as <-.
  apply ply_file_rt_exact. apply Forall_forall. intros t Ht. apply in_map_iff in Ht.
  destruct Ht as [[[[[a1 a2] a3] [[b1 b2] b3]] [[c1 c2] c3]] [<- _]]. unfold representable. simpl.
  rewrite !Hi. reflexivity.
Qed.
End PlyLemmas.

(* ---------------------------------------------------------------- 6. images *)
Lemma swap02_involutive : forall A (p : list A), swap02 (swap02 p) = p.
Proof. intros A [|a [|b [|c r]]]; reflexivity. Qed.
Lemma swap02_length : forall A (p : list A), length (swap02 p) = length p.
Proof. intros A [|a [|b [|c r]]]; reflexivity. Qed.
Lemma swap_if_many_length : forall A (p : list A), length (swap_if_many p) = length p.
Proof. intros A p. unfold swap_if_many. destruct (1 <? Z.of_nat (length p)); [apply swap02_length|reflexivity]. Qed.

Lemma map_id_in : forall A (g : A -> A) l, (forall a, In a l -> g a = a) -> map g l = l.
Proof. intros A g l H. induction l as [|a l IH]; [reflexivity|]. simpl. rewrite H by (left; reflexivity). rewrite IH; [reflexivity|]. intros b Hb. apply H. right. exact Hb. Qed.

Lemma forallb_rect_map : forall A B (g : list A -> list B) w m, (forall r, length (g r) = length r) ->
  rect w (map g m) = rect w m.
Proof. intros A B g w m H. unfold rect. induction m as [|r m IH]; [reflexivity|]. simpl. rewrite H, IH. reflexivity. Qed.

Lemma shape_ok_save : forall A B (q : A -> B) i, shape_ok (save_px q i) = shape_ok i.
Proof.
  intros A B q [m|m]; simpl.
  - destruct m as [|r m]; [reflexivity|]. simpl. rewrite !map_length.
    f_equal. f_equal. apply (forallb_rect_map _ _ (map q)). intros; apply map_length.
  - destruct m as [|r m]; [reflexivity|]. simpl. destruct r as [|p r]; [reflexivity|]. simpl.
    rewrite !map_length, swap_if_many_length, !map_length.
    set (g := fun p0 : list A => swap_if_many (map q p0)).
    assert (Hg : forall p0, length (g p0) = length p0) by (intros; unfold g; rewrite swap_if_many_length; apply map_length).
    rewrite Nat.eqb_refl. simpl.
    rewrite (forallb_rect_map _ _ (map g)) by (intros; apply map_length).
    rewrite (forallb_rect_map _ _ g) by exact Hg.
    f_equal. f_equal.
    assert (Hm : forall m0 : list (list (list A)), forallb (rect (length p)) (map (map g) m0) = forallb (rect (length p)) m0).
    { induction m0 as [|r0 m0 IH]; [reflexivity|]. simpl. rewrite IH. f_equal. apply forallb_rect_map. exact Hg. }
    rewrite Hm. reflexivity.
Qed.

(* pixels of a well-shaped colour image all have the channel count of the first one *)
Lemma color_channels : forall A (m : list (list (list A))), shape_ok (Color m) = true ->
  exists c, (c = 1 \/ c = 3 \/ c = 4)%nat /\ forall r p, In r m -> In p r -> length p = c.
Proof.
  intros A m H. simpl in H. destruct m as [|r m]; [discriminate|]. destruct r as [|p r]; [discriminate|].
  exists (length p). apply andb_prop in H. destruct H as [H Hall]. apply andb_prop in H. destruct H as [_ Hc].
  split.
  - apply orb_prop in Hc. destruct Hc as [Hc|Hc]; [apply orb_prop in Hc; destruct Hc as [Hc|Hc]|]; apply Nat.eqb_eq in Hc; auto.
  - intros r0 p0 Hr Hp. rewrite forallb_forall in Hall. specialize (Hall r0 Hr). unfold rect in Hall.
    rewrite forallb_forall in Hall. apply Nat.eqb_eq. apply Hall. exact Hp.
Qed.

Lemma map_map_id : forall A B (f : A -> B) (g : B -> A) l, (forall x, In x l -> g (f x) = x) -> map g (map f l) = l.
Proof. intros A B f g l H. rewrite map_map. apply map_id_in. exact H. Qed.

Lemma pixel_rt : forall A B (q : A -> B) (inj : B -> A) p, (length p = 3 \/ length p = 4)%nat ->
  (forall a, In a p -> inj (q a) = a) -> map inj (swap02 (swap_if_many (map q p))) = p.
Proof.
  intros A B q inj p Hl Hq. unfold swap_if_many. rewrite map_length.
  replace (1 <? Z.of_nat (length p)) with true by (symmetry; apply Z.ltb_lt; lia).
  rewrite swap02_involutive. apply map_map_id. exact Hq.
Qed.

Lemma one_channel_save : forall A B (q : A -> B) (m : list (list (list A))),
  one_channel (map (map (fun p => swap_if_many (map q p))) m) = one_channel m.
Proof.
  intros A B q m. unfold one_channel. induction m as [|r m IH]; [reflexivity|]. simpl. rewrite IH. f_equal.
  induction r as [|p r IHr]; [reflexivity|]. simpl. rewrite IHr, swap_if_many_length, map_length. reflexivity.
Qed.

Lemma row_one_channel_rt : forall A B (q : A -> B) (inj : B -> A) (r : list (list A)),
  (forall p, In p r -> length p = 1%nat) -> (forall p a, In p r -> In a p -> inj (q a) = a) ->
  map inj (concat (map (fun p => swap_if_many (map q p)) r)) = concat r.
Proof.
  intros A B q inj r H1 Hq. induction r as [|p r IH]; [reflexivity|]. simpl. rewrite map_app. f_equal.
  - unfold swap_if_many. rewrite map_length, (H1 p) by (left; reflexivity). simpl.
    apply map_map_id. intros a Ha. apply (Hq p); [left; reflexivity|exact Ha].
  - apply IH; [intros; apply H1; right; assumption|intros p0 a Hp Ha; apply (Hq p0); [right; assumption|assumption]].
Qed.

Section ImageRT.
Variables (A B F : Type) (q : A -> B) (inj : B -> A) (imwrite : image B -> F) (imread : F -> option (image B)).
Hypothesis codec : forall i, shape_ok i = true -> imread (imwrite i) = Some (canon i).

Lemma image_rt : forall i : image A, shape_ok i = true ->
  (forall a, in_image a i -> inj (q a) = a) ->
  load_image_model A B F inj imread (save_image_model A B F q imwrite i) = Some (canon i).
Proof.
  intros i Hs Hq. unfold load_image_model, save_image_model.
  rewrite codec by (rewrite shape_ok_save; exact Hs). simpl. f_equal.
  destruct i as [m|m]; simpl.
  - f_equal. apply map_map_id. intros r Hr. apply map_map_id.
    intros a Ha. apply Hq. exists r. split; assumption.
  - destruct (color_channels A m Hs) as [c [Hc Hlen]].
    rewrite one_channel_save. destruct (one_channel m) eqn:E1; simpl.
    + f_equal. rewrite !map_map. apply map_ext_in. intros r Hr.
      apply row_one_channel_rt.
      * intros p Hp. unfold one_channel in E1. rewrite forallb_forall in E1. specialize (E1 r Hr).
        rewrite forallb_forall in E1. apply Nat.eqb_eq. apply E1. exact Hp.
      * intros p a Hp Ha. apply Hq. exists r, p. repeat split; assumption.
    + f_equal. rewrite !map_map. apply map_id_in. intros r Hr. rewrite !map_map. apply map_id_in. intros p Hp.
      apply pixel_rt.
      * rewrite (Hlen r p Hr Hp). destruct Hc as [Hc|Hc]; [|exact Hc]. exfalso. subst c.
        assert (one_channel m = true); [|congruence].
        unfold one_channel. apply forallb_forall. intros r0 Hr0. apply forallb_forall. intros p0 Hp0.
        apply Nat.eqb_eq. apply (Hlen r0 p0 Hr0 Hp0).
      * intros a Ha. apply Hq. exists r, p. repeat split; assumption.
Qed.
End ImageRT.

(* ---------------------------------------------------------------- 7. transposes *)
Lemma zipcons_length : forall A (r : list A) m, length r = length m -> length (zipcons r m) = length r.
Proof. intros A r m H. unfold zipcons. rewrite map_length, combine_length. lia. Qed.

Lemma transpose_length : forall A n (m : list (list A)), Forall (fun r => length r = n) m -> length (transpose n m) = n.
Proof.
  intros A n m H. induction H as [|r m Hr _ IH]; simpl; [apply repeat_length|].
  rewrite zipcons_length; lia.
Qed.

Lemma transpose_rows : forall A n (m : list (list A)), Forall (fun r => length r = n) m ->
  Forall (fun c => length c = length m) (transpose n m).
Proof.
  intros A n m H. induction H as [|r m Hr Hm IH]; simpl.
  - apply Forall_forall. intros c Hc. apply repeat_spec in Hc. subst c. reflexivity.
  - assert (Hl : length (transpose n m) = n) by (apply transpose_length; exact Hm).
    revert IH Hl Hr. generalize (transpose n m) as T. clear. intros T. revert n r.
    induction T as [|c T IHT]; intros n r IH Hl Hr.
    + destruct r; simpl; constructor.
    + destruct r as [|a r]; simpl; [constructor|]. inversion IH; subst. constructor; [simpl; congruence|].
      apply (IHT (length T) r); [assumption|reflexivity|simpl in *; lia].
Qed.

Lemma transpose_zipcons : forall A k (r : list A) (M : list (list A)), length r = length M ->
  transpose (S k) (zipcons r M) = r :: transpose k M.
Proof.
  intros A k r. induction r as [|a r IH]; intros M H; destruct M as [|c M]; simpl in H; try discriminate.
  - reflexivity.
  - unfold zipcons in *. simpl. rewrite IH by lia. reflexivity.
Qed.

Lemma transpose_involutive : forall A n (m : list (list A)), Forall (fun r => length r = n) m ->
  transpose (length m) (transpose n m) = m.
Proof.
  intros A n m H. induction H as [|r m Hr Hm IH]; simpl.
  - induction n; [reflexivity|]. simpl. unfold zipcons. reflexivity.
  - rewrite transpose_zipcons; [rewrite IH; reflexivity|].
    rewrite transpose_length by exact Hm. exact Hr.
Qed.

Lemma zipcons_entries : forall A (P : A -> Prop) r M, Forall P r -> Forall (Forall P) M -> Forall (Forall P) (zipcons r M).
Proof.
  intros A P r. induction r as [|a r IH]; intros M Hr HM; destruct M as [|c M]; try constructor.
  - inversion Hr; inversion HM; subst. simpl. constructor; assumption.
  - inversion Hr; inversion HM; subst. apply IH; assumption.
Qed.
Lemma transpose_entries : forall A (P : A -> Prop) n m, Forall (Forall P) m -> Forall (Forall P) (transpose n m).
Proof.
  intros A P n m H. induction H as [|r m Hr _ IH]; simpl.
  - apply Forall_forall. intros c Hc. apply repeat_spec in Hc. subst c. constructor.
  - apply zipcons_entries; assumption.
Qed.

Lemma chw_hwc_inverse : forall A C H W (x : list (list (list A))), cube C H W x ->
  hwc_to_chw C (chw_to_hwc H W x) = x.
Proof.
  intros A C H W x [Hc Hx]. unfold hwc_to_chw, chw_to_hwc. rewrite map_map.
  assert (Hplanes : Forall (fun m => length m = H) x) by (eapply Forall_impl; [|exact Hx]; simpl; tauto).
  assert (Hrows : Forall (Forall (fun r : list A => length r = W)) x) by (eapply Forall_impl; [|exact Hx]; simpl; tauto).
  assert (HT1 : Forall (fun mm => length mm = C) (transpose H x)) by (rewrite <- Hc; apply transpose_rows; exact Hplanes).
  assert (HT2 : Forall (Forall (fun r : list A => length r = W)) (transpose H x)) by (apply transpose_entries; exact Hrows).
  rewrite (map_id_in _ _ (transpose H x)).
  - rewrite <- Hc. apply transpose_involutive. exact Hplanes.
  - intros mm Hm. rewrite Forall_forall in HT1, HT2. rewrite <- (HT1 mm Hm).
    apply transpose_involutive. apply HT2. exact Hm.
Qed.

Lemma hwc_chw_inverse : forall A C H W (y : list (list (list A))), cube H W C y ->
  chw_to_hwc H W (hwc_to_chw C y) = y.
Proof.
  intros A C H W y [Hh Hy]. unfold hwc_to_chw, chw_to_hwc.
  assert (Hrows : Forall (fun m => length m = W) y) by (eapply Forall_impl; [|exact Hy]; simpl; tauto).
  assert (Hpix : Forall (Forall (fun p : list A => length p = C)) y) by (eapply Forall_impl; [|exact Hy]; simpl; tauto).
  (* map (transpose C) y : H matrices of C rows of length W *)
  assert (H1 : Forall (fun mm => length mm = C) (map (transpose C) y)).
  { apply Forall_forall. intros mm Hm. apply in_map_iff in Hm. destruct Hm as [m [<- Hm]].
    apply transpose_length. rewrite Forall_forall in Hpix. apply Hpix. exact Hm. }
  replace H with (length (map (transpose C) y)) by (rewrite map_length; exact Hh).
  rewrite transpose_involutive by exact H1. rewrite map_map.
  apply map_id_in. intros m Hm. rewrite Forall_forall in Hrows, Hpix. rewrite <- (Hrows m Hm).
  apply transpose_involutive. apply Hpix. exact Hm.
Qed.

(* channel axis detection *)
Lemma channels_first_chw : forall c h w, is_channel_count c = true -> is_channel_count w = false -> channels_first c h w = true.
Proof. intros c h w Hc Hw. unfold channels_first. rewrite Hc, Hw. reflexivity. Qed.
Lemma channels_first_hwc : forall h w c, is_channel_count c = true -> is_channel_count h = false -> channels_first h w c = false.
Proof. intros h w c Hc Hh. unfold channels_first. rewrite Hc, Hh. reflexivity. Qed.
Lemma channels_first_same_as_legacy_when_ambiguous : forall s0 s1 s2, is_channel_count s0 = is_channel_count s2 ->
  channels_first s0 s1 s2 = channels_first_legacy s0 s1 s2.
Proof. intros s0 s1 s2 H. unfold channels_first. rewrite H. rewrite Bool.eqb_reflx. reflexivity. Qed.
Lemma channels_first_legacy_refuted : exists c h w, is_channel_count c = true /\ is_channel_count w = false /\ 1 <= h /\ channels_first_legacy c h w = false.
Proof. exists 3, 2, 5. repeat split; try reflexivity. lia. Qed.
Lemma channels_last_legacy_refuted : exists h w c, is_channel_count c = true /\ is_channel_count h = false /\ 1 <= w /\ channels_first_legacy h w c = true.
Proof. exists 2, 5, 3. repeat split; try reflexivity. lia. Qed.
Lemma channels_first_legacy_partial : forall c h w, c <= h -> c <= w -> channels_first_legacy c h w = true.
Proof. intros c h w H1 H2. unfold channels_first_legacy, argmin_is_first. apply andb_true_intro. split; apply Z.leb_le; assumption. Qed.

Lemma torch_equals_numpy_chw : forall A C H W (x : list (list (list A))), cube C H W x -> (1 <= C)%nat -> (1 <= H)%nat ->
  is_channel_count (Z.of_nat C) = true -> is_channel_count (Z.of_nat W) = false ->
  torch_to_numpy channels_first x = chw_to_hwc H W x.
Proof.
  intros A C H W x [Hc Hx] HC HH Hcc Hw. unfold torch_to_numpy, dims3.
  destruct x as [|m x]; [simpl in Hc; lia|]. inversion Hx as [|? ? [Hm Hr] _]; subst. simpl hd.
  destruct m as [|r m]; [simpl in HH; lia|]. inversion Hr; subst. simpl hd.
  rewrite channels_first_chw by assumption. rewrite !Nat2Z.id. reflexivity.
Qed.
Lemma torch_equals_numpy_hwc : forall A H W C (y : list (list (list A))), cube H W C y -> (1 <= H)%nat -> (1 <= W)%nat ->
  is_channel_count (Z.of_nat C) = true -> is_channel_count (Z.of_nat H) = false ->
  torch_to_numpy channels_first y = y.
Proof.
  intros A H W C y [Hh Hy] HH HW Hcc Hhh. unfold torch_to_numpy, dims3.
  destruct y as [|m y]; [simpl in Hh; lia|]. inversion Hy as [|? ? [Hm Hr] _]; subst. simpl hd.
  destruct m as [|r m]; [simpl in HW; lia|]. inversion Hr; subst. simpl hd.
  rewrite channels_first_hwc by assumption. reflexivity.
Qed.

(* ==================== 5. the quantiser ==================== *)
Open Scope R_scope.
Lemma bpow_m24 : bpow radix2 (-24) = / 16777216. Proof. simpl. lra. Qed.
Lemma bpow_m20 : bpow radix2 (-20) = / 1048576. Proof. simpl. lra. Qed.

Lemma rnd32_0 : rnd32 0 = 0.
Proof. unfold rnd32. apply round_0. typeclasses eauto. Qed.

Lemma rnd32_eps : forall x, / 1000000000000 <= Rabs x -> exists e, Rabs e <= / 16777216 /\ rnd32 x = x * (1 + e).
Proof.
  intros x Hx.
  destruct (relative_error_N_FLT_ex radix2 (-149) 24 ltac:(easy) (fun z => negb (Z.even z)) x) as [e [He Hr]].
  - apply Rle_trans with (2 := Hx). simpl. lra.
  - exists e. split; [|exact Hr]. apply Rle_trans with (1 := He). simpl. lra.
Qed.

Lemma rnd32_idem : forall x, rnd32 (rnd32 x) = rnd32 x.
Proof. intros x. unfold rnd32. apply round_generic; [typeclasses eauto|]. apply generic_format_round; typeclasses eauto. Qed.

Lemma clipR_inside : forall cmin cmax v, cmin <= v -> clipR cmin cmax v = Rmin v cmax.
Proof. intros. unfold clipR. rewrite Rmax_left by assumption. reflexivity. Qed.

Theorem quant_any_range : forall cmin cmax (L n : Z) v,
  0 < cmax -> cmin <= v -> (1 <= L <= 65535)%Z -> (0 <= n <= L)%Z ->
  Rabs (v * IZR L - IZR n * cmax) <= / 1048576 * (IZR n * cmax) ->
  quantR cmin cmax (IZR L) v = n.
Proof.
  intros cmin cmax L n v Hc Hmin [HL1 HL2] [Hn0 HnL] Hv.
  assert (HLr : 1 <= IZR L <= 65535) by (split; apply IZR_le; assumption).
  assert (Hnr : 0 <= IZR n <= IZR L) by (split; apply IZR_le; assumption).
  set (N := IZR n) in *. set (Lr := IZR L) in *.
  set (t := N / Lr).
  set (x := clipR cmin cmax v / cmax).
  assert (Ht1 : 0 <= t <= 1).
  { unfold t. split; [apply Rmult_le_pos; [lra|apply Rlt_le, Rinv_0_lt_compat; lra]|].
    apply Rmult_le_reg_r with Lr; [lra|]. unfold Rdiv. rewrite Rmult_assoc, Rinv_l by lra. lra. }
  assert (Hx : Rabs (x - t) <= / 1048576 * t).
  { assert (Hq : Rabs (v / cmax - t) <= / 1048576 * t).
    { unfold t. replace (v / cmax - N / Lr) with ((v * Lr - N * cmax) / (Lr * cmax)) by (field; lra).
      unfold Rdiv at 1. rewrite Rabs_mult, (Rabs_pos_eq (/ (Lr * cmax))).
      2:{ apply Rlt_le, Rinv_0_lt_compat. apply Rmult_lt_0_compat; lra. }
      replace (/ 1048576 * (N / Lr)) with ((/ 1048576 * (N * cmax)) * / (Lr * cmax)) by (field; lra).
      apply Rmult_le_compat_r; [|exact Hv]. apply Rlt_le, Rinv_0_lt_compat. apply Rmult_lt_0_compat; lra. }
    unfold x. rewrite clipR_inside by exact Hmin. unfold Rmin. destruct (Rle_dec v cmax) as [Hle|Hgt]; [exact Hq|].
    unfold Rdiv. rewrite Rinv_r by lra.
    assert (Hv1 : 1 < v / cmax).
    { apply Rmult_lt_reg_r with cmax; [lra|]. unfold Rdiv. rewrite Rmult_assoc, Rinv_l by lra. lra. }
    apply Rabs_le_inv in Hq. apply Rabs_le. lra. }
  unfold quantR, scaledR. fold x.
  destruct (Z.eq_dec n 0) as [Hz|Hnz].
  { (* level 0 *)
    assert (HN0 : N = 0) by (unfold N; rewrite Hz; reflexivity).
    assert (Ht0 : t = 0) by (unfold t; rewrite HN0; unfold Rdiv; ring).
    assert (Hx0 : x = 0). { rewrite Ht0 in Hx. rewrite Rmult_0_r, Rminus_0_r in Hx. apply Rabs_le_inv in Hx. lra. }
    rewrite Hx0, rnd32_0, Rmult_0_l, rnd32_0, Rmult_0_l, rnd32_0. rewrite Hz.
    apply Znearest_imp. rewrite Rminus_0_r, Rabs_R0. lra. }
  assert (HN1 : 1 <= N) by (apply IZR_le; lia).
  assert (Htpos : / 65535 <= t).
  { unfold t, Rdiv. apply Rle_trans with (1 * / Lr); [|apply Rmult_le_compat_r; [apply Rlt_le, Rinv_0_lt_compat; lra|exact HN1]].
    rewrite Rmult_1_l. apply Rinv_le_contravar; lra. }
  (* x = t (1 + e0) *)
  set (e0 := x / t - 1).
  assert (He0 : Rabs e0 <= / 1048576).
  { unfold e0. replace (x / t - 1) with ((x - t) / t) by (field; lra).
    unfold Rdiv. rewrite Rabs_mult, (Rabs_pos_eq (/ t)) by (apply Rlt_le, Rinv_0_lt_compat; lra).
    apply Rmult_le_reg_r with t; [lra|]. rewrite Rmult_assoc, Rinv_l by lra. lra. }
  assert (Hxe : x = t * (1 + e0)) by (unfold e0; field; lra).
  assert (Hxlo : / 70000 <= x).
  { rewrite Hxe. apply Rabs_le_inv in He0. apply Rle_trans with (/ 65535 * (1 - / 1048576)); [lra|].
    apply Rmult_le_compat; lra. }
  destruct (rnd32_eps x) as [e1 [He1 Ha]]; [rewrite Rabs_pos_eq; lra|].
  rewrite Rmult_1_r, rnd32_idem. rewrite Ha.
  assert (Halo : / 80000 <= x * (1 + e1)).
  { apply Rabs_le_inv in He1. apply Rle_trans with (/ 70000 * (1 - / 16777216)); [lra|]. apply Rmult_le_compat; lra. }
  destruct (rnd32_eps (x * (1 + e1) * Lr)) as [e2 [He2 Hb]].
  { rewrite Rabs_pos_eq; [|apply Rmult_le_pos; lra]. apply Rle_trans with (/ 80000 * 1); [lra|]. apply Rmult_le_compat; lra. }
  rewrite Hb. apply Znearest_imp.
  replace (x * (1 + e1) * Lr * (1 + e2) - IZR n) with (N * ((1 + e0) * (1 + e1) * (1 + e2) - 1)).
  2:{ rewrite Hxe. unfold t. fold N. field. lra. }
  assert (HN2 : 1 <= N <= 65535) by lra.
  clearbody N e0. clear -HN2 He0 He1 He2.
  apply Rabs_le_inv in He0. apply Rabs_le_inv in He1. apply Rabs_le_inv in He2.
  set (d := / 1048576) in *. set (u := / 16777216) in *.
  assert (HA : (1 - d) * (1 - u) <= (1 + e0) * (1 + e1) <= (1 + d) * (1 + u)).
  { split; apply Rmult_le_compat; unfold d, u in *; lra. }
  assert (HB : (1 - d) * (1 - u) * (1 - u) <= (1 + e0) * (1 + e1) * (1 + e2) <= (1 + d) * (1 + u) * (1 + u)).
  { split; apply Rmult_le_compat; unfold d, u in *; lra. }
  set (P := (1 + e0) * (1 + e1) * (1 + e2)) in *.
  assert (HP : Rabs (P - 1) <= / 500000) by (apply Rabs_le; unfold d, u in *; lra).
  rewrite Rabs_mult, (Rabs_pos_eq N) by lra.
  apply Rle_lt_trans with (65535 * / 500000); [|lra].
  apply Rmult_le_compat; [lra|apply Rabs_pos|lra|exact HP].
Qed.

Lemma rnd32_as_flocq : forall x, round radix2 (SpecFloat.fexp 24 128) (round_mode mode_NE) x = rnd32 x.
Proof. reflexivity. Qed.

Lemma rnd32_le : forall x y, x <= y -> rnd32 x <= rnd32 y.
Proof. intros. unfold rnd32. apply round_le; [typeclasses eauto|typeclasses eauto|assumption]. Qed.
Lemma rnd32_Z : forall n : Z, (Z.abs n < 16777216)%Z -> rnd32 (IZR n) = IZR n.
Proof.
  intros n Hn. unfold rnd32. apply round_generic; [typeclasses eauto|].
  apply generic_format_FLT. apply FLT_spec with (Float radix2 n 0).
  - unfold F2R. simpl. ring.
  - simpl. lia.
  - simpl. lia.
Qed.
Lemma rnd32_B2R : forall x : f32, rnd32 (B2R x) = B2R x.
Proof. intros x. unfold rnd32. apply round_generic; [typeclasses eauto|]. apply (generic_format_B2R 24 128). Qed.

Lemma B2R_one : B2R (f32_of_Z 1) = 1.
Proof. unfold f32_of_Z, f32_of. generalize (binary_normalize_correct 24 128 _ _ mode_NE 1 0 false). simpl.
  rewrite rnd32_as_flocq. replace (F2R (Float radix2 1 0)) with (IZR 1) by (unfold F2R; simpl; ring).
  rewrite rnd32_Z by (simpl; lia). rewrite Rlt_bool_true by (rewrite Rabs_pos_eq by lra; simpl; lra).
  intros [H _]. exact H. Qed.

Lemma f32_of_Z_correct : forall n : Z, (0 <= n <= 65535)%Z -> B2R (f32_of_Z n) = IZR n /\ is_finite (f32_of_Z n) = true.
Proof.
  intros n Hn. unfold f32_of_Z, f32_of. generalize (binary_normalize_correct 24 128 _ _ mode_NE n 0 false). simpl.
  rewrite rnd32_as_flocq. replace (F2R (Float radix2 n 0)) with (IZR n) by (unfold F2R; simpl; ring).
  rewrite rnd32_Z by lia.
  rewrite Rlt_bool_true.
  - intros [H [H' _]]. split; assumption.
  - rewrite Rabs_pos_eq by (apply IZR_le; lia). apply Rle_lt_trans with 65535; [apply IZR_le; lia|]. simpl. lra.
Qed.

Lemma clip32_correct : forall cmin cmax x : f32, is_finite cmin = true -> is_finite cmax = true -> is_finite x = true ->
  B2R (clip32 cmin cmax x) = clipR (B2R cmin) (B2R cmax) (B2R x) /\ is_finite (clip32 cmin cmax x) = true.
Proof.
  intros cmin cmax x F1 F2 F3. unfold clip32, clipR.
  rewrite (Bltb_correct 24 128 x cmin F3 F1).
  set (x1 := if Rlt_bool (B2R x) (B2R cmin) then cmin else x).
  assert (H1 : B2R x1 = Rmax (B2R x) (B2R cmin) /\ is_finite x1 = true).
  { unfold x1. destruct (Rlt_bool_spec (B2R x) (B2R cmin)) as [H|H]; split; try assumption.
    - rewrite Rmax_right by lra. reflexivity.
    - rewrite Rmax_left by lra. reflexivity. }
  destruct H1 as [H1 F4]. rewrite (Bltb_correct 24 128 cmax x1 F2 F4). rewrite <- H1.
  destruct (Rlt_bool_spec (B2R cmax) (B2R x1)) as [H|H]; split; try assumption.
  - rewrite Rmin_right by lra. reflexivity.
  - rewrite Rmin_left by lra. reflexivity.
Qed.

Lemma small_lt_emax : forall r, Rabs r <= 65535 -> Rlt_bool (Rabs r) (bpow radix2 128) = true.
Proof. intros r H. apply Rlt_bool_true. apply Rle_lt_trans with (1 := H). simpl. lra. Qed.

Lemma scaled32_correct : forall cmin cmax lev x : f32, forall L : Z,
  is_finite cmin = true -> is_finite cmax = true -> is_finite x = true ->
  0 <= B2R cmin <= B2R cmax -> 0 < B2R cmax -> (1 <= L <= 65535)%Z -> lev = f32_of_Z L ->
  B2R (scaled32 cmin cmax lev x) = scaledR (B2R cmin) (B2R cmax) (IZR L) (B2R x) /\
  is_finite (scaled32 cmin cmax lev x) = true /\ 0 <= scaledR (B2R cmin) (B2R cmax) (IZR L) (B2R x) <= 65535.
Proof.
  intros cmin cmax lev x L F1 F2 F3 Hmm Hpos HL ->.
  destruct (f32_of_Z_correct L ltac:(lia)) as [HlevR HlevF].
  destruct (clip32_correct cmin cmax x F1 F2 F3) as [Hc Fc].
  unfold scaled32, scaledR. rewrite <- Hc.
  set (c := clip32 cmin cmax x) in *.
  assert (Hcr : 0 <= B2R c <= B2R cmax).
  { rewrite Hc. unfold clipR. split.
    - apply Rmin_glb; [|lra]. apply Rle_trans with (B2R cmin); [lra|apply Rmax_r].
    - apply Rmin_r. }
  assert (Hratio : 0 <= B2R c / B2R cmax <= 1).
  { split; [apply Rmult_le_pos; [lra|apply Rlt_le, Rinv_0_lt_compat; lra]|].
    apply Rmult_le_reg_r with (B2R cmax); [lra|]. unfold Rdiv. rewrite Rmult_assoc, Rinv_l by lra. lra. }
  assert (Ha : 0 <= rnd32 (B2R c / B2R cmax) <= 1).
  { split; [rewrite <- rnd32_0; apply rnd32_le; lra|]. rewrite <- (rnd32_Z 1) by (simpl; lia). apply rnd32_le. lra. }
  (* division *)
  generalize (Bdiv_correct 24 128 _ _ mode_NE c cmax ltac:(lra)). rewrite rnd32_as_flocq.
  rewrite small_lt_emax by (rewrite Rabs_pos_eq; lra). intros [Hd [Fd _]]. rewrite Fc in Fd.
  set (a := Bdiv mode_NE c cmax) in *.
  (* times one *)
  generalize (Bmult_correct 24 128 _ _ mode_NE a (f32_of_Z 1)). rewrite rnd32_as_flocq, B2R_one.
  rewrite small_lt_emax.
  2:{ rewrite Rmult_1_r, rnd32_B2R, Hd. rewrite Rabs_pos_eq; lra. }
  intros [Hm1 [Fm1 _]].
  replace (is_finite a && is_finite (f32_of_Z 1)) with true in Fm1 by (rewrite Fd; reflexivity).
  set (a1 := Bmult mode_NE a (f32_of_Z 1)) in *.
  assert (Ha1 : 0 <= B2R a1 <= 1).
  { rewrite Hm1, Rmult_1_r, rnd32_B2R, Hd. exact Ha. }
  (* times the number of levels *)
  assert (HLr : 1 <= IZR L <= 65535) by (split; apply IZR_le; lia).
  assert (Hb : 0 <= rnd32 (B2R a1 * IZR L) <= 65535).
  { split; [rewrite <- rnd32_0; apply rnd32_le; apply Rmult_le_pos; lra|].
    rewrite <- (rnd32_Z 65535) by (simpl; lia). apply rnd32_le.
    apply Rle_trans with (1 * IZR L); [apply Rmult_le_compat_r; lra|lra]. }
  generalize (Bmult_correct 24 128 _ _ mode_NE a1 (f32_of_Z L)). rewrite rnd32_as_flocq, HlevR.
  rewrite small_lt_emax by (rewrite Rabs_pos_eq; lra).
  intros [Hm2 [Fm2 _]]. replace (is_finite a1 && is_finite (f32_of_Z L)) with true in Fm2 by (rewrite Fm1, HlevF; reflexivity).
  assert (Hchain : rnd32 (rnd32 (B2R c / B2R cmax) * 1) = B2R a1) by (rewrite Hm1, Hd; reflexivity).
  rewrite Hchain. repeat split; try assumption; apply Hb.
Qed.

Lemma round_FIX0 : forall rnd (Hr : Valid_rnd rnd) x, round radix2 (FIX_exp 0) rnd x = IZR (rnd x).
Proof. intros rnd Hr x. unfold round, scaled_mantissa, cexp, F2R, FIX_exp. simpl. rewrite !Rmult_1_r. reflexivity. Qed.

Theorem quant32_correct : forall (rint : bool) (cmin cmax lev x : f32) (L : Z),
  is_finite cmin = true -> is_finite cmax = true -> is_finite x = true ->
  0 <= B2R cmin <= B2R cmax -> 0 < B2R cmax -> (1 <= L <= 65535)%Z -> lev = f32_of_Z L ->
  quant32 rint cmin cmax lev x =
  if rint then quantR (B2R cmin) (B2R cmax) (IZR L) (B2R x) else quantR_legacy (B2R cmin) (B2R cmax) (IZR L) (B2R x).
Proof.
  intros rint cmin cmax lev x L F1 F2 F3 Hmm Hpos HL Hlev.
  destruct (scaled32_correct cmin cmax lev x L F1 F2 F3 Hmm Hpos HL Hlev) as [Hs [Fs _]].
  unfold quant32, quantR, quantR_legacy. rewrite <- Hs. set (b := scaled32 cmin cmax lev x) in *.
  apply eq_IZR. destruct rint.
  - rewrite (Btrunc_correct 24 128 ltac:(easy)). 
    destruct (Bnearbyint_correct 24 128 _ mode_NE b) as [Hn _]. rewrite Hn.
    rewrite !round_FIX0 by typeclasses eauto. simpl round_mode. rewrite Ztrunc_IZR. reflexivity.
  - rewrite (Btrunc_correct 24 128 ltac:(easy)). rewrite round_FIX0 by typeclasses eauto. reflexivity.
Qed.

(* ---- the property on the IEEE-754 model: every range, every level, both depths ---- *)
Theorem quant32_any_range : forall (cmin cmax x : f32) (L n : Z),
  is_finite cmin = true -> is_finite cmax = true -> is_finite x = true ->
  0 <= B2R cmin <= B2R cmax -> 0 < B2R cmax -> B2R cmin <= B2R x ->
  (1 <= L <= 65535)%Z -> (0 <= n <= L)%Z ->
  Rabs (B2R x * IZR L - IZR n * B2R cmax) <= / 1048576 * (IZR n * B2R cmax) ->
  quant32 true cmin cmax (f32_of_Z L) x = n.
Proof.
  intros cmin cmax x L n F1 F2 F3 Hmm Hpos Hin HL Hn Hx.
  rewrite (quant32_correct true cmin cmax (f32_of_Z L) x L) by (try assumption; reflexivity).
  apply quant_any_range; assumption.
Qed.

Lemma levels_8 : levels 8 = 255%Z. Proof. reflexivity. Qed.
Lemma levels_16 : levels 16 = 65535%Z. Proof. reflexivity. Qed.

Lemma quant_level_rt : forall depth n, (depth = 8 \/ depth = 16)%Z -> (0 <= n <= levels depth)%Z ->
  quant_level true depth n = n.
Proof.
  intros depth n Hd Hn. unfold quant_level, quant_dy. cbn [fst snd]. fold (f32_of_Z 0) (f32_of_Z (levels depth)) (f32_of_Z n).
  assert (HL : (1 <= levels depth <= 65535)%Z) by (destruct Hd as [-> | ->]; [rewrite levels_8|rewrite levels_16]; lia).
  destruct (f32_of_Z_correct 0 ltac:(lia)) as [R0 F0].
  destruct (f32_of_Z_correct (levels depth) ltac:(lia)) as [RL FL].
  destruct (f32_of_Z_correct n ltac:(lia)) as [Rn Fn].
  assert (HLr : 1 <= IZR (levels depth)) by (apply IZR_le; lia).
  assert (Hnr : 0 <= IZR n) by (apply IZR_le; lia).
  apply quant32_any_range; try assumption; rewrite ?R0, ?RL, ?Rn; try lra; try lia.
  replace (IZR n * IZR (levels depth) - IZR n * IZR (levels depth)) with 0 by ring.
  rewrite Rabs_R0. apply Rmult_le_pos; [lra|]. apply Rmult_le_pos; lra.
Qed.

(* ---- the former quantiser (cast = truncation) ---- *)
Open Scope Z_scope.
Lemma all_pow2_spec : forall k lo f, all_pow2 k lo f = true -> forall n, lo <= n < lo + 2 ^ Z.of_nat k -> f n = true.
Proof.
  induction k as [|k IH]; intros lo f H n Hn.
  - simpl in *. replace n with lo by lia. exact H.
  - cbn [all_pow2] in H. apply andb_prop in H. destruct H as [H1 H2].
    rewrite Nat2Z.inj_succ, Z.pow_succ_r in Hn by lia.
    destruct (Z_lt_le_dec n (lo + 2 ^ Z.of_nat k)) as [Hlt|Hge].
    + apply (IH lo f H1). lia.
    + apply (IH _ f H2). lia.
Qed.

Lemma legacy_quant8_sweep : all_pow2 8 0 (level_kept false 8) = true.
Proof. vm_compute. reflexivity. Qed.
Lemma legacy_quant8_rt : forall n, 0 <= n <= 255 -> quant_level false 8 n = n.
Proof. intros n Hn. apply Z.eqb_eq. apply (all_pow2_spec 8 0 _ legacy_quant8_sweep). simpl. lia. Qed.
(* cross-check of the general theorem by computation *)
Lemma quant8_sweep : all_pow2 8 0 (level_kept true 8) = true.
Proof. vm_compute. reflexivity. Qed.

(* 6.666...: the binary64 value of 100*17/255, saved with cmax = 100: level 17 is stored as 16 *)
Lemma legacy_quant_refuted : exists cmax px n, 0 <= n <= 255 /\
  quant_dy true 8 (0, 0) cmax px = n /\ quant_dy false 8 (0, 0) cmax px <> n.
Proof. exists (100, 0), (7505999378950827, -50), 17. split; [lia|]. split; vm_compute; [reflexivity|discriminate]. Qed.
Open Scope R_scope.

(* ---- whole images of integer levels ---- *)
Section ImageLevels.
Variables (F : Type) (imwrite : image Z -> F) (imread : F -> option (image Z)).
Hypothesis codec : forall i, shape_ok i = true -> imread (imwrite i) = Some (canon i).
Lemma image_levels_rt : forall depth (i : image Z), (depth = 8 \/ depth = 16)%Z -> shape_ok i = true ->
  (forall a, in_image a i -> (0 <= a <= levels depth)%Z) ->
  load_image_model Z Z F (fun z => z) imread (save_image_model Z Z F (quant_level true depth) imwrite i) = Some (canon i).
Proof.
  intros depth i Hd Hs Hr. apply image_rt; [exact codec|exact Hs|].
  intros a Ha. apply quant_level_rt; [exact Hd|apply Hr; exact Ha].
Qed.
End ImageLevels.


(* ==================== 8. torch_style for each rank ==================== *)
Lemma torch_style_gray : forall A ts (m : list (list A)), torch_style_view ts (Gray m) = Gray m.
Proof. reflexivity. Qed.
Lemma torch_style_off : forall A (i : image A), torch_style_view false i = i.
Proof. intros A [m|m]; reflexivity. Qed.
Lemma torch_style_color : forall A H W C (m : list (list (list A))), cube H W C m -> (1 <= H)%nat -> (1 <= W)%nat ->
  torch_style_view true (Color m) = Color (hwc_to_chw C m) /\ chw_to_hwc H W (hwc_to_chw C m) = m.
Proof.
  intros A H W C m Hc HH HW. split; [|apply hwc_chw_inverse; exact Hc].
  simpl. f_equal. f_equal. destruct Hc as [Hl Hf]. unfold channel_count.
  destruct m as [|r m]; [simpl in Hl; lia|]. inversion Hf as [|? ? [Hr Hp] _]; subst. simpl.
  destruct r as [|p r]; [simpl in HW; lia|]. inversion Hp; subst. reflexivity.
Qed.

Lemma transpose_hd_length : forall A n (m : list (list A)), (1 <= n)%nat -> Forall (fun r => length r = n) m ->
  length (hd [] (transpose n m)) = length m.
Proof.
  intros A n m Hn H. pose proof (transpose_rows A n m H) as Hr. pose proof (transpose_length A n m H) as Hl.
  destruct (transpose n m) as [|c T]; [simpl in Hl; lia|]. inversion Hr; subst. assumption.
Qed.

(* shapes: a monochrome file keeps (H, W) whatever torch_style says; (H, W, C) becomes (C, H, W) *)
Lemma torch_style_shape_gray : forall A ts (m : list (list A)), image_shape (torch_style_view ts (Gray m)) = image_shape (Gray m).
Proof. reflexivity. Qed.
Lemma torch_style_shape_color : forall A H W C (m : list (list (list A))), cube H W C m -> (1 <= H)%nat -> (1 <= W)%nat -> (1 <= C)%nat ->
  image_shape (torch_style_view true (Color m)) = [C; H; W].
Proof.
  intros A H W C m Hc HH HW HC. destruct (torch_style_color A H W C m Hc HH HW) as [-> _].
  destruct Hc as [Hl Hf]. unfold image_shape, hwc_to_chw.
  assert (Hrows : Forall (fun mm : list (list A) => length mm = W) m) by (eapply Forall_impl; [|exact Hf]; simpl; tauto).
  assert (Hpix : Forall (Forall (fun p : list A => length p = C)) m) by (eapply Forall_impl; [|exact Hf]; simpl; tauto).
  assert (H1 : Forall (fun mm => length mm = C) (map (transpose C) m)).
  { apply Forall_forall. intros mm Hm. apply in_map_iff in Hm. destruct Hm as [m0 [<- Hm]].
    apply transpose_length. rewrite Forall_forall in Hpix. apply Hpix. exact Hm. }
  rewrite transpose_length by exact H1.
  rewrite transpose_hd_length by (try exact H1; lia). rewrite map_length, Hl.
  (* width: every entry of the transposed cube is a row of the planes, of length W *)
  assert (H2 : Forall (Forall (fun r : list A => length r = W)) (transpose C (map (transpose C) m))).
  { apply transpose_entries. apply Forall_forall. intros mm Hm. apply in_map_iff in Hm. destruct Hm as [m0 [<- Hm]].
    rewrite Forall_forall in Hrows, Hpix. rewrite <- (Hrows m0 Hm). apply transpose_rows. apply Hpix. exact Hm. }
  assert (H3 : length (transpose C (map (transpose C) m)) = C) by (apply transpose_length; exact H1).
  assert (H4 : length (hd [] (transpose C (map (transpose C) m))) = H) by (rewrite transpose_hd_length by (try exact H1; lia); rewrite map_length; exact Hl).
  destruct (transpose C (map (transpose C) m)) as [|pl T]; [simpl in H3; lia|]. simpl in *.
  destruct pl as [|r pl]; [simpl in H4; lia|]. inversion H2 as [|? ? Hpl _]; subst. inversion Hpl; subst. reflexivity.
Qed.

Section ImageFull.
Variables (A B F : Type) (q : A -> B) (inj : B -> A) (imwrite : image B -> F) (imread : F -> option (image B)).
Hypothesis codec : forall i, shape_ok i = true -> imread (imwrite i) = Some (canon i).
(* save then load with any torch_style: the torch_style view of the (canonical) image saved *)
Lemma image_rt_full : forall ts (i : image A), shape_ok i = true -> (forall a, in_image a i -> inj (q a) = a) ->
  load_image_full inj imread ts (save_image_model A B F q imwrite i) = Some (torch_style_view ts (canon i)).
Proof.
  intros ts i Hs Hq. pose proof (image_rt A B F q inj imwrite imread codec i Hs Hq) as H.
  unfold load_image_full, load_view. unfold load_image_model in H.
  destruct (imread (save_image_model A B F q imwrite i)) as [j|]; [|discriminate].
  simpl in *. injection H as H. rewrite H. reflexivity.
Qed.
End ImageFull.
