(* C19 — the former 16-bit quantiser kept every integer level saved with cmax = 65535 (all 65 536 levels). *)
From Coq Require Import ZArith Bool Lia.
From OdakV Require Import C19.Model C19.Lemmas.
From OdakV Require Import C19.Sweep16_0.
From OdakV Require Import C19.Sweep16_1.
From OdakV Require Import C19.Sweep16_2.
From OdakV Require Import C19.Sweep16_3.
From OdakV Require Import C19.Sweep16_4.
From OdakV Require Import C19.Sweep16_5.
From OdakV Require Import C19.Sweep16_6.
From OdakV Require Import C19.Sweep16_7.
Open Scope Z_scope.
Lemma legacy_quant16_rt : forall n, 0 <= n <= 65535 -> quant_level false 16 n = n.
Proof.
  intros n Hn. apply Z.eqb_eq. change (level_kept false 16 n = true).
  destruct (Z_lt_le_dec n 8192) as [H0|H0]; [apply (all_pow2_spec 13 0 _ legacy_quant16_sweep_0); simpl; lia|].
  destruct (Z_lt_le_dec n 16384) as [H1|H1]; [apply (all_pow2_spec 13 8192 _ legacy_quant16_sweep_1); simpl; lia|].
  destruct (Z_lt_le_dec n 24576) as [H2|H2]; [apply (all_pow2_spec 13 16384 _ legacy_quant16_sweep_2); simpl; lia|].
  destruct (Z_lt_le_dec n 32768) as [H3|H3]; [apply (all_pow2_spec 13 24576 _ legacy_quant16_sweep_3); simpl; lia|].
  destruct (Z_lt_le_dec n 40960) as [H4|H4]; [apply (all_pow2_spec 13 32768 _ legacy_quant16_sweep_4); simpl; lia|].
  destruct (Z_lt_le_dec n 49152) as [H5|H5]; [apply (all_pow2_spec 13 40960 _ legacy_quant16_sweep_5); simpl; lia|].
  destruct (Z_lt_le_dec n 57344) as [H6|H6]; [apply (all_pow2_spec 13 49152 _ legacy_quant16_sweep_6); simpl; lia|].
  destruct (Z_lt_le_dec n 65536) as [H7|H7]; [apply (all_pow2_spec 13 57344 _ legacy_quant16_sweep_7); simpl; lia|].
  lia.
Qed.
