(* C19 — exhaustive sweep of the former (truncating) 16-bit quantiser, levels 49152 .. 57343, by computation
   in Flocq's IEEE-754 binary32 (one of eight files so that `make -j` runs them side by side). *)
From Coq Require Import ZArith Bool.
From OdakV Require Import C19.Model.
Open Scope Z_scope.
Lemma legacy_quant16_sweep_6 : all_pow2 13 49152 (level_kept false 16) = true.
Proof. vm_compute. reflexivity. Qed.
