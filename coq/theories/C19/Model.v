(* C19 — what is saved can be loaded back unchanged.
   Executable models of
     odak.tools.file.{save_image, load_image, write_to_text_file, read_text_file, copy_file,
                      save_dictionary, load_dictionary}
     odak.learn.tools.file.{save_image, load_image}       (channel-axis detection, CHW <-> HWC)
     odak.tools.asset.{write_PLY, read_PLY}               (vertex / face tables)
   Characters, bytes, grey levels, file names are integers (Z); binary32 arithmetic is Flocq's
   IEEE-754 `binary_float 24 128`.  External codecs (PNG through cv2, JSON, plyfile, torch.save,
   the UTF-8 codec of the interpreter) are Section variables with their contract as hypotheses.
   Definitions only; proofs are in Lemmas.v, property statements in Props.v. *)
From Coq Require Import ZArith List Bool Reals.
From Flocq Require Import Core BinarySingleNaN.
Import ListNotations.
Open Scope Z_scope.

(* ====================================================================================== *)
(* 1. text line lists: write_to_text_file / read_text_file                                 *)
(* ====================================================================================== *)
Definition text := list Z.                     (* a str: list of code points *)
Definition LF : Z := 10.
Definition CR : Z := 13.

(* for line in content: f.write('{}\n'.format(line)) *)
Definition write_lines (ls : list text) : text := concat (map (fun l => l ++ [LF]) ls).

(* `while line := f.readline()` on a text-mode file with universal newlines: "\n", "\r\n" and a
   lone "\r" all end a line and are handed over as "\n"; a last line without terminator is
   returned as it is; the loop stops at end of file only (a blank line is "\n", not ""). *)
Fixpoint readlines (cur s : text) : list text :=
  match s with
  | [] => match cur with [] => [] | _ => [cur] end
  | c :: r =>
      if c =? LF then (cur ++ [LF]) :: readlines [] r
      else if c =? CR then
        match r with
        | c2 :: r2 => if c2 =? LF then (cur ++ [LF]) :: readlines [] r2
                      else (cur ++ [LF]) :: readlines [] r
        | [] => [cur ++ [LF]]
        end
      else readlines (cur ++ [c]) r
  end.

Fixpoint dropwhile (p : Z -> bool) (l : text) : text :=
  match l with c :: r => if p c then dropwhile p r else l | [] => [] end.
Definition rstrip_by (p : Z -> bool) (l : text) : text := rev (dropwhile p (rev l)).

(* str.rstrip('\n') : the repaired reader *)
Definition strip_nl : text -> text := rstrip_by (fun c => c =? LF).
(* str.rstrip() : every trailing character with str.isspace() — the former reader *)
Definition is_space (c : Z) : bool :=
  ((9 <=? c) && (c <=? 13)) || ((28 <=? c) && (c <=? 32)) || (c =? 133) || (c =? 160) ||
  (c =? 5760) || ((8192 <=? c) && (c <=? 8202)) || (c =? 8232) || (c =? 8233) || (c =? 8239) ||
  (c =? 8287) || (c =? 12288).
Definition strip_ws : text -> text := rstrip_by is_space.

Definition read_lines (strip : text -> text) (s : text) : list text := map strip (readlines [] s).

(* a line that a line-oriented text file can hold: no line terminator inside *)
Definition clean_char (c : Z) : Prop := c <> LF /\ c <> CR.
Definition clean_line (l : text) : Prop := Forall clean_char l.
(* last character (if any) is not white space *)
Definition ends_solid (l : text) : Prop := match rev l with [] => True | c :: _ => is_space c = false end.

(* ====================================================================================== *)
(* 2. UTF-8 (what `encoding='utf-8'` does to a str) and the ASCII decoder of a C locale      *)
(* ====================================================================================== *)
Definition utf8_char (c : Z) : list Z :=
  if c <? 128 then [c]
  else if c <? 2048 then [192 + c / 64; 128 + c mod 64]
  else if c <? 65536 then [224 + c / 4096; 128 + (c / 64) mod 64; 128 + c mod 64]
  else [240 + c / 262144; 128 + (c / 4096) mod 64; 128 + (c / 64) mod 64; 128 + c mod 64].
Definition utf8_encode (s : text) : list Z := flat_map utf8_char s.

Definition is_cont (b : Z) : bool := (128 <=? b) && (b <? 192).
(* strict decoder: rejects stray continuation bytes, overlong forms, surrogates, > U+10FFFF *)
Fixpoint utf8_decode (b : list Z) : option text :=
  match b with
  | [] => Some []
  | b0 :: r0 =>
      if (0 <=? b0) && (b0 <? 128) then option_map (cons b0) (utf8_decode r0)
      else if (192 <=? b0) && (b0 <? 224) then
        match r0 with
        | b1 :: r1 =>
            let c := (b0 - 192) * 64 + (b1 - 128) in
            if is_cont b1 && (128 <=? c) then option_map (cons c) (utf8_decode r1) else None
        | _ => None
        end
      else if (224 <=? b0) && (b0 <? 240) then
        match r0 with
        | b1 :: b2 :: r2 =>
            let c := (b0 - 224) * 4096 + (b1 - 128) * 64 + (b2 - 128) in
            if is_cont b1 && is_cont b2 && (2048 <=? c) && negb ((55296 <=? c) && (c <? 57344))
            then option_map (cons c) (utf8_decode r2) else None
        | _ => None
        end
      else if (240 <=? b0) && (b0 <? 248) then
        match r0 with
        | b1 :: b2 :: b3 :: r3 =>
            let c := (b0 - 240) * 262144 + (b1 - 128) * 4096 + (b2 - 128) * 64 + (b3 - 128) in
            if is_cont b1 && is_cont b2 && is_cont b3 && (65536 <=? c) && (c <? 1114112)
            then option_map (cons c) (utf8_decode r3) else None
        | _ => None
        end
      else None
  end.
(* a Unicode scalar value: what a str that can be written holds *)
Definition scalar (c : Z) : Prop := 0 <= c < 1114112 /\ ~ (55296 <= c < 57344).
Definition ascii_decode (b : list Z) : option text :=
  if forallb (fun x => (0 <=? x) && (x <? 128)) b then Some b else None.

(* a text/JSON file: str -> bytes on write, bytes -> str on read; JSON printer/parser external *)
Section TextFile.
Variables (D : Type) (dump : D -> text) (parse : text -> option D).
Definition save_dictionary_model (d : D) : list Z := utf8_encode (dump d).
Definition load_dictionary_model (decode : list Z -> option text) (file : list Z) : option D :=
  match decode file with Some s => parse s | None => None end.
End TextFile.
Definition write_text_file_model (ls : list text) : list Z := utf8_encode (write_lines ls).
Definition read_text_file_model (strip : text -> text) (file : list Z) : option (list text) :=
  option_map (read_lines strip) (utf8_decode file).

(* ====================================================================================== *)
(* 3. copy_file on a file system  name -> option bytes                                      *)
(* ====================================================================================== *)
Definition fsys := list (Z * list Z).            (* association list: resolved name, content *)
Fixpoint lookup (p : Z) (f : fsys) : option (list Z) :=
  match f with [] => None | (q, b) :: r => if q =? p then Some b else lookup p r end.
Fixpoint store (p : Z) (b : list Z) (f : fsys) : fsys :=
  match f with
  | [] => [(p, b)]
  | (q, c) :: r => if q =? p then (q, b) :: r else (q, c) :: store p b r
  end.
Inductive outcome := Copied (f : fsys) | SameFile | NotFound.
(* shutil.copyfile(src, dst): SameFileError if both name the same existing file, FileNotFoundError
   if the source does not exist, otherwise dst is created / truncated and receives the bytes *)
Definition copyfile (src dst : Z) (f : fsys) : outcome :=
  match lookup src f with
  | None => NotFound
  | Some b => if src =? dst then SameFile else Copied (store dst b f)
  end.
Definition copy_file_model (src dst : Z) (f : fsys) : outcome := copyfile src dst f.
Definition copy_file_legacy (src dst : Z) (f : fsys) : outcome := copyfile src src f.
(* an operation sequence (for the correspondence runs): outcomes 0 copied / 1 same file / 2 not found *)
Fixpoint run_copies (legacy : bool) (ops : list (Z * Z)) (f : fsys) : list Z * fsys :=
  match ops with
  | [] => ([], f)
  | (s, d) :: r =>
      match (if legacy then copy_file_legacy s d f else copy_file_model s d f) with
      | Copied f' => let '(o, g) := run_copies legacy r f' in (0 :: o, g)
      | SameFile => let '(o, g) := run_copies legacy r f in (1 :: o, g)
      | NotFound => let '(o, g) := run_copies legacy r f in (2 :: o, g)
      end
  end.

(* ====================================================================================== *)
(* 4. PLY: vertex table with three rows per triangle, face table (3i, 3i+1, 3i+2)           *)
(* ====================================================================================== *)
Section Ply.
Context {A : Type}.
Definition vertex : Type := A * A * A.
Definition triangle : Type := vertex * vertex * vertex.
Definition ply_vertices (ts : list triangle) : list vertex :=
  flat_map (fun t => let '(a, b, c) := t in [a; b; c]) ts.
Definition ply_face (i : nat) : nat * nat * nat := (3 * i, 3 * i + 1, 3 * i + 2)%nat.
Definition ply_faces_from (k n : nat) : list (nat * nat * nat) := map ply_face (seq k n).
Definition ply_faces (n : nat) := ply_faces_from 0 n.
(* read_PLY with zero angles and offset: triangle = the three vertex rows a face names *)
Fixpoint ply_read (V : list vertex) (F : list (nat * nat * nat)) : option (list triangle) :=
  match F with
  | [] => Some []
  | (i, j, k) :: r =>
      match nth_error V i, nth_error V j, nth_error V k, ply_read V r with
      | Some a, Some b, Some c, Some ts => Some ((a, b, c) :: ts)
      | _, _, _, _ => None
      end
  end.
Definition map_triangle (g : A -> A) (t : triangle) : triangle :=
  let '((a1, a2, a3), (b1, b2, b3), (c1, c2, c3)) := t in
  ((g a1, g a2, g a3), (g b1, g b2, g b3), (g c1, g c2, g c3)).
(* write_PLY stores every coordinate as 'f4' (rnd = rounding to binary32) *)
Definition write_ply_model (rnd : A -> A) (ts : list triangle) :=
  (ply_vertices (map (map_triangle rnd) ts), ply_faces (length ts)).
Definition read_ply_model (file : list vertex * list (nat * nat * nat)) := ply_read (fst file) (snd file).
(* a triangle whose coordinates the file format holds exactly *)
Definition representable (rnd : A -> A) (t : triangle) : Prop := map_triangle rnd t = t.
End Ply.

(* ====================================================================================== *)
(* 5. the 8/16-bit quantiser of save_image in binary32                                      *)
(* ====================================================================================== *)
Definition f32 := binary_float 24 128.
#[export] Instance prec24_gt_0 : Prec_gt_0 24 := eq_refl.
#[export] Instance prec24_lt_emax : Prec_lt_emax 24 128 := eq_refl.
(* m * 2^e rounded to binary32, nearest-even: `astype(np.float32)` of a binary64 value, and the
   conversion of the Python scalars cmin, cmax, 1., 2**depth - 1 *)
Definition f32_of (m e : Z) : f32 := binary_normalize 24 128 _ _ mode_NE m e false.
Definition f32_of_Z (n : Z) : f32 := f32_of n 0.

(*  input_img[input_img < cmin] = cmin ; input_img[input_img > cmax] = cmax
    input_img /= cmax ; input_img = input_img * 1. * (2**color_depth - 1)
    repaired: np.rint(...) before the cast ; former: the cast alone (truncation)            *)
Definition clip32 (cmin cmax x : f32) : f32 :=
  let x1 := if Bltb x cmin then cmin else x in
  if Bltb cmax x1 then cmax else x1.
Definition scaled32 (cmin cmax lev x : f32) : f32 :=
  Bmult mode_NE (Bmult mode_NE (Bdiv mode_NE (clip32 cmin cmax x) cmax) (f32_of_Z 1)) lev.
Definition quant32 (rint : bool) (cmin cmax lev x : f32) : Z :=
  let b := scaled32 cmin cmax lev x in
  Btrunc (if rint then Bnearbyint mode_NE b else b).
Definition levels (depth : Z) : Z := 2 ^ depth - 1.
(* the quantiser on a pixel given as a dyadic m * 2^e ; cmin, cmax likewise *)
Definition quant_dy (rint : bool) (depth : Z) (cmin cmax px : Z * Z) : Z :=
  quant32 rint (f32_of (fst cmin) (snd cmin)) (f32_of (fst cmax) (snd cmax))
          (f32_of_Z (levels depth)) (f32_of (fst px) (snd px)).
(* an integer level saved with cmin = 0, cmax = 2^depth - 1 *)
Definition quant_level (rint : bool) (depth n : Z) : Z :=
  quant_dy rint depth (0, 0) (levels depth, 0) (n, 0).

(* exhaustive sweeps: f holds on [lo, lo + 2^k) *)
Fixpoint all_pow2 (k : nat) (lo : Z) (f : Z -> bool) : bool :=
  match k with O => f lo | S k' => all_pow2 k' lo f && all_pow2 k' (lo + 2 ^ Z.of_nat k') f end.
Definition level_kept (rint : bool) (depth n : Z) : bool := quant_level rint depth n =? n.

(* the same computation over the reals with the standard model of binary32 rounding (no overflow) *)
Definition rnd32 (x : R) : R := round radix2 (FLT_exp (-149) 24) ZnearestE x.
Definition clipR (cmin cmax v : R) : R := Rmin (Rmax v cmin) cmax.
Definition scaledR (cmin cmax lev v : R) : R :=
  rnd32 (rnd32 (rnd32 (clipR cmin cmax v / cmax) * 1) * lev).
Definition quantR (cmin cmax lev v : R) : Z := ZnearestE (scaledR cmin cmax lev v).
Definition quantR_legacy (cmin cmax lev v : R) : Z := Ztrunc (scaledR cmin cmax lev v).

(* ====================================================================================== *)
(* 6. images: channel swap, what goes to cv2.imwrite, what comes back from cv2.imread       *)
(* ====================================================================================== *)
Inductive image (A : Type) : Type :=
  | Gray (px : list (list A))                    (* shape (H, W) *)
  | Color (px : list (list (list A))).           (* shape (H, W, C) *)
Arguments Gray {A}. Arguments Color {A}.

Definition swap02 {A} (p : list A) : list A :=
  match p with a :: b :: c :: r => c :: b :: a :: r | _ => p end.
(* save_image swaps only when shape[2] > 1 ; load_image whenever the array has three axes *)
Definition swap_if_many {A} (p : list A) : list A := if (1 <? Z.of_nat (length p)) then swap02 p else p.

Definition image_map {A B} (g : A -> B) (i : image A) : image B :=
  match i with Gray m => Gray (map (map g) m) | Color m => Color (map (map (map g)) m) end.
Definition save_px {A B} (q : A -> B) (i : image A) : image B :=
  match i with
  | Gray m => Gray (map (map q) m)
  | Color m => Color (map (map (fun p => swap_if_many (map q p))) m)
  end.
Definition load_px {A} (i : image A) : image A :=
  match i with Gray m => Gray m | Color m => Color (map (map swap02) m) end.
(* a PNG has no (H, W, 1): such an array is stored, and comes back, as (H, W) *)
Definition one_channel {A} (m : list (list (list A))) : bool :=
  forallb (forallb (fun p => (length p =? 1)%nat)) m.
Definition canon {A} (i : image A) : image A :=
  match i with
  | Gray m => Gray m
  | Color m => if one_channel m then Gray (map (@concat A) m) else Color m
  end.
(* arrays cv2.imwrite accepts: H, W >= 1, rectangular, 1, 3 or 4 channels throughout *)
Definition rect {A} (w : nat) (m : list (list A)) : bool := forallb (fun r => (length r =? w)%nat) m.
Definition shape_ok {A} (i : image A) : bool :=
  match i with
  | Gray m => match m with r :: _ => negb (length r =? 0)%nat && rect (length r) m | [] => false end
  | Color m =>
      match m with
      | (p :: _) as r :: _ =>
          let c := length p in
          negb (length r =? 0)%nat && rect (length r) m &&
          ((c =? 1) || (c =? 3) || (c =? 4))%nat && forallb (rect c) m
      | _ => false
      end
  end.
Definition in_image {A} (a : A) (i : image A) : Prop :=
  match i with
  | Gray m => exists r, In r m /\ In a r
  | Color m => exists r p, In r m /\ In p r /\ In a p
  end.

Section ImageFile.
Variables (A B F : Type).
Variable q : A -> B.                    (* float pixel -> stored level (the quantiser) *)
Variable inj : B -> A.                  (* stored level -> float (`astype(float)`) *)
Variable imwrite : image B -> F.        (* cv2.imwrite  *)
Variable imread : F -> option (image B).  (* cv2.imread(.., IMREAD_UNCHANGED) *)
Definition save_image_model (i : image A) : F := imwrite (save_px q i).
Definition load_image_model (f : F) : option (image A) :=
  option_map (fun i => image_map inj (load_px i)) (imread f).
End ImageFile.

(* ====================================================================================== *)
(* 7. PyTorch API: channel axis detection, CHW <-> HWC                                      *)
(* ====================================================================================== *)
(* transpose of a matrix with n columns given as a list of rows *)
Definition zipcons {A} (r : list A) (m : list (list A)) : list (list A) :=
  map (fun p => fst p :: snd p) (combine r m).
Fixpoint transpose {A} (n : nat) (m : list (list A)) : list (list A) :=
  match m with [] => repeat [] n | r :: m' => zipcons r (transpose n m') end.
(* C planes of H rows of W  ->  H rows of W pixels of C   (new_img[:, :, i] = img[i]) *)
Definition chw_to_hwc {A} (H W : nat) (x : list (list (list A))) : list (list (list A)) :=
  map (transpose W) (transpose H x).
(* np.moveaxis(image, -1, 0) *)
Definition hwc_to_chw {A} (C : nat) (y : list (list (list A))) : list (list (list A)) :=
  transpose C (map (transpose C) y).
Definition cube {A} (a b c : nat) (x : list (list (list A))) : Prop :=
  length x = a /\ Forall (fun m => length m = b /\ Forall (fun r => length r = c) m) x.

Definition is_channel_count (n : Z) : bool := (n =? 1) || (n =? 3) || (n =? 4).
Definition argmin_is_first (s0 s1 s2 : Z) : bool := (s0 <=? s1) && (s0 <=? s2).
(* former rule: torch.argmin(torch.tensor(img.shape)) == 0 *)
Definition channels_first_legacy (s0 s1 s2 : Z) : bool := argmin_is_first s0 s1 s2.
(* repaired rule: the axis whose length is a channel count; the former rule only when both or
   neither end qualifies *)
Definition channels_first (s0 s1 s2 : Z) : bool :=
  let f := is_channel_count s0 in let l := is_channel_count s2 in
  if Bool.eqb f l then argmin_is_first s0 s1 s2 else f.
Definition dims3 {A} (x : list (list (list A))) : Z * Z * Z :=
  (Z.of_nat (length x), Z.of_nat (length (hd [] x)), Z.of_nat (length (hd [] (hd [] x)))).
(* learn.tools.save_image on a 3-axis tensor: the array handed to tools.save_image *)
Definition torch_to_numpy {A} (detect : Z -> Z -> Z -> bool) (x : list (list (list A))) : list (list (list A)) :=
  let '(s0, s1, s2) := dims3 x in
  if detect s0 s1 s2 then chw_to_hwc (Z.to_nat s1) (Z.to_nat s2) x else x.

(* ====================================================================================== *)
(* 8. load_image(fn, normalizeby, torch_style): what torch_style does for each rank          *)
(* ====================================================================================== *)
(* `if torch_style == True and len(image.shape) > 2: image = np.moveaxis(image, -1, 0)`:
   an array with two axes (a monochrome file) is returned as it is, (H, W); an array with three
   axes (H, W, C) becomes (C, H, W).  `Color` is used for any array with three axes. *)
Definition channel_count {A} (m : list (list (list A))) : nat := length (hd [] (hd [] m)).
Definition torch_style_view {A} (torch_style : bool) (i : image A) : image A :=
  match i with
  | Gray m => Gray m
  | Color m => if torch_style then Color (hwc_to_chw (channel_count m) m) else Color m
  end.
(* the whole loader: channel swap, `astype(float)` / `image * 1. / normalizeby` (a map g on the values,
   which leaves the shape alone), then the axis move *)
Definition load_view {A B} (g : B -> A) (torch_style : bool) (i : image B) : image A :=
  torch_style_view torch_style (image_map g (load_px i)).
Definition load_image_full {A B F} (g : B -> A) (imread : F -> option (image B)) (torch_style : bool) (f : F) : option (image A) :=
  option_map (load_view g torch_style) (imread f).
(* shape of what comes back: (H, W) | (H, W, C) | (C, H, W) *)
Definition image_shape {A} (i : image A) : list nat :=
  match i with
  | Gray m => [length m; length (hd [] m)]
  | Color m => [length m; length (hd [] m); length (hd [] (hd [] m))]
  end.
