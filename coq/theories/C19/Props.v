(* C19 — property theorems only.  Each is closed by `exact` of a lemma from Lemmas.v / Sweep16.v. *)
From Coq Require Import ZArith Reals List Bool.
From Flocq Require Import Core BinarySingleNaN.
From OdakV Require Import C19.Model C19.Lemmas C19.Sweep16.
Import ListNotations.

(* ------------------------------------------------------------------ text line lists *)
(* every list of lines without a line terminator inside is read back unchanged: any length, empty
   lines, trailing blanks, any code points *)
Theorem C19_lines_rt : forall ls, Forall clean_line ls -> read_lines strip_nl (write_lines ls) = ls.
Proof. exact lines_rt. Qed.
(* ... down to the bytes on disk (UTF-8) *)
Theorem C19_text_file_rt : forall ls, Forall clean_line ls -> Forall (Forall scalar) ls ->
  read_text_file_model strip_nl (write_text_file_model ls) = Some ls.
Proof. exact text_file_rt. Qed.
Theorem C19_utf8_rt : forall s, Forall scalar s -> utf8_decode (utf8_encode s) = Some s.
Proof. exact utf8_rt. Qed.
(* the side condition cannot be dropped: a terminator inside a line splits it *)
Theorem C19_lines_need_clean : forall strip,
  read_lines strip (write_lines [[97; 13; 98]]) <> [[97; 13; 98]] /\
  read_lines strip (write_lines [[97; 10; 98]]) <> [[97; 10; 98]].
Proof. exact lines_need_clean. Qed.
(* regression lemmas for the repaired defect: rstrip() loses trailing blanks, and only those *)
Theorem C19_lines_legacy_refuted : exists ls, Forall clean_line ls /\ read_lines strip_ws (write_lines ls) <> ls.
Proof. exact lines_rt_legacy_refuted. Qed.
Theorem C19_lines_legacy_partial : forall ls, Forall clean_line ls -> Forall ends_solid ls ->
  read_lines strip_ws (write_lines ls) = ls.
Proof. exact lines_rt_legacy_partial. Qed.

(* ------------------------------------------------------------------ dictionaries *)
(* json.dump / json.load are external (contract: parse (dump d) = Some d); the file is UTF-8 *)
Theorem C19_dict_rt : forall (D : Type) (dump : D -> text) (parse : text -> option D) d,
  parse (dump d) = Some d -> Forall scalar (dump d) ->
  load_dictionary_model D parse utf8_decode (save_dictionary_model D dump d) = Some d.
Proof. exact dict_rt. Qed.
(* regression: reading with the locale's codec (ASCII under LC_ALL=C) fails on non-ASCII text *)
Theorem C19_dict_legacy_refuted : exists s, Forall scalar s /\
  forall (D : Type) (dump : D -> text) (parse : text -> option D) d, dump d = s ->
  load_dictionary_model D parse ascii_decode (save_dictionary_model D dump d) = None.
Proof. exact dict_legacy_refuted. Qed.
Theorem C19_dict_legacy_partial : forall (D : Type) (dump : D -> text) (parse : text -> option D) d,
  parse (dump d) = Some d -> Forall (fun c => (0 <= c < 128)%Z) (dump d) ->
  load_dictionary_model D parse ascii_decode (save_dictionary_model D dump d) = Some d.
Proof. exact dict_legacy_partial. Qed.

(* ------------------------------------------------------------------ copy_file *)
(* a successful copy: destination identical to the source, source intact, nothing else touched *)
Theorem C19_copy_spec : forall src dst f f', copy_file_model src dst f = Copied f' ->
  lookup src f <> None /\ lookup dst f' = lookup src f /\ lookup src f' = lookup src f /\
  forall p, (p <> dst)%Z -> lookup p f' = lookup p f.
Proof. exact copy_spec. Qed.
(* and it does succeed whenever the source exists and the names differ *)
Theorem C19_copy_total : forall src dst f b, (src <> dst)%Z -> lookup src f = Some b ->
  exists f', copy_file_model src dst f = Copied f'.
Proof. exact copy_total. Qed.
(* regression: copyfile(source, source) never produces a destination *)
Theorem C19_copy_legacy_refuted : exists src dst f b, (src <> dst)%Z /\ lookup src f = Some b /\
  forall f', copy_file_legacy src dst f <> Copied f'.
Proof. exact copy_legacy_refuted. Qed.

(* ------------------------------------------------------------------ PLY *)
(* the vertex / face tables of write_PLY name exactly the triangles handed in: every M >= 0 *)
Theorem C19_ply_tables_rt : forall (A : Type) (ts : list (@triangle A)),
  ply_read (ply_vertices ts) (ply_faces (length ts)) = Some ts.
Proof. exact @ply_rt. Qed.
(* through the 'f4' columns: what comes back is the binary32 rounding of what went in ... *)
Theorem C19_ply_file_rt : forall (A : Type) (rnd : A -> A) ts,
  read_ply_model (write_ply_model rnd ts) = Some (map (map_triangle rnd) ts).
Proof. exact @ply_file_rt. Qed.
(* ... hence identical for binary32 coordinates, and stable from the first load on *)
Theorem C19_ply_file_rt_exact : forall (A : Type) (rnd : A -> A) ts, Forall (representable rnd) ts ->
  read_ply_model (write_ply_model rnd ts) = Some ts.
Proof. exact @ply_file_rt_exact. Qed.
Theorem C19_ply_file_idempotent : forall (A : Type) (rnd : A -> A) (ts : list (@triangle A)), (forall a, rnd (rnd a) = rnd a) ->
  forall ts', read_ply_model (write_ply_model rnd ts) = Some ts' ->
  read_ply_model (write_ply_model rnd ts') = Some ts'.
Proof. exact @ply_file_idempotent. Qed.

(* ------------------------------------------------------------------ the 8/16-bit quantiser *)
(* binary32 arithmetic over the reals (Flocq's rounding operator): for EVERY range (cmin, cmax > 0),
   every number of levels up to 65535 and every level n, a pixel within 2^-20 (relative) of
   n * cmax / L is stored as level n *)
Theorem C19_quant_any_range : forall cmin cmax (L n : Z) v,
  (0 < cmax)%R -> (cmin <= v)%R -> (1 <= L <= 65535)%Z -> (0 <= n <= L)%Z ->
  (Rabs (v * IZR L - IZR n * cmax) <= / 1048576 * (IZR n * cmax))%R ->
  quantR cmin cmax (IZR L) v = n.
Proof. exact quant_any_range. Qed.
(* the executable IEEE-754 model (the one run against numpy) computes exactly that function *)
Theorem C19_quant32_correct : forall (rint : bool) (cmin cmax lev x : f32) (L : Z),
  is_finite cmin = true -> is_finite cmax = true -> is_finite x = true ->
  (0 <= B2R cmin <= B2R cmax)%R -> (0 < B2R cmax)%R -> (1 <= L <= 65535)%Z -> lev = f32_of_Z L ->
  quant32 rint cmin cmax lev x =
  if rint then quantR (B2R cmin) (B2R cmax) (IZR L) (B2R x) else quantR_legacy (B2R cmin) (B2R cmax) (IZR L) (B2R x).
Proof. exact quant32_correct. Qed.
(* hence the property on IEEE-754 binary32 values *)
Theorem C19_quant32_any_range : forall (cmin cmax x : f32) (L n : Z),
  is_finite cmin = true -> is_finite cmax = true -> is_finite x = true ->
  (0 <= B2R cmin <= B2R cmax)%R -> (0 < B2R cmax)%R -> (B2R cmin <= B2R x)%R ->
  (1 <= L <= 65535)%Z -> (0 <= n <= L)%Z ->
  (Rabs (B2R x * IZR L - IZR n * B2R cmax) <= / 1048576 * (IZR n * B2R cmax))%R ->
  quant32 true cmin cmax (f32_of_Z L) x = n.
Proof. exact quant32_any_range. Qed.
(* all 256 and all 65 536 integer levels saved with cmax = 2^depth - 1 *)
Theorem C19_quant_level_rt : forall depth n, (depth = 8 \/ depth = 16)%Z -> (0 <= n <= levels depth)%Z ->
  quant_level true depth n = n.
Proof. exact quant_level_rt. Qed.
(* regression: the former cast (truncation) kept the integer levels (exhaustive computation) ... *)
Theorem C19_legacy_quant8_rt : forall n, (0 <= n <= 255)%Z -> quant_level false 8 n = n.
Proof. exact legacy_quant8_rt. Qed.
Theorem C19_legacy_quant16_rt : forall n, (0 <= n <= 65535)%Z -> quant_level false 16 n = n.
Proof. exact legacy_quant16_rt. Qed.
(* ... but not other ranges: level 17 of a (0, 100) image came out as 16 *)
Theorem C19_legacy_quant_refuted : exists cmax px n, (0 <= n <= 255)%Z /\
  quant_dy true 8 (0, 0)%Z cmax px = n /\ quant_dy false 8 (0, 0)%Z cmax px <> n.
Proof. exact legacy_quant_refuted. Qed.

(* ------------------------------------------------------------------ images *)
Theorem C19_bgr_swap_involutive : forall A (p : list A), swap02 (swap02 p) = p.
Proof. exact swap02_involutive. Qed.
(* cv2.imwrite / imread are external (contract: an accepted array comes back, (H,W,1) as (H,W)).
   Any quantiser that keeps the pixel values gives back the image: values, shape, channel order *)
Theorem C19_image_rt : forall (A B F : Type) (q : A -> B) (inj : B -> A) (imwrite : image B -> F) (imread : F -> option (image B)),
  (forall i, shape_ok i = true -> imread (imwrite i) = Some (canon i)) ->
  forall i : image A, shape_ok i = true -> (forall a, in_image a i -> inj (q a) = a) ->
  load_image_model A B F inj imread (save_image_model A B F q imwrite i) = Some (canon i).
Proof. exact image_rt. Qed.
(* 8- and 16-bit images of integer levels, 1 / 3 / 4 channels, every H, W >= 1 *)
Theorem C19_image_levels_rt : forall (F : Type) (imwrite : image Z -> F) (imread : F -> option (image Z)),
  (forall i, shape_ok i = true -> imread (imwrite i) = Some (canon i)) ->
  forall depth (i : image Z), (depth = 8 \/ depth = 16)%Z -> shape_ok i = true ->
  (forall a, in_image a i -> (0 <= a <= levels depth)%Z) ->
  load_image_model Z Z F (fun z => z) imread (save_image_model Z Z F (quant_level true depth) imwrite i) = Some (canon i).
Proof. exact image_levels_rt. Qed.

(* ------------------------------------------------------------------ PyTorch API *)
Theorem C19_chw_hwc_inverse : forall A C H W (x : list (list (list A))), cube C H W x ->
  hwc_to_chw C (chw_to_hwc H W x) = x.
Proof. exact chw_hwc_inverse. Qed.
Theorem C19_hwc_chw_inverse : forall A C H W (y : list (list (list A))), cube H W C y ->
  chw_to_hwc H W (hwc_to_chw C y) = y.
Proof. exact hwc_chw_inverse. Qed.
(* the saver hands tools.save_image the equivalent NumPy array, for every size for which the two
   layouts can be told apart *)
Theorem C19_torch_equals_numpy_chw : forall A C H W (x : list (list (list A))), cube C H W x -> (1 <= C)%nat -> (1 <= H)%nat ->
  is_channel_count (Z.of_nat C) = true -> is_channel_count (Z.of_nat W) = false ->
  torch_to_numpy channels_first x = chw_to_hwc H W x.
Proof. exact torch_equals_numpy_chw. Qed.
Theorem C19_torch_equals_numpy_hwc : forall A H W C (y : list (list (list A))), cube H W C y -> (1 <= H)%nat -> (1 <= W)%nat ->
  is_channel_count (Z.of_nat C) = true -> is_channel_count (Z.of_nat H) = false ->
  torch_to_numpy channels_first y = y.
Proof. exact torch_equals_numpy_hwc. Qed.
(* where both readings are possible the former rule is kept *)
Theorem C19_channels_first_ambiguous : forall s0 s1 s2, is_channel_count s0 = is_channel_count s2 ->
  channels_first s0 s1 s2 = channels_first_legacy s0 s1 s2.
Proof. exact channels_first_same_as_legacy_when_ambiguous. Qed.
(* regression: the smallest-axis rule misread 3 x 2 x 5 (CHW) and 2 x 5 x 3 (HWC) *)
Theorem C19_channels_first_legacy_refuted : exists c h w,
  is_channel_count c = true /\ is_channel_count w = false /\ (1 <= h)%Z /\ channels_first_legacy c h w = false.
Proof. exact channels_first_legacy_refuted. Qed.
Theorem C19_channels_last_legacy_refuted : exists h w c,
  is_channel_count c = true /\ is_channel_count h = false /\ (1 <= w)%Z /\ channels_first_legacy h w c = true.
Proof. exact channels_last_legacy_refuted. Qed.
Theorem C19_channels_first_legacy_partial : forall c h w, (c <= h)%Z -> (c <= w)%Z -> channels_first_legacy c h w = true.
Proof. exact channels_first_legacy_partial. Qed.

(* ------------------------------------------------------------------ load_image(torch_style) per rank *)
(* a monochrome file (two axes) comes back (H, W) whatever torch_style says: values and shape *)
Theorem C19_torch_style_gray : forall A ts (m : list (list A)),
  torch_style_view ts (Gray m) = Gray m /\ image_shape (torch_style_view ts (Gray m)) = image_shape (Gray m).
Proof. exact (fun A ts m => conj (torch_style_gray A ts m) (torch_style_shape_gray A ts m)). Qed.
Theorem C19_torch_style_off : forall A (i : image A), torch_style_view false i = i.
Proof. exact torch_style_off. Qed.
(* (H, W, C) comes back as (C, H, W), and moving the axis back gives the image *)
Theorem C19_torch_style_color : forall A H W C (m : list (list (list A))), cube H W C m -> (1 <= H)%nat -> (1 <= W)%nat ->
  torch_style_view true (Color m) = Color (hwc_to_chw C m) /\ chw_to_hwc H W (hwc_to_chw C m) = m.
Proof. exact torch_style_color. Qed.
Theorem C19_torch_style_color_shape : forall A H W C (m : list (list (list A))), cube H W C m -> (1 <= H)%nat -> (1 <= W)%nat -> (1 <= C)%nat ->
  image_shape (torch_style_view true (Color m)) = [C; H; W].
Proof. exact torch_style_shape_color. Qed.
(* save, then load with either torch_style (normalizeby is the value map inj): the view of what was saved *)
Theorem C19_image_rt_full : forall (A B F : Type) (q : A -> B) (inj : B -> A) (imwrite : image B -> F) (imread : F -> option (image B)),
  (forall i, shape_ok i = true -> imread (imwrite i) = Some (canon i)) ->
  forall ts (i : image A), shape_ok i = true -> (forall a, in_image a i -> inj (q a) = a) ->
  load_image_full inj imread ts (save_image_model A B F q imwrite i) = Some (torch_style_view ts (canon i)).
Proof. exact image_rt_full. Qed.

(* ------------------------------------------------------------------ non-vacuity *)
(* concrete instances meet the hypotheses and are computed through: lines with trailing blanks and
   non-ASCII text down to bytes; a 1 x 2 RGB 16-bit image through a codec meeting the contract; a
   level of a (0, 100) range; a copy; two triangles; a 3 x 1 x 2 CHW tensor *)
Example C19_instance :
  read_text_file_model strip_nl (write_text_file_model [[97; 32]; []; [233; 26085; 128512; 9]]) = Some [[97; 32]; []; [233; 26085; 128512; 9]]
  /\ load_image_model Z Z (image Z) (fun z => z) Some
       (save_image_model Z Z (image Z) (quant_level true 16) canon (Color [[[0; 32768; 65535]; [1; 2; 3]]]))%Z
     = Some (Color [[[0; 32768; 65535]; [1; 2; 3]]])%Z
  /\ quant_dy true 8 (0, 0)%Z (100, 0)%Z (7505999378950827, -50)%Z = 17%Z
  /\ copy_file_model 1 2 [(1, [104; 105])]%Z = Copied [(1, [104; 105]); (2, [104; 105])]%Z
  /\ read_ply_model (write_ply_model (fun z : Z => z) [((1, 2, 3), (4, 5, 6), (7, 8, 9)); ((1, 2, 3), (0, 0, 0), (7, 8, 9))]%Z)
     = Some [((1, 2, 3), (4, 5, 6), (7, 8, 9)); ((1, 2, 3), (0, 0, 0), (7, 8, 9))]%Z
  /\ torch_to_numpy channels_first [[[1; 2]]; [[3; 4]]; [[5; 6]]]%Z = [[[1; 3; 5]; [2; 4; 6]]]%Z
  /\ load_image_full (fun z : Z => z) Some true (save_image_model Z Z (image Z) (quant_level true 8) canon (Color [[[1]; [2]; [3]]; [[4]; [5]; [6]]]))%Z
     = Some (Gray [[1; 2; 3]; [4; 5; 6]])%Z
  /\ load_image_full (fun z : Z => z) Some true (save_image_model Z Z (image Z) (quant_level true 8) canon (Color [[[1; 2; 3]; [4; 5; 6]]]))%Z
     = Some (Color [[[1; 4]]; [[2; 5]]; [[3; 6]]])%Z.
Proof. vm_compute. repeat split; reflexivity. Qed.
