(* C18 — all proofs. *)
From Coq Require Import ZArith List Bool Reals QArith Qround Lia Lra Lqa Psatz.
From OdakV Require Import Base.RealAux C18.Model.
Import ListNotations.

(* ================================================================== Pad *)
Module PadL.
Import Pad.
Open Scope Z_scope.

Lemma pow_pos n : 0 <= n -> 0 < 2 ^ n.
Proof. intros; apply Z.pow_pos_nonneg; lia. Qed.

Lemma ceil_div_spec a d : 0 < d -> a <= ceil_div a d * d < a + d.
Proof.
  intros Hd. unfold ceil_div.
  pose proof (Z.div_mod (- a) d ltac:(lia)). pose proof (Z.mod_pos_bound (- a) d Hd). nia.
Qed.

Lemma ceil_div_exact a d : 0 < d -> a mod d = 0 -> ceil_div a d * d = a.
Proof.
  intros Hd Hm. unfold ceil_div.
  apply Z.mod_divide in Hm; [|lia]. destruct Hm as [k ->].
  replace (- (k * d)) with ((- k) * d) by ring. rewrite Z.div_mul by lia. ring.
Qed.

(* the padded side is the least multiple of 2^n that is >= h *)
Lemma pad_multiple h n : 0 <= n ->
  (h + pad_amount h n) mod 2 ^ n = 0 /\ 0 <= pad_amount h n < 2 ^ n /\
  (forall m, m mod 2 ^ n = 0 -> h <= m -> h + pad_amount h n <= m).
Proof.
  intros Hn. pose proof (pow_pos n Hn) as Hp. unfold pad_amount, required.
  pose proof (ceil_div_spec h (2 ^ n) Hp) as Hs.
  replace (h + (ceil_div h (2 ^ n) * 2 ^ n - h)) with (ceil_div h (2 ^ n) * 2 ^ n) by ring.
  split; [apply Z.mod_mul; lia|]. split; [lia|].
  intros m Hm Hle. apply Z.mod_divide in Hm; [|lia]. destruct Hm as [k ->].
  assert (ceil_div h (2 ^ n) <= k) by nia. nia.
Qed.

Lemma pad_amount_zero_iff h n : 0 <= n -> (pad_amount h n = 0 <-> h mod 2 ^ n = 0).
Proof.
  intros Hn. pose proof (pow_pos n Hn) as Hp. unfold pad_amount, required. split.
  - intros H. assert (E : h = ceil_div h (2 ^ n) * 2 ^ n) by lia. rewrite E. apply Z.mod_mul. lia.
  - intros H. rewrite (ceil_div_exact _ _ Hp H). ring.
Qed.

Lemma needs_pad_false_iff h w n : 0 <= n ->
  (needs_pad h w n = false <-> h mod 2 ^ n = 0 /\ w mod 2 ^ n = 0).
Proof.
  intros Hn. unfold needs_pad. rewrite orb_false_iff, !Z.ltb_ge.
  rewrite <- !(pad_amount_zero_iff _ _ Hn). unfold pad_amount.
  pose proof (pad_multiple h n Hn) as [_ [Hh _]]. pose proof (pad_multiple w n Hn) as [_ [Hw _]].
  unfold pad_amount in *. lia.
Qed.

(* ReflectionPad2d accepts the amount iff it is smaller than the side: 2^n < 2 h *)
Lemma pad_amount_lt_iff h n : 0 <= n -> 1 <= h -> (pad_amount h n < h <-> 2 ^ n < 2 * h).
Proof.
  intros Hn Hh. pose proof (pow_pos n Hn) as Hp.
  pose proof (pad_multiple h n Hn) as [Hm [Hr Hleast]]. split.
  - intros Hlt. destruct (Z_lt_le_dec (2 ^ n) (2 * h)) as [|Hge]; [assumption|exfalso].
    (* h <= 2^(n-1): the required side is 2^n itself *)
    assert (Hreq : h + pad_amount h n = 2 ^ n).
    { apply Z.mod_divide in Hm; [|lia]. destruct Hm as [k Hk].
      assert (k = 1) by nia. subst k. lia. }
    lia.
  - intros Hlt. destruct (Z_le_gt_dec h (2 ^ n)) as [Hle|Hgt].
    + assert (h + pad_amount h n <= 2 ^ n) by (apply Hleast; [apply Z.mod_same; lia|assumption]). lia.
    + lia.
Qed.

Lemma refl_id n i : 0 <= i < n -> refl n i = i.
Proof. intros. unfold refl. destruct (Z.ltb_spec i 0); [lia|]. destruct (Z.ltb_spec i n); lia. Qed.
Lemma refl_range n i : 1 <= n -> - n < i < 2 * n - 1 -> 0 <= refl n i < n.
Proof. intros. unfold refl. destruct (Z.ltb_spec i 0); [lia|]. destruct (Z.ltb_spec i n); lia. Qed.
Lemma edge_id n i : 0 <= i < n -> edge n i = i.
Proof. intros. unfold edge. lia. Qed.
Lemma edge_range n i : 1 <= n -> 0 <= edge n i < n.
Proof. intros. unfold edge. lia. Qed.
Lemma src_index_id m n i : 0 <= i < n -> src_index m n i = i.
Proof. intros. destruct m; cbn [src_index]; [apply refl_id|apply edge_id]; assumption. Qed.

Lemma reflect_ok_iff h w n : 0 <= n -> 1 <= h -> 1 <= w -> (reflect_ok h w n = true <-> 2 ^ n < 2 * h /\ 2 ^ n < 2 * w).
Proof.
  intros Hn Hh Hw. unfold reflect_ok. rewrite andb_true_iff, !Z.ltb_lt.
  rewrite (pad_amount_lt_iff h n Hn Hh), (pad_amount_lt_iff w n Hn Hw). tauto.
Qed.

(* ---------- the clauses of the property, for ANY content of the added border *)
Lemma generic_multiple {V} (border : Z -> Z -> V) h w n img : 0 <= n ->
  let '((H, W), _) := pad_generic border h w n img in
  H mod 2 ^ n = 0 /\ W mod 2 ^ n = 0 /\ h <= H < h + 2 ^ n /\ w <= W < w + 2 ^ n.
Proof.
  intros Hn. pose proof (pad_multiple h n Hn) as [Mh [Rh _]]. pose proof (pad_multiple w n Hn) as [Mw [Rw _]].
  unfold pad_generic. destruct (needs_pad h w n) eqn:Enp.
  - repeat split; try assumption; lia.
  - apply (needs_pad_false_iff h w n Hn) in Enp. pose proof (pow_pos n Hn). repeat split; try tauto; lia.
Qed.
Lemma generic_keeps_origin {V} (border : Z -> Z -> V) h w n img :
  forall i j, 0 <= i < h -> 0 <= j < w -> snd (pad_generic border h w n img) i j = img i j.
Proof.
  intros i j Hi Hj. unfold pad_generic. destruct (needs_pad h w n); cbn [snd]; [|reflexivity].
  destruct (Z.ltb_spec i h); [|lia]. destruct (Z.ltb_spec j w); [|lia]. reflexivity.
Qed.
Lemma generic_noop {V} (border : Z -> Z -> V) h w n img : 0 <= n -> h mod 2 ^ n = 0 -> w mod 2 ^ n = 0 ->
  pad_generic border h w n img = ((h, w), img).
Proof.
  intros Hn Eh Ew. unfold pad_generic. replace (needs_pad h w n) with false; [reflexivity|].
  symmetry. apply needs_pad_false_iff; auto.
Qed.

(* ---------- the code (reflect, or replicate where reflection is impossible) is such a padding *)
Lemma code_is_generic {V} h w n (img : Z -> Z -> V) :
  fst (pad_image_for_pyramid h w n img) = fst (pad_generic (snd (pad_image_for_pyramid h w n img)) h w n img) /\
  forall i j, 0 <= i -> 0 <= j ->
    snd (pad_image_for_pyramid h w n img) i j = snd (pad_generic (snd (pad_image_for_pyramid h w n img)) h w n img) i j.
Proof.
  unfold pad_image_for_pyramid, pad_generic. destruct (needs_pad h w n); cbn [fst snd]; split; try reflexivity.
  intros i j Hi Hj. destruct (Z.ltb_spec i h); destruct (Z.ltb_spec j w); cbn [andb]; try reflexivity.
  rewrite !src_index_id by lia. reflexivity.
Qed.

Lemma pad_result_multiple {V} h w n (img : Z -> Z -> V) : 0 <= n ->
  let '((H, W), _) := pad_image_for_pyramid h w n img in
  H mod 2 ^ n = 0 /\ W mod 2 ^ n = 0 /\ h <= H < h + 2 ^ n /\ w <= W < w + 2 ^ n.
Proof.
  intros Hn. pose proof (pad_multiple h n Hn) as [Mh [Rh _]]. pose proof (pad_multiple w n Hn) as [Mw [Rw _]].
  unfold pad_image_for_pyramid. destruct (needs_pad h w n) eqn:Enp.
  - repeat split; try assumption; lia.
  - apply (needs_pad_false_iff h w n Hn) in Enp. pose proof (pow_pos n Hn). repeat split; try tauto; lia.
Qed.

Lemma pad_keeps_origin {V} h w n (img : Z -> Z -> V) :
  forall i j, 0 <= i < h -> 0 <= j < w -> snd (pad_image_for_pyramid h w n img) i j = img i j.
Proof.
  intros i j Hi Hj. unfold pad_image_for_pyramid. destruct (needs_pad h w n); cbn [snd]; [|reflexivity].
  rewrite !src_index_id by lia. reflexivity.
Qed.

Lemma pad_noop {V} h w n (img : Z -> Z -> V) : 0 <= n -> h mod 2 ^ n = 0 -> w mod 2 ^ n = 0 ->
  pad_image_for_pyramid h w n img = ((h, w), img).
Proof.
  intros Hn Eh Ew. unfold pad_image_for_pyramid. replace (needs_pad h w n) with false; [reflexivity|].
  symmetry. apply needs_pad_false_iff; auto.
Qed.

(* every output pixel of the code's padding is a pixel of the input, for EVERY image size *)
Lemma pad_values_from_input {V} h w n (img : Z -> Z -> V) : 0 <= n -> 1 <= h -> 1 <= w ->
  let '((H, W), f) := pad_image_for_pyramid h w n img in
  forall i j, 0 <= i < H -> 0 <= j < W -> exists i' j', 0 <= i' < h /\ 0 <= j' < w /\ f i j = img i' j'.
Proof.
  intros Hn Hh Hw. pose proof (pad_multiple h n Hn) as [_ [Rh _]]. pose proof (pad_multiple w n Hn) as [_ [Rw _]].
  unfold pad_image_for_pyramid. destruct (needs_pad h w n).
  - cbv zeta. intros i j Hi Hj. exists (src_index (reflect_ok h w n) h i), (src_index (reflect_ok h w n) w j).
    destruct (reflect_ok h w n) eqn:Er; cbn [src_index].
    + unfold reflect_ok in Er. apply andb_true_iff in Er. rewrite !Z.ltb_lt in Er.
      split; [apply refl_range; lia|]. split; [apply refl_range; lia|]. reflexivity.
    + split; [apply edge_range; lia|]. split; [apply edge_range; lia|]. reflexivity.
  - intros i j Hi Hj. exists i, j. auto.
Qed.

(* ---------- regression: reflection only.  It returned an image exactly for sides above 2^(n-1), and the
   repaired function agrees with it there *)
Lemma reflect_only_defined_iff {V} h w n (img : Z -> Z -> V) : 0 <= n -> 1 <= h -> 1 <= w ->
  (pad_image_for_pyramid_reflect_only h w n img <> None <-> 2 ^ n < 2 * h /\ 2 ^ n < 2 * w).
Proof.
  intros Hn Hh Hw. pose proof (pad_multiple h n Hn) as [_ [Rh _]]. pose proof (pad_multiple w n Hn) as [_ [Rw _]].
  unfold pad_image_for_pyramid_reflect_only, pad_with. destruct (needs_pad h w n) eqn:Enp.
  - unfold reflection_pad2d, pad_tuple.
    destruct ((0 <=? 0) && (0 <=? pad_amount w n) && (0 <=? 0) && (0 <=? pad_amount h n) && (0 <? w)
              && (pad_amount w n <? w) && (0 <? h) && (pad_amount h n <? h)) eqn:E.
    + rewrite !andb_true_iff, !Z.ltb_lt in E. split; [intros _|intros _; discriminate].
      split; [apply (pad_amount_lt_iff h n Hn Hh)|apply (pad_amount_lt_iff w n Hn Hw)]; tauto.
    + split; [congruence|]. intros [Lh Lw]. exfalso.
      apply (pad_amount_lt_iff h n Hn Hh) in Lh. apply (pad_amount_lt_iff w n Hn Hw) in Lw.
      assert (T : (0 <=? 0) && (0 <=? pad_amount w n) && (0 <=? 0) && (0 <=? pad_amount h n) && (0 <? w)
              && (pad_amount w n <? w) && (0 <? h) && (pad_amount h n <? h) = true).
      { rewrite !andb_true_iff, !Z.leb_le, !Z.ltb_lt. lia. }
      congruence.
  - split; [intros _|intros _; discriminate].
    apply (needs_pad_false_iff h w n Hn) in Enp. destruct Enp as [Eh Ew]. pose proof (pow_pos n Hn).
    apply Z.mod_divide in Eh; [|lia]. apply Z.mod_divide in Ew; [|lia].
    destruct Eh as [a ->]. destruct Ew as [b ->].
    set (P := 2 ^ n) in *. assert (1 <= a) by nia. assert (1 <= b) by nia. split; nia.
Qed.

Lemma reflect_only_agrees {V} h w n (img : Z -> Z -> V) S f :
  pad_image_for_pyramid_reflect_only h w n img = Some (S, f) ->
  fst (pad_image_for_pyramid h w n img) = S /\ forall i j, snd (pad_image_for_pyramid h w n img) i j = f i j.
Proof.
  unfold pad_image_for_pyramid_reflect_only, pad_with, pad_image_for_pyramid. destruct (needs_pad h w n).
  - unfold reflection_pad2d, pad_tuple.
    destruct ((0 <=? 0) && (0 <=? pad_amount w n) && (0 <=? 0) && (0 <=? pad_amount h n) && (0 <? w)
              && (pad_amount w n <? w) && (0 <? h) && (pad_amount h n <? h)) eqn:E; [|discriminate].
    rewrite !andb_true_iff, !Z.ltb_lt in E. intros Ex. injection Ex as ES Ef. subst S f. cbn [fst snd]. split.
    + f_equal; lia.
    + intros i j. replace (reflect_ok h w n) with true.
      2:{ symmetry. unfold reflect_ok. rewrite andb_true_iff, !Z.ltb_lt. tauto. }
      cbn [src_index]. rewrite !Z.sub_0_r. reflexivity.
  - intros Ex. injection Ex as ES Ef. subst S f. split; reflexivity.
Qed.

Lemma reflect_only_raises_witness :
  pad_image_for_pyramid_reflect_only 1 1 1 (fun _ _ => 7) = None /\
  fst (pad_image_for_pyramid 1 1 1 (fun _ _ => 7)) = (2, 2) /\ snd (pad_image_for_pyramid 1 1 1 (fun _ _ => 7)) 1 1 = 7.
Proof. vm_compute. auto. Qed.

(* the former tuple (0, 0, dh, dw): a 5 x 7 image, 2 levels -> 9 x 7, content moved down by 3 *)
Lemma legacy_tuple_witness :
  match pad_image_for_pyramid_legacy 5 7 2 (fun i j => 10 * i + j) with
  | Some ((H, W), f) => H = 9 /\ W = 7 /\ W mod 2 ^ 2 <> 0 /\ H mod 2 ^ 2 <> 0 /\ f 0 0 = 30 /\ f 3 0 = 0
  | None => False
  end.
Proof. vm_compute. repeat split; discriminate. Qed.

Lemma legacy_width_never_padded {V} h w n (img : Z -> Z -> V) H W f :
  pad_image_for_pyramid_legacy h w n img = Some ((H, W), f) -> W = w.
Proof.
  unfold pad_image_for_pyramid_legacy, pad_with. destruct (needs_pad h w n).
  - unfold reflection_pad2d, pad_tuple_legacy.
    match goal with |- context [if ?c then _ else _] => destruct c end; [|discriminate].
    intros E. injection E as _ EW _. lia.
  - intros E. injection E as _ EW _. lia.
Qed.
End PadL.

(* ================================================================== Pool *)
Module PoolL.
Import Pool.
Open Scope R_scope.

Lemma clamp1_range x : -1 <= clamp1 x <= 1.
Proof. unfold clamp1, Rmin, Rmax. repeat destruct (Rle_dec _ _); lra. Qed.
Lemma clamp1_id x : -1 <= x <= 1 -> clamp1 x = x.
Proof. intros. unfold clamp1, Rmin, Rmax. repeat destruct (Rle_dec _ _); lra. Qed.

Lemma norm3_pos x y d : 0 < d -> 0 < norm3 x y d.
Proof. intros. unfold norm3. apply sqrt_lt_R0. nra. Qed.
Lemma norm3_sq x y d : norm3 x y d * norm3 x y d = x * x + y * y + d * d.
Proof. unfold norm3. apply sqrt_sqrt. nra. Qed.

(* the gaze point itself has eccentricity 0 *)
Lemma cos_ecc_self px py d : 0 < d -> cos_ecc px py px py d = 1.
Proof.
  intros Hd. unfold cos_ecc. pose proof (norm3_pos px py d Hd) as Hn. pose proof (norm3_sq px py d) as Hs.
  set (N := norm3 px py d) in *.
  replace (px / N * (px / N) + py / N * (py / N) + d / N * (d / N)) with ((px * px + py * py + d * d) / (N * N))
    by (field; lra).
  rewrite Hs. field. nra.
Qed.
Lemma ecc_self px py d : 0 < d -> ecc px py px py d = 0.
Proof. intros. unfold ecc. rewrite cos_ecc_self by assumption. rewrite clamp1_id by lra. apply acos_1. Qed.
Lemma ecc_bound px py gx gy d : 0 <= ecc px py gx gy d <= PI.
Proof. apply acos_bound. Qed.
Lemma ecc_arg_in_domain px py gx gy d : -1 <= clamp1 (cos_ecc px py gx gy d) <= 1.
Proof. apply clamp1_range. Qed.

Lemma ecc_well_defined px py gx gy d :
  -1 <= clamp1 (cos_ecc px py gx gy d) <= 1 /\ 0 <= ecc px py gx gy d <= PI.
Proof. split; [apply ecc_arg_in_domain|apply ecc_bound]. Qed.

(* a gaze given as the normalised coordinate of pixel k is that pixel's position *)
Lemma gaze_on_grid n k ext : n - 1 <> 0 -> gaze_coord (k / (n - 1)) ext = grid n k * ext.
Proof. intros. unfold gaze_coord, grid. field. assumption. Qed.

Lemma pool_rad_zero m alpha : pool_rad m alpha 0 = 0.
Proof. destruct m; simpl; ring. Qed.

Lemma pool_px_nonneg m alpha rw rd W e c D : 0 < rw -> 0 <= W -> 0 <= pool_px m alpha rw rd W e c D.
Proof.
  intros Hrw HW. unfold pool_px. apply Rmult_le_pos; [|assumption].
  apply Rmult_le_pos; [apply sqrt_pos|]. left. apply Rinv_0_lt_compat. assumption.
Qed.

Lemma pool_px_zero m alpha rw rd W c D : pool_px m alpha rw rd W 0 c D = 0.
Proof.
  unfold pool_px. rewrite pool_rad_zero.
  replace (c + 0 * (1 / 2)) with c by ring. replace (c - 0 * (1 / 2)) with c by ring.
  replace (PI * ((tan c - tan c) * rd) * (2 * D * tan (0 * (1 / 2))) * (1 / 4)) with 0 by ring.
  rewrite Rabs_R0, sqrt_0. unfold Rdiv. ring.
Qed.

(* the pooling size is smallest (zero) at the gaze point *)
Lemma pool_px_min_at_gaze m alpha rw rd W px py c D e' c' D' : 0 < rd -> 0 < rw -> 0 <= W ->
  pool_px m alpha rw rd W (ecc px py px py rd) c D = 0 /\
  pool_px m alpha rw rd W (ecc px py px py rd) c D <= pool_px m alpha rw rd W e' c' D'.
Proof.
  intros. rewrite ecc_self by assumption. rewrite pool_px_zero. split; [reflexivity|].
  apply pool_px_nonneg; assumption.
Qed.

Lemma ln2_pos : 0 < ln 2.
Proof. pose proof ln_lt_2. lra. Qed.

Lemma lod_nonneg p : 0 <= lod_of p.
Proof.
  unfold lod_of. cbv zeta. destruct (Rltb (log2 (1 / 1000000 + p)) 0) eqn:E; [lra|].
  apply Rltb_false in E. assumption.
Qed.

Lemma lod_arg_pos p : 0 <= p -> 0 < 1 / 1000000 + p.
Proof. intros; lra. Qed.

Lemma log2_neg x : 0 < x -> x < 1 -> log2 x < 0.
Proof.
  intros H0 H1. unfold log2. pose proof ln2_pos. pose proof (ln_increasing x 1 H0 H1) as Hl. rewrite ln_1 in Hl.
  assert (Hi : 0 < / ln 2) by (apply Rinv_0_lt_compat; assumption).
  unfold Rdiv. nra.
Qed.

Lemma log2_le x y : 0 < x -> x <= y -> log2 x <= log2 y.
Proof.
  intros H0 Hle. destruct Hle as [Hlt|Heq]; [|subst; lra]. unfold log2, Rdiv. pose proof ln2_pos.
  apply Rmult_le_compat_r; [left; apply Rinv_0_lt_compat; assumption|]. left. apply ln_increasing; assumption.
Qed.

(* LOD 0 wherever the pooling size is below one pixel; in particular at the gaze point *)
Lemma lod_zero_small p : 0 <= p -> p < 1 - 1 / 1000000 -> lod_of p = 0.
Proof.
  intros H0 H1. unfold lod_of. cbv zeta.
  assert (log2 (1 / 1000000 + p) < 0) as Hl by (apply log2_neg; lra).
  apply Rltb_true in Hl. rewrite Hl. reflexivity.
Qed.
Lemma lod_zero_at_zero : lod_of 0 = 0.
Proof. apply lod_zero_small; lra. Qed.

Lemma lod_mono p q : 0 <= p -> p <= q -> lod_of p <= lod_of q.
Proof.
  intros H0 Hle. pose proof (log2_le (1 / 1000000 + p) (1 / 1000000 + q) ltac:(lra) ltac:(lra)) as Hm.
  unfold lod_of. cbv zeta.
  destruct (Rltb (log2 (1 / 1000000 + p)) 0) eqn:Ep; destruct (Rltb (log2 (1 / 1000000 + q)) 0) eqn:Eq;
    try apply Rltb_true in Ep; try apply Rltb_false in Ep; try apply Rltb_true in Eq; try apply Rltb_false in Eq; lra.
Qed.

(* ---- equirectangular *)
Lemma equi_cos_self y p : equi_cos y p y p = 1.
Proof.
  unfold equi_cos, dir_x, dir_y, dir_z.
  pose proof (sin2_cos2 y) as Hy. pose proof (sin2_cos2 p) as Hp. unfold Rsqr in *. nra.
Qed.
Lemma equi_ecc_self y p : equi_ecc y p y p = 0.
Proof. unfold equi_ecc. rewrite equi_cos_self, clamp1_id by lra. apply acos_1. Qed.
Lemma equi_ecc_bound gy gp y p : 0 <= equi_ecc gy gp y p <= PI.
Proof. apply acos_bound. Qed.
Lemma equi_well_defined gy gp y p :
  -1 <= clamp1 (equi_cos gy gp y p) <= 1 /\ 0 <= equi_ecc gy gp y p <= PI.
Proof. split; [apply clamp1_range|apply equi_ecc_bound]. Qed.
Lemma equi_px_nonneg m alpha H W e : 0 <= equi_px m alpha H W e.
Proof. unfold equi_px. apply sqrt_pos. Qed.
Lemma equi_px_zero m alpha H W : equi_px m alpha H W 0 = 0.
Proof.
  unfold equi_px. rewrite pool_rad_zero.
  replace (PI * (0 * (W / (2 * PI))) * (0 * (H / PI)) * (1 / 4)) with 0 by (unfold Rdiv; ring).
  rewrite Rabs_R0. apply sqrt_0.
Qed.
Lemma equi_px_min_at_gaze m alpha H W y p e' :
  equi_px m alpha H W (equi_ecc y p y p) = 0 /\ equi_px m alpha H W (equi_ecc y p y p) <= equi_px m alpha H W e'.
Proof. rewrite equi_ecc_self, equi_px_zero. split; [reflexivity|apply equi_px_nonneg]. Qed.
(* the clamp only acts outside [-1,1]; on exact reals the repaired and the former formula agree *)
Lemma equi_clamp_harmless gy gp y p : -1 <= equi_cos gy gp y p <= 1 -> equi_ecc gy gp y p = equi_ecc_legacy gy gp y p.
Proof. intros. unfold equi_ecc, equi_ecc_legacy. rewrite clamp1_id by assumption. reflexivity. Qed.
End PoolL.

(* ================================================================== Blur: mip chain sizes *)
Module SizesL.
Import Blur.
Open Scope Z_scope.

Definition smax (s : Z * Z) : Z := Z.max (fst s) (snd s).

Lemma next_size_max s : 1 <= fst s -> 1 <= snd s -> 2 <= smax s ->
  1 <= fst (next_size s) /\ 1 <= snd (next_size s) /\ smax (next_size s) = smax s / 2.
Proof.
  destruct s as [h w]. unfold smax, next_size. cbn [fst snd]. intros.
  pose proof (Z.div_mod h 2 ltac:(lia)). pose proof (Z.mod_pos_bound h 2 ltac:(lia)).
  pose proof (Z.div_mod w 2 ltac:(lia)). pose proof (Z.mod_pos_bound w 2 ltac:(lia)).
  pose proof (Z.div_mod (Z.max h w) 2 ltac:(lia)). pose proof (Z.mod_pos_bound (Z.max h w) 2 ltac:(lia)).
  lia.
Qed.

Lemma chain_spec : forall fuel s k, 1 <= fst s -> 1 <= snd s ->
  2 ^ Z.of_nat k <= smax s < 2 ^ (Z.of_nat k + 1) -> (k <= fuel)%nat ->
  length (chain fuel s) = S k /\ last (chain fuel s) (0, 0) = (1, 1) /\
  Forall (fun t => 1 <= fst t /\ 1 <= snd t) (chain fuel s).
Proof.
  induction fuel as [|f IH]; intros s k H1 H2 Hk Hf.
  - assert (k = 0%nat) by lia. subst k. cbn in Hk. cbn [chain].
    assert (s = (1, 1)) by (destruct s; unfold smax in Hk; cbn [fst snd] in *; f_equal; lia). subst s.
    split; [reflexivity|split; [reflexivity|]]. constructor; [cbn; lia|constructor].
  - cbn [chain]. destruct (is_unit s) eqn:Eu.
    + unfold is_unit in Eu. apply andb_true_iff in Eu. rewrite !Z.leb_le in Eu.
      assert (s = (1, 1)) by (destruct s; cbn [fst snd] in *; f_equal; lia). subst s.
      assert (k = 0%nat).
      { destruct k; [reflexivity|exfalso]. unfold smax in Hk. cbn [fst snd] in Hk.
        rewrite Nat2Z.inj_succ, Z.pow_succ_r in Hk by lia.
        pose proof (Z.pow_pos_nonneg 2 (Z.of_nat k) ltac:(lia) ltac:(lia)). lia. }
      subst k. split; [reflexivity|split; [reflexivity|]]. constructor; [cbn; lia|constructor].
    + assert (2 <= smax s).
      { unfold is_unit in Eu. apply andb_false_iff in Eu. unfold smax. rewrite !Z.leb_gt in Eu. lia. }
      destruct k as [|k'].
      { cbn in Hk. lia. }
      destruct (next_size_max s H1 H2 H) as [N1 [N2 N3]].
      assert (Hk' : 2 ^ Z.of_nat k' <= smax (next_size s) < 2 ^ (Z.of_nat k' + 1)).
      { rewrite N3. rewrite Nat2Z.inj_succ in Hk.
        replace (Z.succ (Z.of_nat k') + 1) with (Z.succ (Z.of_nat k' + 1)) in Hk by lia.
        rewrite !Z.pow_succ_r in Hk by lia.
        split; [apply Z.div_le_lower_bound; lia|apply Z.div_lt_upper_bound; lia]. }
      destruct (IH (next_size s) k' N1 N2 Hk' ltac:(lia)) as [L1 [L2 L3]].
      split; [cbn [length]; rewrite L1; reflexivity|]. split.
      * destruct (chain f (next_size s)) eqn:Ec; [discriminate|]. rewrite <- L2. reflexivity.
      * constructor; [split; assumption|assumption].
Qed.

(* the chain of an h x w image has floor(log2(max h w)) + 1 levels, all sides >= 1, and ends in 1 x 1,
   which broadcasts against the full image: the blur is defined for every image shape *)
Lemma mip_sizes_spec h w : 1 <= h -> 1 <= w ->
  n_levels h w = S (Z.to_nat (Z.log2 (Z.max h w))) /\
  hd (0, 0) (mip_sizes h w) = (h, w) /\ last (mip_sizes h w) (0, 0) = (1, 1) /\
  Forall (fun t => 1 <= fst t /\ 1 <= snd t) (mip_sizes h w) /\
  broadcastable (last (mip_sizes h w) (0, 0)) (h, w) = true.
Proof.
  intros Hh Hw. unfold n_levels, mip_sizes.
  pose proof (Z.log2_spec (Z.max h w) ltac:(lia)) as Hs. pose proof (Z.log2_nonneg (Z.max h w)) as Hn.
  destruct (chain_spec (Z.to_nat (Z.log2 (Z.max h w))) (h, w) (Z.to_nat (Z.log2 (Z.max h w))) Hh Hw) as [L1 [L2 L3]].
  { unfold smax. cbn [fst snd]. rewrite Z2Nat.id by assumption. replace (Z.log2 (Z.max h w) + 1) with (Z.succ (Z.log2 (Z.max h w))) by lia. assumption. }
  { lia. }
  split; [assumption|]. split; [destruct (Z.to_nat (Z.log2 (Z.max h w))); reflexivity|].
  split; [assumption|]. split; [assumption|]. rewrite L2. reflexivity.
Qed.

Lemma chain_step fuel s : is_unit s = false ->
  chain (S fuel) s = s :: chain fuel (next_size s).
Proof. intros E. cbn [chain]. rewrite E. reflexivity. Qed.

(* the former chain: 64 x 48 and 8 x 4 end in a 1 x 3 / 1 x 2 level (not broadcastable: RuntimeError),
   2 x 1 indexes mipmap[-2] of a one-element list (IndexError), 16 x 4 ends in 4 x 1, a single row
   has one level only *)
Lemma legacy_chain_witness :
  (exists c, mip_sizes_legacy 64 48 = Some c /\ last c (0, 0) = (1, 3) /\ broadcastable (1, 3) (64, 48) = false) /\
  (exists c, mip_sizes_legacy 8 4 = Some c /\ last c (0, 0) = (1, 2) /\ broadcastable (1, 2) (8, 4) = false) /\
  mip_sizes_legacy 2 1 = None /\
  (exists c, mip_sizes_legacy 16 4 = Some c /\ last c (0, 0) = (4, 1) /\ broadcastable (4, 1) (16, 4) = false) /\
  mip_sizes_legacy 1 64 = Some [(1, 64)] /\
  mip_sizes_legacy 32 32 = Some (mip_sizes 32 32) /\ mip_sizes_legacy 4 8 = Some (mip_sizes 4 8).
Proof.
  repeat split; try (eexists; split; [vm_compute; reflexivity|split; vm_compute; reflexivity]); vm_compute; reflexivity.
Qed.
End SizesL.

(* ================================================================== Blur: level selection and blend *)
Module BlendL.
Import Blur.
Open Scope Q_scope.

Lemma Qltb_true a b : Qltb a b = true <-> a < b.
Proof.
  unfold Qltb. rewrite negb_true_iff. split.
  - intros E. apply Qnot_le_lt. intros Hle. apply Qle_bool_iff in Hle. congruence.
  - intros Hlt. destruct (Qle_bool b a) eqn:E; [|reflexivity]. apply Qle_bool_iff in E. exfalso. apply (Qlt_not_le _ _ Hlt E).
Qed.

(* integers against the floor *)
Lemma floor_ge_iff a x : inject_Z a <= x <-> (a <= Qfloor x)%Z.
Proof.
  split.
  - intros H. apply Qfloor_resp_le in H. rewrite Qfloor_Z in H. assumption.
  - intros H. apply Qle_trans with (inject_Z (Qfloor x)); [rewrite <- Zle_Qle; assumption|apply Qfloor_le].
Qed.
Lemma floor_lt_iff a x : x < inject_Z a <-> (Qfloor x < a)%Z.
Proof.
  split.
  - intros H. destruct (Z_lt_le_dec (Qfloor x) a) as [|Hge]; [assumption|exfalso].
    apply floor_ge_iff in Hge. apply (Qlt_not_le _ _ H Hge).
  - intros H. apply Qlt_le_trans with (inject_Z (Qfloor x + 1)); [apply Qlt_floor|]. rewrite <- Zle_Qle. lia.
Qed.

Lemma frac_range x : 0 <= frac x /\ frac x < 1.
Proof.
  unfold frac. pose proof (Qfloor_le x). pose proof (Qlt_floor x) as H1. rewrite inject_Z_plus in H1.
  change (inject_Z 1) with 1 in H1. split; lra.
Qed.

Lemma floor_nonneg x : 0 <= x -> (0 <= Qfloor x)%Z.
Proof. intros H. change 0 with (inject_Z 0) in H. apply floor_ge_iff in H. assumption. Qed.

(* every non-negative LOD belongs to exactly one level: min(floor lod, L-1) *)
Lemma levels_partition L l lod : 0 <= lod -> (l < L)%nat ->
  (mask L l lod = true <-> l = level_of L lod).
Proof.
  intros H0 Hl. pose proof (floor_nonneg lod H0) as Hz. unfold mask, level_of, qnat.
  destruct (Nat.eqb_spec l (L - 1)) as [El|Nl].
  - rewrite Qle_bool_iff, floor_ge_iff. lia.
  - destruct (Nat.eqb_spec l 0) as [E0|N0].
    + rewrite Qltb_true. change 1 with (inject_Z 1). rewrite floor_lt_iff. lia.
    + rewrite andb_true_iff, Qle_bool_iff, Qltb_true, floor_ge_iff.
      change 1 with (inject_Z 1). rewrite <- inject_Z_plus, floor_lt_iff. lia.
Qed.

Lemma level_of_lt L lod : (1 <= L)%nat -> (level_of L lod < L)%nat.
Proof. unfold level_of. lia. Qed.

Lemma fold_none (P : nat -> bool) (f : nat -> Q) (l : list nat) init :
  (forall j, In j l -> P j = false) -> fold_left (fun out j => if P j then f j else out) l init = init.
Proof.
  revert init. induction l as [|a l IH]; intros init H; [reflexivity|].
  cbn [fold_left]. rewrite (H a (or_introl eq_refl)). apply IH. intros j Hj. apply H. right. assumption.
Qed.
Lemma fold_select (P : nat -> bool) (f : nat -> Q) (l : list nat) (k : nat) init :
  NoDup l -> In k l -> (forall j, In j l -> (P j = true <-> j = k)) ->
  fold_left (fun out j => if P j then f j else out) l init = f k.
Proof.
  revert init. induction l as [|a l IH]; intros init Hnd Hin H; [contradiction|].
  cbn [fold_left]. inversion Hnd as [|? ? Hna Hnd']; subst.
  destruct (Nat.eq_dec a k) as [->|Hne].
  - rewrite (proj2 (H k (or_introl eq_refl)) eq_refl). apply fold_none.
    intros j Hj. destruct (P j) eqn:E; [|reflexivity]. apply (H j (or_intror Hj)) in E. subst j. contradiction.
  - destruct (P a) eqn:E.
    + apply (H a (or_introl eq_refl)) in E. contradiction.
    + apply IH; [assumption|destruct Hin; [contradiction|assumption]|]. intros j Hj. apply H. right. assumption.
Qed.

(* the loop over levels returns the blend of the pixel's own level *)
Lemma blur_pixel_eq lod ms : 0 <= lod -> (1 <= length ms)%nat ->
  blur_pixel lod ms = blended (length ms) (level_of (length ms) lod) lod ms.
Proof.
  intros H0 HL. unfold blur_pixel, blur_with. cbv zeta.
  apply (fold_select (fun l => mask (length ms) l lod) (fun l => blended (length ms) l lod ms)).
  - apply seq_NoDup.
  - apply in_seq. pose proof (level_of_lt (length ms) lod HL). lia.
  - intros j Hj. apply in_seq in Hj. apply levels_partition; [assumption|lia].
Qed.

Definition in_range (lo hi : Q) (ms : list Q) : Prop := Forall (fun v => lo <= v /\ v <= hi) ms.

Lemma nth_in_range lo hi ms k : in_range lo hi ms -> (k < length ms)%nat -> lo <= nth k ms 0 /\ nth k ms 0 <= hi.
Proof.
  intros H Hk. unfold in_range in H. rewrite Forall_forall in H. apply H. apply nth_In. assumption.
Qed.

Lemma convex2 lo hi t a b : 0 <= t -> t <= 1 -> lo <= a /\ a <= hi -> lo <= b /\ b <= hi ->
  lo <= (1 - t) * a + t * b /\ (1 - t) * a + t * b <= hi.
Proof. intros. split; nra. Qed.

(* blend_convex: every blended level is a convex combination of two levels *)
Lemma blended_range lo hi L l lod ms : L = length ms -> (l < L)%nat -> in_range lo hi ms ->
  lo <= blended L l lod ms /\ blended L l lod ms <= hi.
Proof.
  intros -> Hl Hr. unfold blended. destruct (Nat.eqb_spec l (length ms - 1)).
  - apply nth_in_range; assumption.
  - pose proof (frac_range lod) as [F0 F1].
    apply convex2; [assumption|lra|apply nth_in_range; [assumption|lia]|apply nth_in_range; [assumption|lia]].
Qed.

(* blur_range: the output never leaves the range of the levels *)
Lemma blur_range lo hi lod ms : 0 <= lod -> (1 <= length ms)%nat -> in_range lo hi ms ->
  lo <= blur_pixel lod ms /\ blur_pixel lod ms <= hi.
Proof.
  intros H0 HL Hr. rewrite blur_pixel_eq by assumption.
  apply blended_range; [reflexivity|apply level_of_lt; assumption|assumption].
Qed.

(* blur_const: equal levels give that value *)
Lemma blur_const c lod ms : 0 <= lod -> (1 <= length ms)%nat -> Forall (fun v => v == c) ms ->
  blur_pixel lod ms == c.
Proof.
  intros H0 HL Hc. assert (Hr : in_range c c ms).
  { unfold in_range. rewrite Forall_forall in *. intros v Hv. rewrite (Hc v Hv). split; apply Qle_refl. }
  destruct (blur_range c c lod ms H0 HL Hr). apply Qle_antisym; assumption.
Qed.

(* the gaze pixel: LOD 0 returns level 0, i.e. the input pixel itself; below 1 the deviation is
   at most lod * (hi - lo) *)
Lemma blur_lod_zero lod ms : lod == 0 -> (1 <= length ms)%nat -> blur_pixel lod ms == nth 0 ms 0.
Proof.
  intros E HL. assert (H0 : 0 <= lod) by (rewrite E; apply Qle_refl).
  rewrite blur_pixel_eq by assumption. unfold level_of, blended, frac.
  rewrite (Qfloor_comp _ _ E). change (Qfloor 0) with 0%Z. cbn [Z.to_nat Nat.min].
  destruct (Nat.eqb_spec 0 (length ms - 1)); [reflexivity|]. rewrite E. cbn [inject_Z]. ring.
Qed.

Lemma blur_near_gaze lo hi lod ms : 0 <= lod -> lod < 1 -> (1 <= length ms)%nat -> in_range lo hi ms ->
  blur_pixel lod ms - nth 0 ms 0 <= lod * (hi - lo) /\ nth 0 ms 0 - blur_pixel lod ms <= lod * (hi - lo).
Proof.
  intros H0 H1 HL Hr. rewrite blur_pixel_eq by assumption.
  assert (Hf : Qfloor lod = 0%Z).
  { pose proof (floor_nonneg lod H0). change 1 with (inject_Z 1) in H1. apply floor_lt_iff in H1. lia. }
  unfold level_of, blended, frac. rewrite Hf. cbn [Z.to_nat Nat.min inject_Z].
  destruct (Nat.eqb_spec 0 (length ms - 1)) as [E|N].
  - destruct (nth_in_range lo hi ms 0%nat Hr HL) as [A B]. split; nra.
  - assert (HL1 : (1 < length ms)%nat) by lia.
    destruct (nth_in_range lo hi ms 0%nat Hr HL) as [A B]. destruct (nth_in_range lo hi ms 1%nat Hr HL1) as [C D].
    set (a := nth 0 ms 0) in *. set (b := nth 1 ms 0) in *.
    assert (E1 : (1 - (lod - 0)) * a + (lod - 0) * b - a == lod * (b - a)) by ring.
    assert (E2 : a - ((1 - (lod - 0)) * a + (lod - 0) * b) == lod * (a - b)) by ring.
    change (inject_Z 0) with 0. rewrite E1, E2.
    assert (0 <= lod * (hi - b)) by (apply Qmult_le_0_compat; lra).
    assert (0 <= lod * (a - lo)) by (apply Qmult_le_0_compat; lra).
    assert (0 <= lod * (hi - a)) by (apply Qmult_le_0_compat; lra).
    assert (0 <= lod * (b - lo)) by (apply Qmult_le_0_compat; lra).
    split; lra.
Qed.

(* regression: the former branch order agrees for chains of two or more levels and loses the pixel
   of a one-level chain with LOD >= 1 *)
Lemma mask_legacy_agrees L l lod : (2 <= L)%nat -> mask_legacy L l lod = mask L l lod.
Proof.
  intros HL. unfold mask_legacy, mask.
  destruct (Nat.eqb_spec l 0); destruct (Nat.eqb_spec l (L - 1)); try reflexivity. lia.
Qed.
Lemma legacy_single_level_witness : blur_pixel_legacy (3 # 2) [1 # 2] = 0 /\ blur_pixel (3 # 2) [1 # 2] = 1 # 2.
Proof. split; vm_compute; reflexivity. Qed.

(* ---- "interpolate is a convex average": contract and its consequences for whole images *)
Fixpoint qsum (ws : list Q) : Q := match ws with [] => 0 | w :: r => w + qsum r end.
Fixpoint qdot (ws xs : list Q) : Q :=
  match ws, xs with w :: wr, x :: xr => w * x + qdot wr xr | _, _ => 0 end.
Definition convex_of (src : list Q) (v : Q) : Prop :=
  exists ws, length ws = length src /\ Forall (fun w => 0 <= w) ws /\ qsum ws == 1 /\ v == qdot ws src.

Lemma qdot_bounds lo hi : forall ws xs, length ws = length xs -> Forall (fun w => 0 <= w) ws -> in_range lo hi xs ->
  lo * qsum ws <= qdot ws xs /\ qdot ws xs <= hi * qsum ws.
Proof.
  induction ws as [|w wr IH]; intros xs Hlen Hw Hx.
  - cbn. split; lra.
  - destruct xs as [|x xr]; [discriminate|]. cbn [qsum qdot].
    inversion Hw; subst. inversion Hx; subst. cbn [length] in Hlen.
    destruct (IH xr ltac:(lia) ltac:(assumption) ltac:(assumption)). split; nra.
Qed.

Lemma convex_in_range lo hi src v : convex_of src v -> in_range lo hi src -> lo <= v /\ v <= hi.
Proof.
  intros [ws [Hlen [Hw [Hs Hv]]]] Hr. destruct (qdot_bounds lo hi ws src Hlen Hw Hr) as [A B].
  rewrite Hv. rewrite Hs in A, B. split; lra.
Qed.

Lemma nth_map_seq {A} (f : nat -> A) n k d : (k < n)%nat -> nth k (map f (seq 0 n)) d = f k.
Proof.
  intros H. rewrite (nth_indep _ d (f 0%nat)) by (rewrite map_length, seq_length; assumption).
  rewrite (map_nth f (seq 0 n) 0%nat k), seq_nth by assumption. reflexivity.
Qed.

Section Image.
  (* an image of any size is its non-empty list of pixel values; down = one area-interpolation step,
     up = bilinear resampling (or broadcasting of the 1x1 level) to the full size *)
  Variable npix : nat.
  Variables down up : list Q -> list Q.
  Hypothesis down_convex : forall a v, a <> [] -> In v (down a) -> convex_of a v.
  Hypothesis down_nonempty : forall a, a <> [] -> down a <> [].
  Hypothesis up_convex : forall a v, a <> [] -> In v (up a) -> convex_of a v.
  Hypothesis up_length : forall a, length (up a) = npix.

  Fixpoint mips (k : nat) (img : list Q) : list Q := match k with O => img | S k' => down (mips k' img) end.
  Definition level (img : list Q) (k : nat) : list Q := match k with O => img | _ => up (mips k img) end.
  Definition levels (L : nat) (img : list Q) : list (list Q) := map (level img) (seq 0 L).
  Definition blur (L : nat) (lods img : list Q) : list Q := blur_image lods (levels L img).

  Lemma in_range_of lo hi f a : a <> [] -> (forall b v, b <> [] -> In v (f b) -> convex_of b v) ->
    in_range lo hi a -> in_range lo hi (f a).
  Proof.
    intros Hne Hc Hr. unfold in_range. rewrite Forall_forall. intros v Hv. apply (convex_in_range lo hi a); auto.
  Qed.
  Lemma mips_nonempty k img : img <> [] -> mips k img <> [].
  Proof. intros Hne. induction k; [assumption|]. cbn [mips]. apply down_nonempty. assumption. Qed.
  Lemma mips_range lo hi k img : img <> [] -> in_range lo hi img -> in_range lo hi (mips k img).
  Proof.
    intros Hne Hr. induction k; [assumption|]. cbn [mips].
    apply in_range_of; [apply mips_nonempty; assumption|assumption|assumption].
  Qed.
  Lemma level_range lo hi k img : img <> [] -> in_range lo hi img -> in_range lo hi (level img k).
  Proof.
    intros Hne Hr. destruct k; [assumption|]. cbn [level].
    apply in_range_of; [apply mips_nonempty; assumption|assumption|apply mips_range; assumption].
  Qed.
  Lemma level_length k img : length img = npix -> length (level img k) = npix.
  Proof. intros. destruct k; [assumption|apply up_length]. Qed.

  Lemma column_range lo hi L img k : length img = npix -> (k < npix)%nat -> in_range lo hi img ->
    in_range lo hi (column (levels L img) k) /\ length (column (levels L img) k) = L.
  Proof.
    intros Hlen Hk Hr. assert (Hne : img <> []) by (intros ->; cbn in Hlen; lia).
    unfold column, levels. rewrite !map_length, seq_length. split; [|reflexivity].
    unfold in_range. rewrite Forall_forall. intros v Hv. rewrite map_map in Hv. apply in_map_iff in Hv.
    destruct Hv as [l [<- _]]. apply nth_in_range; [apply level_range; assumption|rewrite level_length; assumption].
  Qed.

  (* the blur never leaves the input's value range *)
  Theorem blur_image_range lo hi L lods img : (1 <= L)%nat -> length img = npix -> length lods = npix ->
    Forall (fun x => 0 <= x) lods -> in_range lo hi img -> in_range lo hi (blur L lods img).
  Proof.
    intros HL Hlen Hll Hlod Hr. unfold blur, blur_image, in_range. rewrite Forall_forall. intros v Hv.
    apply in_map_iff in Hv. destruct Hv as [k [<- Hk]]. apply in_seq in Hk.
    destruct (column_range lo hi L img k Hlen ltac:(lia) Hr) as [Cr Cl].
    apply blur_range; [|lia|assumption].
    rewrite Forall_forall in Hlod. apply Hlod. apply nth_In. lia.
  Qed.

  (* constant images stay constant, and the output has one value per input pixel *)
  Theorem blur_image_const c L lods img : (1 <= L)%nat -> length img = npix -> length lods = npix ->
    Forall (fun x => 0 <= x) lods -> Forall (fun v => v == c) img -> Forall (fun v => v == c) (blur L lods img).
  Proof.
    intros HL Hlen Hll Hlod Hc.
    assert (Hr : in_range c c img).
    { unfold in_range. rewrite Forall_forall in *. intros v Hv. rewrite (Hc v Hv). split; apply Qle_refl. }
    pose proof (blur_image_range c c L lods img HL Hlen Hll Hlod Hr) as Hb.
    unfold in_range in Hb. rewrite Forall_forall in *. intros v Hv. destruct (Hb v Hv). apply Qle_antisym; assumption.
  Qed.
  Theorem blur_image_length L lods img : length (blur L lods img) = length lods.
  Proof. unfold blur, blur_image. rewrite map_length, seq_length. reflexivity. Qed.

  (* a pixel with LOD 0 (the gaze pixel) is returned unchanged *)
  Theorem blur_image_gaze L lods img k : (1 <= L)%nat -> (k < length lods)%nat -> nth k lods 0 == 0 ->
    nth k (blur L lods img) 0 == nth k img 0.
  Proof.
    intros HL Hk E. unfold blur, blur_image.
    rewrite (nth_map_seq (fun k => blur_pixel (nth k lods 0) (column (levels L img) k))) by assumption.
    rewrite blur_lod_zero; [|assumption|unfold column, levels; rewrite !map_length, seq_length; assumption].
    unfold column, levels. destruct L; [lia|]. reflexivity.
  Qed.
End Image.

(* a concrete averaging operator meeting the contract (non-vacuity of the Section hypotheses):
   "replace every pixel by the first one" is a convex average *)
Lemma qsum_zeros n : qsum (repeat 0 n) == 0.
Proof. induction n; cbn [repeat qsum]; [reflexivity|rewrite IHn; ring]. Qed.
Lemma qdot_zeros n xs : qdot (repeat 0 n) xs == 0.
Proof. revert xs. induction n; intros xs; cbn [repeat qdot]; [reflexivity|]. destruct xs; [reflexivity|]. rewrite IHn. ring. Qed.
Lemma convex_hd a : a <> [] -> convex_of a (hd 0 a).
Proof.
  destruct a as [|x r]; [congruence|]. intros _. exists (1 :: repeat 0 (length r)).
  split; [cbn [length]; rewrite repeat_length; reflexivity|]. split.
  - constructor; [lra|]. apply Forall_forall. intros w Hw. apply repeat_spec in Hw. subst. lra.
  - cbn [qsum qdot hd]. rewrite qsum_zeros, qdot_zeros. split; ring.
Qed.
Definition first_pixel (n : nat) (a : list Q) : list Q := repeat (hd 0 a) n.
Lemma first_pixel_convex n a v : a <> [] -> In v (first_pixel n a) -> convex_of a v.
Proof. intros Hne Hv. apply repeat_spec in Hv. subst. apply convex_hd. assumption. Qed.
Lemma first_pixel_nonempty n a : (1 <= n)%nat -> a <> [] -> first_pixel n a <> [].
Proof. intros Hn _. unfold first_pixel. destruct n; [lia|discriminate]. Qed.
Lemma first_pixel_length n a : length (first_pixel n a) = n.
Proof. apply repeat_length. Qed.
End BlendL.
