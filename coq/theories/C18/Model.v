(* C18 — foveation plumbing: pyramid padding, pooling-size maps, radially varying blur.
   Definitions only.  Three parts:
     Pad   (Z)  odak/learn/perception/spatial_steerable_pyramid.py : pad_image_for_pyramid
     Pool  (R)  odak/learn/perception/foveation.py : make_eccentricity_distance_maps,
                make_pooling_size_map_pixels/_lod, make_equi_pooling_size_map_pixels/_lod
     Blur  (Z, Q) odak/learn/perception/radially_varying_blur.py : RadiallyVaryingBlur.blur
   The model is the REPAIRED behaviour (fix-c18, fix2-c18); former behaviours are kept as `*_legacy` /
   `*_reflect_only` definitions for the regression theorems.  External library operations (F.pad,
   interpolate) are modelled by their documented index arithmetic (pad) or by a contract
   (interpolate is a convex average; Section variables in Lemmas.v). *)
From Coq Require Import ZArith List Bool Reals QArith Qround.
From OdakV Require Import Base.RealAux.
Import ListNotations.

(* ================================================================== Pad *)
Module Pad.
Open Scope Z_scope.

(* math.ceil(h / d) for positive d (exact: d is a power of two) *)
Definition ceil_div (a d : Z) : Z := - ((- a) / d).
Definition required (h n : Z) : Z := ceil_div h (2 ^ n) * 2 ^ n.
Definition pad_amount (h n : Z) : Z := required h n - h.
Definition needs_pad (h w n : Z) : bool := (h <? required h n) || (w <? required w n).

(* ---- what the property speaks about: ANY padding that appends rows below and columns to the right;
   `border` is whatever the padding writes into the added pixels (reflection, replication, zeros, ...) *)
Definition pad_generic {V : Type} (border : Z -> Z -> V) (h w n : Z) (img : Z -> Z -> V) : (Z * Z) * (Z -> Z -> V) :=
  if needs_pad h w n
  then ((h + pad_amount h n, w + pad_amount w n), fun i j => if (i <? h) && (j <? w) then img i j else border i j)
  else ((h, w), img).

(* ---- the code: torch.nn.functional.pad(image, (0, dw, 0, dh), mode), mode = "reflect" when both amounts
   are smaller than the side they reflect, else "replicate".  The tuple reads (left, right, top, bottom). *)
Definition pad_tuple (h w n : Z) : Z * Z * Z * Z := (0, pad_amount w n, 0, pad_amount h n).
Definition pad_tuple_legacy (h w n : Z) : Z * Z * Z * Z := (0, 0, pad_amount h n, pad_amount w n).
Definition reflect_ok (h w n : Z) : bool := (pad_amount h n <? h) && (pad_amount w n <? w).
Definition refl (n i : Z) : Z := if i <? 0 then - i else if i <? n then i else 2 * (n - 1) - i.
Definition edge (n i : Z) : Z := Z.max 0 (Z.min i (n - 1)).
Definition src_index (reflect : bool) (n i : Z) : Z := if reflect then refl n i else edge n i.
Definition pad_image_for_pyramid {V : Type} (h w n : Z) (img : Z -> Z -> V) : (Z * Z) * (Z -> Z -> V) :=
  if needs_pad h w n
  then let m := reflect_ok h w n in
       ((h + pad_amount h n, w + pad_amount w n), fun i j => img (src_index m h i) (src_index m w j))
  else ((h, w), img).

(* ---- former behaviours (regression theorems).  torch.nn.ReflectionPad2d((l, r, t, b)) on an h x w image is
   defined iff every amount is smaller than the side it reflects; out[i][j] = in[refl h (i-t)][refl w (j-l)] *)
Definition reflection_pad2d {V : Type} (tp : Z * Z * Z * Z) (h w : Z) (img : Z -> Z -> V)
  : option ((Z * Z) * (Z -> Z -> V)) :=
  let '(l, r, t, b) := tp in
  if (0 <=? l) && (0 <=? r) && (0 <=? t) && (0 <=? b) && (l <? w) && (r <? w) && (t <? h) && (b <? h)
  then Some ((h + t + b, w + l + r), fun i j => img (refl h (i - t)) (refl w (j - l)))
  else None.
Definition pad_with {V : Type} (tuple : Z -> Z -> Z -> Z * Z * Z * Z) (h w n : Z) (img : Z -> Z -> V)
  : option ((Z * Z) * (Z -> Z -> V)) :=
  if needs_pad h w n then reflection_pad2d (tuple h w n) h w img else Some ((h, w), img).
(* reflection only (raised on small images) and, before that, the wrong tuple order *)
Definition pad_image_for_pyramid_reflect_only {V : Type} := @pad_with V pad_tuple.
Definition pad_image_for_pyramid_legacy {V : Type} := @pad_with V pad_tuple_legacy.

(* ---- executable forms for the per-run correspondence (B2) *)
Definition get (rows : list (list Z)) (i j : Z) : Z := nth (Z.to_nat j) (nth (Z.to_nat i) rows []) 0.
Definition tabulate (H W : Z) (f : Z -> Z -> Z) : list (list Z) :=
  map (fun i => map (fun j => f (Z.of_nat i) (Z.of_nat j)) (seq 0 (Z.to_nat W))) (seq 0 (Z.to_nat H)).
Definition run_pad (h w n : Z) (rows : list (list Z)) : (Z * Z) * list (list Z) :=
  let '((H, W), f) := pad_image_for_pyramid h w n (get rows) in ((H, W), tabulate H W f).
(* what the property fixes: is the image touched at all, and the output size (the original block starts at (0,0));
   auxiliary: the mode and tuple the code is expected to hand to torch *)
Definition pad_summary (h w n : Z) : (bool * (Z * Z)) * (bool * (Z * Z * Z * Z)) :=
  ((needs_pad h w n, fst (pad_image_for_pyramid h w n (fun _ _ => 0))), (reflect_ok h w n, pad_tuple h w n)).
End Pad.

(* ================================================================== Pool *)
Module Pool.
Open Scope R_scope.

Inductive mode := Quadratic | Linear.

Definition clamp1 (x : R) : R := Rmin (Rmax x (-1)) 1.
Definition norm3 (x y z : R) : R := sqrt (x * x + y * y + z * z).

(* flat screen: pixel at (px, py, d), gaze point at (gx, gy, d), viewer at the origin *)
Definition cos_ecc (px py gx gy d : R) : R :=
  gx / norm3 gx gy d * (px / norm3 px py d) + gy / norm3 gx gy d * (py / norm3 px py d)
  + d / norm3 gx gy d * (d / norm3 px py d).
Definition ecc (px py gx gy d : R) : R := acos (clamp1 (cos_ecc px py gx gy d)).
(* pixel grid: torch.linspace(-0.5, 0.5, n)[k] * extent ; gaze g in [0,1] -> (g*2-1)*extent*0.5 *)
Definition grid (n k : R) : R := - (1 / 2) + k / (n - 1).
Definition gaze_coord (g extent : R) : R := (g * 2 - 1) * extent * (1 / 2).

Definition pool_rad (m : mode) (alpha e : R) : R :=
  match m with Quadratic => alpha * e * e | Linear => alpha * e end.
(* e: eccentricity w.r.t. the gaze, c: eccentricity w.r.t. the screen centre, D: distance to the pixel *)
Definition pool_px (m : mode) (alpha rw rd W e c D : R) : R :=
  let r := pool_rad m alpha e in
  let major := (tan (c + r * (1 / 2)) - tan (c - r * (1 / 2))) * rd in
  let minor := 2 * D * tan (r * (1 / 2)) in
  sqrt (Rabs (PI * major * minor * (1 / 4))) / rw * W.

Definition log2 (x : R) : R := ln x / ln 2.
Definition lod_of (p : R) : R :=
  let l := log2 (1 / 1000000 + p) in if Rltb l 0 then 0 else l.

(* equirectangular 360 image: directions from (yaw, pitch) *)
Definition dir_x (yaw pitch : R) : R := sin yaw * cos pitch.
Definition dir_y (yaw pitch : R) : R := sin pitch.
Definition dir_z (yaw pitch : R) : R := cos yaw * cos pitch.
Definition equi_cos (gy gp y p : R) : R :=
  dir_x gy gp * dir_x y p + dir_y gy gp * dir_y y p + dir_z gy gp * dir_z y p.
Definition equi_ecc (gy gp y p : R) : R := acos (clamp1 (equi_cos gy gp y p)).
Definition equi_ecc_legacy (gy gp y p : R) : R := acos (equi_cos gy gp y p).
Definition equi_px (m : mode) (alpha H W e : R) : R :=
  let r := pool_rad m alpha e in
  sqrt (Rabs (PI * (r * (W / (2 * PI))) * (r * (H / PI)) * (1 / 4))).
End Pool.

(* ================================================================== Blur *)
Module Blur.

(* ---- mip chain sizes (Z): halve both sides, never below 1, until 1 x 1 *)
Section Sizes.
Open Scope Z_scope.
Definition next_size (s : Z * Z) : Z * Z := (Z.max (fst s / 2) 1, Z.max (snd s / 2) 1).
Definition is_unit (s : Z * Z) : bool := (fst s <=? 1) && (snd s <=? 1).
Fixpoint chain (fuel : nat) (s : Z * Z) : list (Z * Z) :=
  s :: match fuel with
       | O => []
       | S f => if is_unit s then [] else chain f (next_size s)
       end.
Definition mip_sizes (h w : Z) : list (Z * Z) := chain (Z.to_nat (Z.log2 (Z.max h w))) (h, w).
Definition n_levels (h w : Z) : nat := length (mip_sizes h w).

(* the former chain: scale 0.5 while BOTH sides exceed 1, then the two special cases; the second
   one averaged level [-2] over rows, giving a 1 x (width of level -2) level.  None = IndexError. *)
Fixpoint chain_legacy (fuel : nat) (s : Z * Z) : list (Z * Z) :=
  s :: match fuel with
       | O => []
       | S f => if (1 <? fst s) && (1 <? snd s) then chain_legacy f (fst s / 2, snd s / 2) else []
       end.
Definition mip_sizes_legacy (h w : Z) : option (list (Z * Z)) :=
  let c := chain_legacy (Z.to_nat (Z.log2 (Z.max h w))) (h, w) in
  let c1 := if snd (last c (0, 0)) =? 2 then c ++ [(fst (last c (0, 0)), 1)] else c in
  if fst (last c1 (0, 0)) =? 2
  then match rev c1 with
       | _ :: prev :: _ => Some (c1 ++ [(1, snd prev)])
       | _ => None
       end
  else Some c1.
(* the last level is multiplied by ones(h, w): broadcastable iff each side is 1 or equal *)
Definition broadcastable (s full : Z * Z) : bool :=
  ((fst s =? 1) || (fst s =? fst full)) && ((snd s =? 1) || (snd s =? snd full)).
End Sizes.

(* ---- per-pixel level selection and blend (Q: float values are rationals) *)
Section Blend.
Open Scope Q_scope.
Definition Qltb (a b : Q) : bool := negb (Qle_bool b a).
Definition qnat (n : nat) : Q := inject_Z (Z.of_nat n).
(* torch.fmod(lod, 1.0) *)
Definition frac (x : Q) : Q := x - inject_Z (Qfloor x).

(* L levels; ms = the L up-sampled mip levels at this pixel *)
Definition mask (L l : nat) (lod : Q) : bool :=
  if Nat.eqb l (L - 1) then Qle_bool (qnat l) lod
  else if Nat.eqb l 0 then Qltb lod 1
  else Qle_bool (qnat l) lod && Qltb lod (qnat l + 1).
Definition mask_legacy (L l : nat) (lod : Q) : bool :=
  if Nat.eqb l 0 then Qltb lod 1
  else if Nat.eqb l (L - 1) then Qle_bool (qnat l) lod
  else Qle_bool (qnat l) lod && Qltb lod (qnat l + 1).
Definition blended (L l : nat) (lod : Q) (ms : list Q) : Q :=
  if Nat.eqb l (L - 1) then nth l ms 0
  else (1 - frac lod) * nth l ms 0 + frac lod * nth (S l) ms 0.
Definition blur_with (msk : nat -> nat -> Q -> bool) (lod : Q) (ms : list Q) : Q :=
  let L := length ms in
  fold_left (fun out l => if msk L l lod then blended L l lod ms else out) (seq 0 L) 0.
Definition blur_pixel := blur_with mask.
Definition blur_pixel_legacy := blur_with mask_legacy.
(* the level a pixel is taken from: min(floor lod, L-1) *)
Definition level_of (L : nat) (lod : Q) : nat := Nat.min (Z.to_nat (Qfloor lod)) (L - 1).

(* whole image, pixel lists in row-major order: lods (one per pixel), levels (L lists of pixels) *)
Definition column (levels : list (list Q)) (k : nat) : list Q := map (fun lv => nth k lv 0) levels.
Definition blur_image (lods : list Q) (levels : list (list Q)) : list Q :=
  map (fun k => blur_pixel (nth k lods 0) (column levels k)) (seq 0 (length lods)).
(* comparison with the implementation's output inside Coq, |model - impl| <= tol everywhere *)
Definition Qabs_le (a b tol : Q) : bool := Qle_bool (a - b) tol && Qle_bool (b - a) tol.
Fixpoint all_close (xs ys : list Q) (tol : Q) : bool :=
  match xs, ys with
  | [], [] => true
  | x :: xs', y :: ys' => Qabs_le x y tol && all_close xs' ys' tol
  | _, _ => false
  end.
Definition blur_check (lods : list Q) (levels : list (list Q)) (impl : list Q) (tol : Q) : bool :=
  all_close (blur_image lods levels) impl tol.
End Blend.
End Blur.
