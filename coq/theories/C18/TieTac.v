(* C18 — tactics and lemmas for the tie files (coq/tie/C18_Tie*.v): SEMANTIC equality of real expressions.
   `sem` proves  L = R  for terms built from + - * / ^ constants, sqrt, Rabs, sin, cos, acos, ln, Rmax/Rmin and
   `if Rltb/Rleb` floors, without relying on how the traced code arranged the arithmetic:
     1. canonical forms: every "floor at 0" (Rmax x 0, if x < 0 then 0 else x, if 0 <= x then x else 0, ...)
        becomes Rmax 0 x; the clamp to [-1, 1] becomes Rmin (Rmax x (-1)) 1;
     2. arguments of the non-polynomial atoms are aligned recursively (f a is replaced by f b once a = b is proved
        by `sem` itself);
     3. what is left is closed by ring / field, with inverses of non-constant terms kept as opaque atoms first and
        real field reasoning (side conditions from the hypotheses: PI, positive widths, ...) second;
     4. products of sqrt and Rabs are merged into one sqrt (sqrt_mult, sqrt (x^2) = |x|) under non-negativity, an
        equation  y = |x|  is reduced to  y = x  and  0 <= y,  and as a last resort two non-negative sides are
        compared through their squares.
   Everything is fail-closed: if no rule applies the tie lemma does not compile. *)
From Coq Require Import Reals Lra Bool.
From OdakV Require Import Base.RealAux C18.Model C18.Lemmas.
Import Pool PoolL.
Open Scope R_scope.

(* ---------------------------------------------------------------- canonical forms *)
Lemma max0_if_lt x : (if Rltb x 0 then 0 else x) = Rmax 0 x.
Proof. unfold Rltb, Rmax. destruct (Rlt_dec x 0); destruct (Rle_dec 0 x); lra. Qed.
Lemma max0_if_le x : (if Rleb x 0 then 0 else x) = Rmax 0 x.
Proof. unfold Rleb, Rmax. destruct (Rle_dec x 0); destruct (Rle_dec 0 x); lra. Qed.
Lemma max0_if_gt x : (if Rltb 0 x then x else 0) = Rmax 0 x.
Proof. unfold Rltb, Rmax. destruct (Rlt_dec 0 x); destruct (Rle_dec 0 x); lra. Qed.
Lemma max0_if_ge x : (if Rleb 0 x then x else 0) = Rmax 0 x.
Proof. unfold Rleb, Rmax. destruct (Rle_dec 0 x); reflexivity. Qed.
Lemma max0_comm x : Rmax x 0 = Rmax 0 x.
Proof. apply Rmax_comm. Qed.
Lemma clamp_swap x : Rmax (Rmin x 1) (-1) = Rmin (Rmax x (-1)) 1.
Proof. unfold Rmax, Rmin. repeat destruct (Rle_dec _ _); lra. Qed.
Lemma clamp_swap' x : Rmax (-1) (Rmin x 1) = Rmin (Rmax x (-1)) 1.
Proof. unfold Rmax, Rmin. repeat destruct (Rle_dec _ _); lra. Qed.
Lemma clamp_comm1 x : Rmin (Rmax (-1) x) 1 = Rmin (Rmax x (-1)) 1.
Proof. rewrite (Rmax_comm (-1) x). reflexivity. Qed.
Lemma clamp_comm2 x : Rmin 1 (Rmax x (-1)) = Rmin (Rmax x (-1)) 1.
Proof. apply Rmin_comm. Qed.
Lemma lod_of_max p : lod_of p = Rmax 0 (log2 (1 / 1000000 + p)).
Proof. unfold lod_of. cbv zeta. apply max0_if_lt. Qed.

(* ---------------------------------------------------------------- sqrt / abs *)
Lemma abs_eq_of_nonneg x y : y = x -> 0 <= y -> y = Rabs x.
Proof. intros <- H. symmetry. apply Rabs_pos_eq. assumption. Qed.
Lemma abs_eq_of_nonneg' x y : x = y -> 0 <= y -> Rabs x = y.
Proof. intros -> H. apply Rabs_pos_eq. assumption. Qed.
Lemma abs_as_sqrt x : Rabs x = sqrt (x * x).
Proof. symmetry. apply sqrt_Rsqr_abs. Qed.
Lemma abs_sqrt_merge a b : 0 <= b -> Rabs a * sqrt b = sqrt (a * a * b).
Proof. intros Hb. rewrite sqrt_mult; [|exact (Rle_0_sqr a)|assumption]. rewrite <- abs_as_sqrt. reflexivity. Qed.
Lemma sqrt_abs_merge a b : 0 <= b -> sqrt b * Rabs a = sqrt (a * a * b).
Proof. intros. rewrite Rmult_comm. apply abs_sqrt_merge. assumption. Qed.
Lemma sqrt_sqrt_merge a b : 0 <= a -> 0 <= b -> sqrt a * sqrt b = sqrt (a * b).
Proof. intros. symmetry. apply sqrt_mult; assumption. Qed.
Lemma abs_abs_merge a b : Rabs a * Rabs b = Rabs (a * b).
Proof. symmetry. apply Rabs_mult. Qed.
Lemma sq_inj a b : 0 <= a -> 0 <= b -> a * a = b * b -> a = b.
Proof. intros Ha Hb H. apply Rsqr_inj; assumption. Qed.
Lemma sqr_nonneg x : 0 <= x * x.
Proof. exact (Rle_0_sqr x). Qed.
Lemma pow2_sqrt x : 0 <= x -> sqrt x ^ 2 = x.
Proof. intros. simpl. rewrite Rmult_1_r. apply sqrt_sqrt. assumption. Qed.
Lemma pow2_abs x : Rabs x ^ 2 = x ^ 2.
Proof. simpl. rewrite !Rmult_1_r. rewrite <- Rabs_mult. apply Rabs_pos_eq. apply sqr_nonneg. Qed.

(* ---------------------------------------------------------------- positivity *)
Ltac pos :=
  first [ assumption | exact PI_RGT_0 | lra
        | (apply Rmult_lt_0_compat; pos) | (apply Rinv_0_lt_compat; pos)
        | (progress unfold Rdiv; pos) | (apply sqrt_lt_R0; pos)
        | (apply Rplus_lt_0_compat; pos) ].
Ltac nonneg :=
  first [ assumption | apply sqrt_pos | apply Rabs_pos | apply sqr_nonneg | apply pow2_ge_0 | lra
        | (apply Rmult_le_pos; nonneg) | (progress unfold Rdiv; nonneg)
        | (apply Rplus_le_le_0_compat; nonneg) | (left; pos) ].
Ltac nz := repeat split; first [ assumption | exact PI_neq0 | lra | (apply Rgt_not_eq; pos) | (apply Rlt_not_eq; pos) ].

(* ---------------------------------------------------------------- polynomial / rational closing step *)
Ltac abstract_inv :=
  unfold Rdiv;
  repeat match goal with |- context [/ ?x] =>
    lazymatch x with IZR _ => fail | _ => idtac end;
    let v := fresh "iv" in set (v := / x) end.
Ltac poly :=
  first [ reflexivity | ring | (unfold Rdiv; ring) | solve [abstract_inv; field] | solve [field; nz] ].

(* ---------------------------------------------------------------- canonicalisation *)
Ltac canon :=
  rewrite ?lod_of_max; unfold log2;
  rewrite ?max0_if_lt, ?max0_if_le, ?max0_if_gt, ?max0_if_ge;
  repeat match goal with |- context [Rmax ?x 0] => lazymatch x with 0 => fail | _ => rewrite (max0_comm x) end end;
  rewrite ?clamp_swap, ?clamp_swap', ?clamp_comm1, ?clamp_comm2.
Ltac merge_roots :=
  repeat first [ rewrite abs_sqrt_merge by nonneg | rewrite sqrt_abs_merge by nonneg
               | rewrite sqrt_sqrt_merge by nonneg | rewrite abs_abs_merge ].

(* ---------------------------------------------------------------- the semantic equality prover *)
(* arguments of atoms: cheap (must also FAIL cheaply, the alignment tries wrong pairs): canonical forms, recursive
   alignment, ring/field, and  y = |x|  from  y = x, 0 <= y *)
Ltac sem_arg n :=
  lazymatch n with
  | O => poly
  | S ?m =>
    canon;
    let al f := repeat match goal with |- ?L = ?R => match L with context [f ?a] => match R with context [f ?b] =>
                  lazymatch a with b => fail | _ => idtac end;
                  replace (f a) with (f b) by (apply f_equal; sem_arg m) end end end in
    let al_clamp := repeat match goal with |- ?L = ?R => match L with context [Rmax ?a (-1)] => match R with context [Rmax ?b (-1)] =>
                  lazymatch a with b => fail | _ => idtac end;
                  replace (Rmax a (-1)) with (Rmax b (-1)) by (apply (f_equal (fun t => Rmax t (-1))); sem_arg m) end end end in
    repeat progress (al sqrt; al sin; al cos; al_clamp; al acos; al Rabs; al ln; al (Rmax 0));
    first [ poly
          | solve [apply abs_eq_of_nonneg; [sem_arg m | nonneg]]
          | solve [apply abs_eq_of_nonneg'; [sem_arg m | nonneg]] ]
  end.
(* top level: additionally sqrt/abs merging and comparison through squares *)
Ltac sem :=
  first [ solve [sem_arg 4%nat]
        | solve [canon; merge_roots; sem_arg 4%nat]
        | solve [canon; apply sq_inj; [nonneg | nonneg |
                 ring_simplify; rewrite ?pow2_sqrt, ?pow2_abs by nonneg; sem_arg 4%nat]] ].
