(* C18 — property theorems only.  Each is closed by `exact` of a lemma from Lemmas.v. *)
From Coq Require Import ZArith List Bool Reals QArith Qround.
From OdakV Require Import Base.RealAux C18.Model C18.Lemmas.
Import ListNotations.

(* ================= pad_image_for_pyramid (all h, w, n; V = any pixel type) ================= *)
Section PadProps.
Import Pad PadL.
Open Scope Z_scope.

(* the padded side is the LEAST multiple of 2^n that is >= the side *)
Theorem C18_pad_amount_least : forall h n, 0 <= n ->
  (h + pad_amount h n) mod 2 ^ n = 0 /\ 0 <= pad_amount h n < 2 ^ n /\
  (forall m, m mod 2 ^ n = 0 -> h <= m -> h + pad_amount h n <= m).
Proof. exact pad_multiple. Qed.

(* The property's clauses hold for ANY padding that appends rows below and columns to the right, whatever it
   writes into the added border (reflection, replication, zeros, ...): multiples of 2^n (the least ones), *)
Theorem C18_pad_any_border_multiple : forall (V : Type) (border : Z -> Z -> V) h w n img, 0 <= n ->
  let '((H, W), _) := pad_generic border h w n img in
  H mod 2 ^ n = 0 /\ W mod 2 ^ n = 0 /\ h <= H < h + 2 ^ n /\ w <= W < w + 2 ^ n.
Proof. exact @generic_multiple. Qed.
(* ... original pixels intact at their original positions, *)
Theorem C18_pad_any_border_keeps_origin : forall (V : Type) (border : Z -> Z -> V) h w n img,
  forall i j, 0 <= i < h -> 0 <= j < w -> snd (pad_generic border h w n img) i j = img i j.
Proof. exact @generic_keeps_origin. Qed.
(* ... images that already fit are returned unchanged. *)
Theorem C18_pad_any_border_noop : forall (V : Type) (border : Z -> Z -> V) h w n img, 0 <= n ->
  h mod 2 ^ n = 0 -> w mod 2 ^ n = 0 -> pad_generic border h w n img = ((h, w), img).
Proof. exact @generic_noop. Qed.

(* The code (F.pad with (0, dw, 0, dh); reflect, or replicate where a side is too short to reflect) is such a
   padding, for every image size: *)
Theorem C18_pad_code_is_generic : forall (V : Type) h w n (img : Z -> Z -> V),
  fst (pad_image_for_pyramid h w n img) = fst (pad_generic (snd (pad_image_for_pyramid h w n img)) h w n img) /\
  forall i j, 0 <= i -> 0 <= j ->
    snd (pad_image_for_pyramid h w n img) i j = snd (pad_generic (snd (pad_image_for_pyramid h w n img)) h w n img) i j.
Proof. exact @code_is_generic. Qed.
Theorem C18_pad_multiple : forall (V : Type) h w n (img : Z -> Z -> V), 0 <= n ->
  let '((H, W), _) := pad_image_for_pyramid h w n img in
  H mod 2 ^ n = 0 /\ W mod 2 ^ n = 0 /\ h <= H < h + 2 ^ n /\ w <= W < w + 2 ^ n.
Proof. exact @pad_result_multiple. Qed.
Theorem C18_pad_keeps_origin : forall (V : Type) h w n (img : Z -> Z -> V),
  forall i j, 0 <= i < h -> 0 <= j < w -> snd (pad_image_for_pyramid h w n img) i j = img i j.
Proof. exact @pad_keeps_origin. Qed.
Theorem C18_pad_noop : forall (V : Type) h w n (img : Z -> Z -> V), 0 <= n ->
  h mod 2 ^ n = 0 -> w mod 2 ^ n = 0 -> pad_image_for_pyramid h w n img = ((h, w), img).
Proof. exact @pad_noop. Qed.
(* beyond the property: the code's border consists of input pixels only *)
Theorem C18_pad_values_from_input : forall (V : Type) h w n (img : Z -> Z -> V), 0 <= n -> 1 <= h -> 1 <= w ->
  let '((H, W), f) := pad_image_for_pyramid h w n img in
  forall i j, 0 <= i < H -> 0 <= j < W -> exists i' j', 0 <= i' < h /\ 0 <= j' < w /\ f i j = img i' j'.
Proof. exact @pad_values_from_input. Qed.
Theorem C18_pad_reflect_mode_iff : forall h w n, 0 <= n -> 1 <= h -> 1 <= w ->
  (reflect_ok h w n = true <-> 2 ^ n < 2 * h /\ 2 ^ n < 2 * w).
Proof. exact reflect_ok_iff. Qed.

(* regression for the repaired defect "reflection only": it returned an image exactly for sides above 2^(n-1)
   (raised otherwise), and the repaired function returns the same image there *)
Theorem C18_pad_reflect_only_defined_iff : forall (V : Type) h w n (img : Z -> Z -> V), 0 <= n -> 1 <= h -> 1 <= w ->
  (pad_image_for_pyramid_reflect_only h w n img <> None <-> 2 ^ n < 2 * h /\ 2 ^ n < 2 * w).
Proof. exact @reflect_only_defined_iff. Qed.
Theorem C18_pad_reflect_only_agrees : forall (V : Type) h w n (img : Z -> Z -> V) S f,
  pad_image_for_pyramid_reflect_only h w n img = Some (S, f) ->
  fst (pad_image_for_pyramid h w n img) = S /\ forall i j, snd (pad_image_for_pyramid h w n img) i j = f i j.
Proof. exact @reflect_only_agrees. Qed.
Theorem C18_pad_reflect_only_refuted :
  pad_image_for_pyramid_reflect_only 1 1 1 (fun _ _ => 7) = None /\
  fst (pad_image_for_pyramid 1 1 1 (fun _ _ => 7)) = (2, 2) /\ snd (pad_image_for_pyramid 1 1 1 (fun _ _ => 7)) 1 1 = 7.
Proof. exact reflect_only_raises_witness. Qed.

(* regression for the repaired tuple order: the former tuple (0, 0, dh, dw) *)
Theorem C18_pad_legacy_tuple_refuted :
  match pad_image_for_pyramid_legacy 5 7 2 (fun i j => 10 * i + j) with
  | Some ((H, W), f) => H = 9 /\ W = 7 /\ W mod 2 ^ 2 <> 0 /\ H mod 2 ^ 2 <> 0 /\ f 0 0 = 30 /\ f 3 0 = 0
  | None => False
  end.
Proof. exact legacy_tuple_witness. Qed.
Theorem C18_pad_legacy_width_never_padded : forall (V : Type) h w n (img : Z -> Z -> V) H W f,
  pad_image_for_pyramid_legacy h w n img = Some ((H, W), f) -> W = w.
Proof. exact @legacy_width_never_padded. Qed.
End PadProps.

(* ================= pooling-size maps (all real gaze points, alpha, geometry, both modes) ================= *)
Section PoolProps.
Import Pool PoolL.
Open Scope R_scope.

(* non-negative everywhere *)
Theorem C18_pool_nonneg : forall m alpha rw rd W e c D, 0 < rw -> 0 <= W -> 0 <= pool_px m alpha rw rd W e c D.
Proof. exact pool_px_nonneg. Qed.
(* zero, hence smallest, at the gaze point *)
Theorem C18_pool_min_at_gaze : forall m alpha rw rd W px py c D e' c' D', 0 < rd -> 0 < rw -> 0 <= W ->
  pool_px m alpha rw rd W (ecc px py px py rd) c D = 0 /\
  pool_px m alpha rw rd W (ecc px py px py rd) c D <= pool_px m alpha rw rd W e' c' D'.
Proof. exact pool_px_min_at_gaze. Qed.
(* the eccentricity is well defined (acos of a value in [-1,1]) and lies in [0, PI] *)
Theorem C18_ecc_well_defined : forall px py gx gy d,
  -1 <= clamp1 (cos_ecc px py gx gy d) <= 1 /\ 0 <= ecc px py gx gy d <= PI.
Proof. exact ecc_well_defined. Qed.
(* a gaze given as a pixel's normalised coordinate is that pixel *)
Theorem C18_gaze_on_grid : forall n k ext, n - 1 <> 0 -> gaze_coord (k / (n - 1)) ext = grid n k * ext.
Proof. exact gaze_on_grid. Qed.
(* LOD map: non-negative, zero below one pixel (so at the gaze), monotone in the pooling size,
   and the logarithm's argument is positive *)
Theorem C18_lod_nonneg : forall p, 0 <= lod_of p.
Proof. exact lod_nonneg. Qed.
Theorem C18_lod_zero_at_gaze : forall p, 0 <= p -> p < 1 - 1 / 1000000 -> lod_of p = 0.
Proof. exact lod_zero_small. Qed.
Theorem C18_lod_monotone : forall p q, 0 <= p -> p <= q -> lod_of p <= lod_of q.
Proof. exact lod_mono. Qed.
Theorem C18_lod_arg_positive : forall p, 0 <= p -> 0 < 1 / 1000000 + p.
Proof. exact lod_arg_pos. Qed.
(* equirectangular mode *)
Theorem C18_equi_nonneg : forall m alpha H W e, 0 <= equi_px m alpha H W e.
Proof. exact equi_px_nonneg. Qed.
Theorem C18_equi_min_at_gaze : forall m alpha H W y p e',
  equi_px m alpha H W (equi_ecc y p y p) = 0 /\ equi_px m alpha H W (equi_ecc y p y p) <= equi_px m alpha H W e'.
Proof. exact equi_px_min_at_gaze. Qed.
Theorem C18_equi_well_defined : forall gy gp y p,
  -1 <= clamp1 (equi_cos gy gp y p) <= 1 /\ 0 <= equi_ecc gy gp y p <= PI.
Proof. exact equi_well_defined. Qed.
Theorem C18_equi_clamp_harmless : forall gy gp y p, -1 <= equi_cos gy gp y p <= 1 ->
  equi_ecc gy gp y p = equi_ecc_legacy gy gp y p.
Proof. exact equi_clamp_harmless. Qed.
End PoolProps.

(* ================= RadiallyVaryingBlur ================= *)
Section BlurProps.
Import Blur SizesL BlendL.

(* the mip chain of every h x w image ends in a 1 x 1 level (floor(log2(max h w)) + 1 levels), which
   broadcasts against the full size: the blur is defined for every image shape *)
Theorem C18_mip_chain : forall h w, (1 <= h)%Z -> (1 <= w)%Z ->
  n_levels h w = S (Z.to_nat (Z.log2 (Z.max h w))) /\
  hd (0, 0)%Z (mip_sizes h w) = (h, w) /\ last (mip_sizes h w) (0, 0)%Z = (1, 1)%Z /\
  Forall (fun t => (1 <= fst t)%Z /\ (1 <= snd t)%Z) (mip_sizes h w) /\
  broadcastable (last (mip_sizes h w) (0, 0)%Z) (h, w) = true.
Proof. exact mip_sizes_spec. Qed.

Open Scope Q_scope.
(* every non-negative LOD selects exactly one level *)
Theorem C18_levels_partition : forall L l lod, 0 <= lod -> (l < L)%nat ->
  (mask L l lod = true <-> l = level_of L lod).
Proof. exact levels_partition. Qed.
Theorem C18_blur_pixel_eq : forall lod ms, 0 <= lod -> (1 <= length ms)%nat ->
  blur_pixel lod ms = blended (length ms) (level_of (length ms) lod) lod ms.
Proof. exact blur_pixel_eq. Qed.
(* the blend of two levels is a convex combination *)
Theorem C18_blend_convex : forall lo hi L l lod ms, L = length ms -> (l < L)%nat -> in_range lo hi ms ->
  lo <= blended L l lod ms /\ blended L l lod ms <= hi.
Proof. exact blended_range. Qed.
(* a convex average stays within the range of its inputs (what the interpolate contract gives) *)
Theorem C18_convex_in_range : forall lo hi src v, convex_of src v -> in_range lo hi src -> lo <= v /\ v <= hi.
Proof. exact convex_in_range. Qed.

(* whole images, for every pair of interpolation operators meeting the contract *)
Theorem C18_blur_range : forall npix (down up : list Q -> list Q),
  (forall a v, a <> [] -> In v (down a) -> convex_of a v) -> (forall a, a <> [] -> down a <> []) ->
  (forall a v, a <> [] -> In v (up a) -> convex_of a v) -> (forall a, length (up a) = npix) ->
  forall lo hi L lods img, (1 <= L)%nat -> length img = npix -> length lods = npix ->
  Forall (fun x => 0 <= x) lods -> in_range lo hi img -> in_range lo hi (blur down up L lods img).
Proof. exact blur_image_range. Qed.
Theorem C18_blur_const : forall npix (down up : list Q -> list Q),
  (forall a v, a <> [] -> In v (down a) -> convex_of a v) -> (forall a, a <> [] -> down a <> []) ->
  (forall a v, a <> [] -> In v (up a) -> convex_of a v) -> (forall a, length (up a) = npix) ->
  forall c L lods img, (1 <= L)%nat -> length img = npix -> length lods = npix ->
  Forall (fun x => 0 <= x) lods -> Forall (fun v => v == c) img -> Forall (fun v => v == c) (blur down up L lods img).
Proof. exact blur_image_const. Qed.
(* NOTE: true by construction of the model (`blur` maps over `lods`): it states that the MODEL is well formed.
   The property's clause "returns the input's shape" is tied to the code by the oracle clause `shape_kept`
   and by the B2 blur correspondence (output shape compared on every case), not by this statement. *)
Theorem C18_blur_shape : forall (down up : list Q -> list Q) L lods img, length (blur down up L lods img) = length lods.
Proof. exact blur_image_length. Qed.
(* the gaze pixel (LOD 0) is returned unchanged; with LOD below 1 it moves by at most lod * range *)
Theorem C18_blur_gaze : forall (down up : list Q -> list Q) L lods img k, (1 <= L)%nat -> (k < length lods)%nat ->
  nth k lods 0 == 0 -> nth k (blur down up L lods img) 0 == nth k img 0.
Proof. exact blur_image_gaze. Qed.
Theorem C18_blur_near_gaze : forall lo hi lod ms, 0 <= lod -> lod < 1 -> (1 <= length ms)%nat -> in_range lo hi ms ->
  blur_pixel lod ms - nth 0 ms 0 <= lod * (hi - lo) /\ nth 0 ms 0 - blur_pixel lod ms <= lod * (hi - lo).
Proof. exact blur_near_gaze. Qed.

(* regressions for the repaired defects *)
Theorem C18_legacy_chain_refuted :
  (exists c, mip_sizes_legacy 64 48 = Some c /\ last c (0, 0)%Z = (1, 3)%Z /\ broadcastable (1, 3)%Z (64, 48)%Z = false) /\
  (exists c, mip_sizes_legacy 8 4 = Some c /\ last c (0, 0)%Z = (1, 2)%Z /\ broadcastable (1, 2)%Z (8, 4)%Z = false) /\
  mip_sizes_legacy 2 1 = None /\
  (exists c, mip_sizes_legacy 16 4 = Some c /\ last c (0, 0)%Z = (4, 1)%Z /\ broadcastable (4, 1)%Z (16, 4)%Z = false) /\
  mip_sizes_legacy 1 64 = Some [(1, 64)%Z] /\
  mip_sizes_legacy 32 32 = Some (mip_sizes 32 32) /\ mip_sizes_legacy 4 8 = Some (mip_sizes 4 8).
Proof. exact legacy_chain_witness. Qed.
Theorem C18_legacy_single_level_refuted : blur_pixel_legacy (3 # 2) [1 # 2] = 0 /\ blur_pixel (3 # 2) [1 # 2] = 1 # 2.
Proof. exact legacy_single_level_witness. Qed.
Theorem C18_legacy_mask_agrees : forall L l lod, (2 <= L)%nat -> mask_legacy L l lod = mask L l lod.
Proof. exact mask_legacy_agrees. Qed.
End BlurProps.

(* non-vacuity: the contract of C18_blur_range is met by a concrete averaging operator, and the model
   computes through on concrete non-square cases (pad 2 x 3 by reflection, 1 x 2 by replication; blur of 2 and 3 pixels) *)
Example C18_instance :
  BlendL.in_range (1 # 4) (3 # 4)
    (BlendL.blur (BlendL.first_pixel 2) (BlendL.first_pixel 2) 2 [0; 3 # 2] [1 # 4; 3 # 4])%Q /\
  Pad.run_pad 2 3 1 [[1; 2; 3]; [4; 5; 6]]%Z = ((2, 4), [[1; 2; 3; 2]; [4; 5; 6; 5]])%Z /\
  Pad.run_pad 1 2 2 [[1; 2]]%Z = ((4, 4), [[1; 2; 2; 2]; [1; 2; 2; 2]; [1; 2; 2; 2]; [1; 2; 2; 2]])%Z /\
  map Qred (Blur.blur_image [0; 1 # 2; 5 # 2]%Q [[0; 0; 0]; [1; 1; 1]; [2; 2; 2]]%Q) = [0; 1 # 2; 2]%Q.
Proof.
  split; [|repeat split; vm_compute; reflexivity].
  apply (BlendL.blur_image_range 2 (BlendL.first_pixel 2) (BlendL.first_pixel 2)).
  - intros a v Hne. apply BlendL.first_pixel_convex. assumption.
  - intros a. apply BlendL.first_pixel_nonempty. auto.
  - intros a v Hne. apply BlendL.first_pixel_convex. assumption.
  - intros a. apply BlendL.first_pixel_length.
  - auto.
  - reflexivity.
  - reflexivity.
  - repeat constructor; discriminate.
  - repeat constructor; discriminate.
Qed.
