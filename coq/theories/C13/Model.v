(* C13 — reference model of odak's rotations (definitions only).
   odak.tools.transformation      : rotmatx/y/z, rotate_point, rotate_points (zero-angle fast path), tilt_towards
   odak.learn.tools.transformation: rotmatx/y/z, get_rotation_matrix, rotate_points, tilt_towards
   odak.raytracing.primitives     : bring_plane_to_origin (negated angles, reversed mode string)
   Written from the mathematics; the definitions traced from the current /repo sources are proved
   equal to it on every run (coq/tie/C13_Tie*.v).  A mirror over Q (q...) is executed inside Coq for
   the differential correspondence (B2); Lemmas.v proves that the mirror computes the real model. *)
From Coq Require Import Reals QArith Qreals Bool String Ascii List.
From OdakV Require Import Base.RealAux Base.Vec3.
Open Scope R_scope.

(* ---- 3x3 matrices: three rows --------------------------------------------------------- *)
Definition M3 := (V3 * V3 * V3)%type.
Definition row1 (A : M3) : V3 := fst (fst A).
Definition row2 (A : M3) : V3 := snd (fst A).
Definition row3 (A : M3) : V3 := snd A.
Definition col1 (A : M3) : V3 := (vx (row1 A), vx (row2 A), vx (row3 A)).
Definition col2 (A : M3) : V3 := (vy (row1 A), vy (row2 A), vy (row3 A)).
Definition col3 (A : M3) : V3 := (vz (row1 A), vz (row2 A), vz (row3 A)).
Definition mapply (A : M3) (v : V3) : V3 := (vdot (row1 A) v, vdot (row2 A) v, vdot (row3 A) v).
Definition mtr (A : M3) : M3 := (col1 A, col2 A, col3 A).
Definition mmul (A B : M3) : M3 := (mapply (mtr B) (row1 A), mapply (mtr B) (row2 A), mapply (mtr B) (row3 A)).
Definition I3 : M3 := ((1, 0, 0), (0, 1, 0), (0, 0, 1)).
Definition mdet (A : M3) : R := vdot (row1 A) (vcross (row2 A) (row3 A)).
Definition orthonormal (A : M3) : Prop := mmul (mtr A) A = I3 /\ mmul A (mtr A) = I3.
Definition vneg (a : V3) : V3 := (- vx a, - vy a, - vz a).
Definition dist2 (p q : V3) : R := vnorm2 (vsub p q).
Definition dist (p q : V3) : R := vnorm (vsub p q).

(* ---- axis rotations from a (cosine, sine) pair, and from an angle in degrees ----------- *)
Definition Rx (c s : R) : M3 := ((1, 0, 0), (0, c, - s), (0, s, c)).
Definition Ry (c s : R) : M3 := ((c, 0, s), (0, 1, 0), (- s, 0, c)).
Definition Rz (c s : R) : M3 := ((c, - s, 0), (s, c, 0), (0, 0, 1)).
Definition rad (d : R) : R := d * (PI / 180).
Definition deg (r : R) : R := r * (180 / PI).
Definition rotmatx (a : R) : M3 := Rx (cos (rad a)) (sin (rad a)).
Definition rotmaty (a : R) : M3 := Ry (cos (rad a)) (sin (rad a)).
Definition rotmatz (a : R) : M3 := Rz (cos (rad a)) (sin (rad a)).

(* ---- rotation-order modes -------------------------------------------------------------- *)
Inductive mode := XYZ | XZY | YXZ | ZXY | ZYX.
Definition all_modes : list mode := XYZ :: XZY :: YXZ :: ZXY :: ZYX :: nil.
(* rotate_point(s): the axis rotations are applied to the point one after the other, the first
   letter of the mode first *)
Definition seq_apply (m : mode) (X Y Z : M3) (p : V3) : V3 :=
  match m with
  | XYZ => mapply Z (mapply Y (mapply X p))
  | XZY => mapply Y (mapply Z (mapply X p))
  | YXZ => mapply Z (mapply X (mapply Y p))
  | ZXY => mapply Y (mapply X (mapply Z p))
  | ZYX => mapply X (mapply Y (mapply Z p))
  end.
(* get_rotation_matrix: one matrix, the product with the first letter rightmost *)
Definition mode_product (m : mode) (X Y Z : M3) : M3 :=
  match m with
  | XYZ => mmul Z (mmul Y X)
  | XZY => mmul Y (mmul Z X)
  | YXZ => mmul Z (mmul X Y)
  | ZXY => mmul Y (mmul X Z)
  | ZYX => mmul X (mmul Y Z)
  end.
Definition rotate_with (m : mode) (X Y Z : M3) (p origin offset : V3) : V3 :=
  vadd (vadd (seq_apply m X Y Z (vsub p origin)) origin) offset.
(* angles = (about x, about y, about z) in degrees *)
Definition rotate (m : mode) (a p origin offset : V3) : V3 :=
  rotate_with m (rotmatx (vx a)) (rotmaty (vy a)) (rotmatz (vz a)) p origin offset.
Definition rotation_matrix (m : mode) (a : V3) : M3 :=
  mode_product m (rotmatx (vx a)) (rotmaty (vy a)) (rotmatz (vz a)).

(* NumPy rotate_points: all three angles equal to zero short-cuts to offset + points *)
Definition all_zero (a : V3) : bool := Reqb (vx a) 0 && Reqb (vy a) 0 && Reqb (vz a) 0.
Definition np_rotate_points (m : mode) (a p origin offset : V3) : V3 :=
  if all_zero a then vadd offset p else rotate m a p origin offset.

(* ---- mode strings; bring_plane_to_origin reverses the string (mode[::-1]) --------------- *)
Open Scope string_scope.
Definition mode_name (m : mode) : string :=
  match m with XYZ => "XYZ" | XZY => "XZY" | YXZ => "YXZ" | ZXY => "ZXY" | ZYX => "ZYX" end.
Definition parse_mode (s : string) : option mode :=
  if String.eqb s "XYZ" then Some XYZ else if String.eqb s "XZY" then Some XZY else
  if String.eqb s "YXZ" then Some YXZ else if String.eqb s "ZXY" then Some ZXY else
  if String.eqb s "ZYX" then Some ZYX else None.
Definition string_rev (s : string) : string := string_of_list_ascii (rev (list_ascii_of_string s)).
Definition reverse_mode (m : mode) : option mode := parse_mode (string_rev (mode_name m)).
Close Scope string_scope.
(* None: rotate_points is entered with a mode it does not know (the library raises) *)
Definition bring_to_origin (m : mode) (a center p : V3) : option V3 :=
  match reverse_mode m with
  | Some r => Some (np_rotate_points r (vneg a) (vsub p center) vzero vzero)
  | None => None
  end.

(* ---- tilt_towards: angles that turn the z axis into the direction lookat -> location ---- *)
Definition tilt_towards (location lookat : V3) : V3 :=
  let d := vsub location lookat in
  (0, deg (acos (vz d / sqrt ((vx d) ^ 2 + (vy d) ^ 2 + (vz d) ^ 2))), deg (atan2 (vy d) (vx d))).

(* ---- executable mirror over Q (cosines and sines are supplied as a table) --------------- *)
Definition QV3 := (Q * Q * Q)%type.
Definition QM3 := (QV3 * QV3 * QV3)%type.
Definition qx (v : QV3) : Q := fst (fst v).
Definition qy (v : QV3) : Q := snd (fst v).
Definition qz (v : QV3) : Q := snd v.
(* Qred keeps the dyadic numbers small while the model runs (it does not change the value) *)
Definition qdot (a b : QV3) : Q := Qred (qx a * qx b + qy a * qy b + qz a * qz b)%Q.
Definition qadd (a b : QV3) : QV3 := (qx a + qx b, qy a + qy b, qz a + qz b)%Q.
Definition qsub (a b : QV3) : QV3 := (qx a - qx b, qy a - qy b, qz a - qz b)%Q.
Definition qapply (A : QM3) (v : QV3) : QV3 := (qdot (fst (fst A)) v, qdot (snd (fst A)) v, qdot (snd A) v).
Definition qRx (c s : Q) : QM3 := ((1, 0, 0), (0, c, - s), (0, s, c))%Q.
Definition qRy (c s : Q) : QM3 := ((c, 0, s), (0, 1, 0), (- s, 0, c))%Q.
Definition qRz (c s : Q) : QM3 := ((c, - s, 0), (s, c, 0), (0, 0, 1))%Q.
Definition qseq_apply (m : mode) (X Y Z : QM3) (p : QV3) : QV3 :=
  match m with
  | XYZ => qapply Z (qapply Y (qapply X p))
  | XZY => qapply Y (qapply Z (qapply X p))
  | YXZ => qapply Z (qapply X (qapply Y p))
  | ZXY => qapply Y (qapply X (qapply Z p))
  | ZYX => qapply X (qapply Y (qapply Z p))
  end.
(* cs = ((cx, sx), (cy, sy), (cz, sz)) *)
Definition QCS := ((Q * Q) * (Q * Q) * (Q * Q))%type.
Definition qrotate (m : mode) (cs : QCS) (p origin offset : QV3) : QV3 :=
  let '(x, y, z) := cs in
  qadd (qadd (qseq_apply m (qRx (fst x) (snd x)) (qRy (fst y) (snd y)) (qRz (fst z) (snd z)) (qsub p origin)) origin) offset.
(* NumPy rotate_points with the fast path; zero = the three angles are all exactly zero *)
Definition qnp_rotate_points (m : mode) (zero : bool) (cs : QCS) (p origin offset : QV3) : QV3 :=
  if zero then qadd offset p else qrotate m cs p origin offset.
Definition qbring_to_origin (m : mode) (zero : bool) (cs_neg : QCS) (center p : QV3) : option QV3 :=
  match reverse_mode m with
  | Some r => Some (qnp_rotate_points r zero cs_neg (qsub p center) (0, 0, 0)%Q (0, 0, 0)%Q)
  | None => None
  end.
(* comparison helpers for the correspondence: |a - b| <= tol componentwise; table sanity c^2+s^2 ~ 1 *)
Definition qabs_le (a tol : Q) : bool := Qle_bool a tol && Qle_bool (- tol) a.
Definition qclose (tol : Q) (a b : QV3) : bool :=
  qabs_le (qx a - qx b) tol && qabs_le (qy a - qy b) tol && qabs_le (qz a - qz b) tol.
Definition qunit (tol : Q) (cs : QCS) : bool :=
  let '(x, y, z) := cs in
  qabs_le (fst x * fst x + snd x * snd x - 1) tol && qabs_le (fst y * fst y + snd y * snd y - 1) tol &&
  qabs_le (fst z * fst z + snd z * snd z - 1) tol.
Definition mode_of_nat (n : nat) : mode := nth n all_modes XYZ.
