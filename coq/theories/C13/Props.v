(* C13 — property theorems: rotations are rigid and consistent across modes, APIs and inverses.
   The definitions traced from /repo are proved equal to this model on every run (coq/tie/C13_Tie*.v),
   where the same statements are also derived for the traced code itself (C13_TieProps.v). *)
From Coq Require Import Reals QArith Qreals Bool.
From OdakV Require Import Base.RealAux Base.Vec3 C13.Model C13.Lemmas.
Open Scope R_scope.

(* every axis matrix built from ANY pair with c^2 + s^2 = 1 is orthonormal with determinant +1 ... *)
Theorem C13_axis_cs_rigid : forall c s, c * c + s * s = 1 ->
  (orthonormal (Rx c s) /\ mdet (Rx c s) = 1) /\ (orthonormal (Ry c s) /\ mdet (Ry c s) = 1) /\
  (orthonormal (Rz c s) /\ mdet (Rz c s) = 1).
Proof. exact axis_cs_rigid. Qed.
(* ... and so is the product of three of them in each of the five orders *)
Theorem C13_products_cs_rigid : forall m cx sx cy sy cz sz,
  cx * cx + sx * sx = 1 -> cy * cy + sy * sy = 1 -> cz * cz + sz * sz = 1 ->
  orthonormal (mode_product m (Rx cx sx) (Ry cy sy) (Rz cz sz)) /\ mdet (mode_product m (Rx cx sx) (Ry cy sy) (Rz cz sz)) = 1.
Proof. exact products_cs_rigid. Qed.
(* for all angles in degrees (no range restriction: negative, huge, multiples of 90 or 360) *)
Theorem C13_axis_orthonormal : forall a, orthonormal (rotmatx a) /\ orthonormal (rotmaty a) /\ orthonormal (rotmatz a).
Proof. exact axis_orthonormal. Qed.
Theorem C13_axis_det1 : forall a, mdet (rotmatx a) = 1 /\ mdet (rotmaty a) = 1 /\ mdet (rotmatz a) = 1.
Proof. exact axis_det1. Qed.
Theorem C13_rotation_matrix_orthonormal : forall m a, orthonormal (rotation_matrix m a).
Proof. exact rotation_matrix_orth. Qed.
Theorem C13_rotation_matrix_det1 : forall m a, mdet (rotation_matrix m a) = 1.
Proof. exact rotation_matrix_det1. Qed.
(* rotating points preserves all pairwise distances, for every mode, origin and offset *)
Theorem C13_rotate_dist : forall m a p q o f, dist (rotate m a p o f) (rotate m a q o f) = dist p q.
Proof. exact rotate_dist. Qed.
Theorem C13_rotate_dist2 : forall m a p q o f, dist2 (rotate m a p o f) (rotate m a q o f) = dist2 p q.
Proof. exact rotate_dist2. Qed.
(* the chosen origin stays fixed (and is only moved by the offset) *)
Theorem C13_origin_fixed : forall m a o, rotate m a o o vzero = o.
Proof. exact origin_fixed. Qed.
Theorem C13_origin_to_offset : forall m a o f, rotate m a o o f = vadd o f.
Proof. exact origin_to_offset. Qed.
(* zero angles are the identity; the offset is a pure translation *)
Theorem C13_zero_angles_id : forall m p o f, rotate m vzero p o f = vadd p f.
Proof. exact zero_angles_id. Qed.
Theorem C13_zero_angles_matrix : forall m, rotation_matrix m vzero = I3.
Proof. exact zero_angles_matrix. Qed.
Theorem C13_offset_translation : forall m a p o f, rotate m a p o f = vadd (rotate m a p o vzero) f.
Proof. exact offset_translation. Qed.
(* each mode equals the stated product of axis rotations (first letter applied first) *)
Theorem C13_mode_XYZ : forall a p,
  rotate XYZ a p vzero vzero = mapply (mmul (rotmatz (vz a)) (mmul (rotmaty (vy a)) (rotmatx (vx a)))) p /\
  rotate XYZ a p vzero vzero = mapply (rotmatz (vz a)) (mapply (rotmaty (vy a)) (mapply (rotmatx (vx a)) p)).
Proof. exact mode_XYZ. Qed.
Theorem C13_mode_XZY : forall a p,
  rotate XZY a p vzero vzero = mapply (mmul (rotmaty (vy a)) (mmul (rotmatz (vz a)) (rotmatx (vx a)))) p /\
  rotate XZY a p vzero vzero = mapply (rotmaty (vy a)) (mapply (rotmatz (vz a)) (mapply (rotmatx (vx a)) p)).
Proof. exact mode_XZY. Qed.
Theorem C13_mode_YXZ : forall a p,
  rotate YXZ a p vzero vzero = mapply (mmul (rotmatz (vz a)) (mmul (rotmatx (vx a)) (rotmaty (vy a)))) p /\
  rotate YXZ a p vzero vzero = mapply (rotmatz (vz a)) (mapply (rotmatx (vx a)) (mapply (rotmaty (vy a)) p)).
Proof. exact mode_YXZ. Qed.
Theorem C13_mode_ZXY : forall a p,
  rotate ZXY a p vzero vzero = mapply (mmul (rotmaty (vy a)) (mmul (rotmatx (vx a)) (rotmatz (vz a)))) p /\
  rotate ZXY a p vzero vzero = mapply (rotmaty (vy a)) (mapply (rotmatx (vx a)) (mapply (rotmatz (vz a)) p)).
Proof. exact mode_ZXY. Qed.
Theorem C13_mode_ZYX : forall a p,
  rotate ZYX a p vzero vzero = mapply (mmul (rotmatx (vx a)) (mmul (rotmaty (vy a)) (rotmatz (vz a)))) p /\
  rotate ZYX a p vzero vzero = mapply (rotmatx (vx a)) (mapply (rotmaty (vy a)) (mapply (rotmatz (vz a)) p)).
Proof. exact mode_ZYX. Qed.
(* rotate_point(s) applies exactly the matrix that get_rotation_matrix returns for the same mode *)
Theorem C13_rotate_is_matrix : forall m a p o f,
  rotate m a p o f = vadd (vadd (mapply (rotation_matrix m a) (vsub p o)) o) f.
Proof. exact rotate_is_matrix. Qed.
(* the order matters: the modes are not interchangeable *)
Theorem C13_modes_differ : rotate XYZ (90, 90, 0) (0, 1, 0) vzero vzero <> rotate ZYX (90, 90, 0) (0, 1, 0) vzero vzero.
Proof. exact modes_differ. Qed.
(* inverse: negated angles in the reversed order, where the reversed order is offered *)
Theorem C13_reverse_mode_table :
  reverse_mode XYZ = Some ZYX /\ reverse_mode ZYX = Some XYZ /\ reverse_mode YXZ = Some ZXY /\
  reverse_mode ZXY = Some YXZ /\ reverse_mode XZY = None.
Proof. exact reverse_mode_table. Qed.
Theorem C13_inverse_reversed : forall m r a p, reverse_mode m = Some r ->
  rotate r (vneg a) (rotate m a p vzero vzero) vzero vzero = p.
Proof. exact inverse_reversed. Qed.
Theorem C13_inverse_general : forall m r a p o f, reverse_mode m = Some r ->
  rotate r (vneg a) (rotate m a p o f) (vadd o f) (vneg f) = p.
Proof. exact inverse_general. Qed.
Theorem C13_bring_to_origin_inverse : forall m r a center p, reverse_mode m = Some r ->
  bring_to_origin m a center (rotate m a p vzero center) = Some p.
Proof. exact bring_to_origin_inverse. Qed.
Theorem C13_bring_to_origin_defined : forall m, (exists r, reverse_mode m = Some r) <-> m <> XZY.
Proof. exact bring_to_origin_defined. Qed.
(* NumPy and PyTorch: NumPy's rotate_points (with its zero-angle shortcut) computes the same function as
   the general formula that NumPy's rotate_point and PyTorch's rotate_points use *)
Theorem C13_numpy_torch_same : forall m a p o f, np_rotate_points m a p o f = rotate m a p o f.
Proof. exact np_fast_path_consistent. Qed.
(* angles are in degrees: whole turns change nothing, quarter turns are exact *)
Theorem C13_deg_period : forall m a p o f kx ky kz,
  rotate m (vx a + 360 * IZR kx, vy a + 360 * IZR ky, vz a + 360 * IZR kz) p o f = rotate m a p o f.
Proof. exact deg_period. Qed.
Theorem C13_deg_period_axis : forall a k, rotmatx (a + 360 * IZR k) = rotmatx a /\ rotmaty (a + 360 * IZR k) = rotmaty a /\
  rotmatz (a + 360 * IZR k) = rotmatz a.
Proof. exact deg_period_axis. Qed.
Theorem C13_right_angles :
  rotmatz 90 = ((0, -1, 0), (1, 0, 0), (0, 0, 1)) /\ rotmatx 90 = ((1, 0, 0), (0, 0, -1), (0, 1, 0)) /\
  rotmaty 90 = ((0, 0, 1), (0, 1, 0), (-1, 0, 0)) /\ rotmatz 180 = ((-1, 0, 0), (0, -1, 0), (0, 0, 1)) /\
  rotmatx 360 = I3 /\ rotmaty 360 = I3 /\ rotmatz 360 = I3 /\ rotmatz (-90) = ((0, 1, 0), (-1, 0, 0), (0, 0, 1)).
Proof. exact right_angles. Qed.
(* tilt_towards: its angles turn the z axis into the unit vector from lookat to location *)
Theorem C13_tilt_towards_points : forall location lookat, 0 < vnorm2 (vsub location lookat) ->
  rotate XYZ (tilt_towards location lookat) (0, 0, 1) vzero vzero
  = vscale (/ vnorm (vsub location lookat)) (vsub location lookat).
Proof. exact tilt_towards_points. Qed.
(* the mirror over Q that the correspondence executes inside Coq computes the real model *)
Theorem C13_qrotate_sound : forall m cx sx cy sy cz sz p o f,
  Q2V (qrotate m ((cx, sx), (cy, sy), (cz, sz)) p o f)
  = rotate_with m (Rx (Q2R cx) (Q2R sx)) (Ry (Q2R cy) (Q2R sy)) (Rz (Q2R cz) (Q2R sz)) (Q2V p) (Q2V o) (Q2V f).
Proof. exact qrotate_sound. Qed.
Theorem C13_qnp_rotate_points_sound : forall m (zero : bool) cx sx cy sy cz sz p o f,
  (zero = true -> Q2R cx = 1 /\ Q2R sx = 0 /\ Q2R cy = 1 /\ Q2R sy = 0 /\ Q2R cz = 1 /\ Q2R sz = 0) ->
  Q2V (qnp_rotate_points m zero ((cx, sx), (cy, sy), (cz, sz)) p o f)
  = rotate_with m (Rx (Q2R cx) (Q2R sx)) (Ry (Q2R cy) (Q2R sy)) (Rz (Q2R cz) (Q2R sz)) (Q2V p) (Q2V o) (Q2V f).
Proof. exact qnp_rotate_points_sound. Qed.
Theorem C13_qclose_sound : forall tol a b, qclose tol a b = true ->
  Rabs (vx (Q2V a) - vx (Q2V b)) <= Q2R tol /\ Rabs (vy (Q2V a) - vy (Q2V b)) <= Q2R tol /\ Rabs (vz (Q2V a) - vz (Q2V b)) <= Q2R tol.
Proof. exact qclose_sound. Qed.

(* non-vacuity: a quarter turn about z carries e_x to e_y; the hypotheses used above are satisfiable *)
Example C13_instance :
  rotate XYZ (0, 0, 90) (1, 0, 0) vzero vzero = (0, 1, 0) /\ reverse_mode XYZ = Some ZYX /\
  0 < vnorm2 (vsub (0, 0, 1) vzero) /\ (3 / 5) * (3 / 5) + (4 / 5) * (4 / 5) = 1.
Proof.
  split; [| split; [reflexivity | split; [unfold vnorm2, vzero; v3; Lra.lra | Lra.lra]]].
  destruct (mode_XYZ (0, 0, 90) (1, 0, 0)) as [_ E]. rewrite E. cbn [vx vy vz fst snd].
  rewrite rotmatx_0, rotmaty_0, !mapply_I3. destruct right_angles as [E90 _]. rewrite E90.
  unfold mapply, row1, row2, row3; v3. repeat apply f_equal2; Lra.lra.
Qed.
