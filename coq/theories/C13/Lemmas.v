(* C13 — proofs about the rotation model. *)
From Coq Require Import Reals Lra Nsatz Psatz QArith Qreals Bool String List ZArith.
From OdakV Require Import Base.RealAux Base.Vec3 C13.Model.
Open Scope R_scope.

Ltac m3 := repeat progress (unfold orthonormal, mmul, mtr, mapply, mdet, I3, Rx, Ry, Rz, col1, col2, col3,
                            row1, row2, row3, vneg, dist2, vzero in *; v3).
Ltac dv p := let a := fresh p "x" in let b := fresh p "y" in let c := fresh p "z" in destruct p as [[a b] c].
Ltac dm A := let r1 := fresh A "r" in let r2 := fresh A "s" in let r3 := fresh A "t" in
             destruct A as [[r1 r2] r3]; dv r1; dv r2; dv r3.
Ltac teq := repeat match goal with |- (_, _) = (_, _) => apply f_equal2 end.

(* ---- matrix algebra ------------------------------------------------------------------ *)
Lemma mapply_mmul A B v : mapply (mmul A B) v = mapply A (mapply B v).
Proof. dm A; dm B; dv v; m3; teq; ring. Qed.
Lemma row_assoc B C r : mapply (mtr C) (mapply (mtr B) r) = mapply (mtr (mmul B C)) r.
Proof. dm B; dm C; dv r; m3; teq; ring. Qed.
Lemma mmul_assoc A B C : mmul (mmul A B) C = mmul A (mmul B C).
Proof.
  destruct A as [[r1 r2] r3].
  change (mmul (mmul (r1, r2, r3) B) C) with
    (mapply (mtr C) (mapply (mtr B) r1), mapply (mtr C) (mapply (mtr B) r2), mapply (mtr C) (mapply (mtr B) r3)).
  rewrite !row_assoc. reflexivity.
Qed.
Lemma mtr_mmul A B : mtr (mmul A B) = mmul (mtr B) (mtr A).
Proof. dm A; dm B; m3; teq; ring. Qed.
Lemma mtr_mtr A : mtr (mtr A) = A.
Proof. dm A; m3; reflexivity. Qed.
Lemma mmul_I3_l A : mmul I3 A = A.
Proof. dm A; m3; teq; ring. Qed.
Lemma mmul_I3_r A : mmul A I3 = A.
Proof. dm A; m3; teq; ring. Qed.
Lemma mapply_I3 v : mapply I3 v = v.
Proof. dv v; m3; teq; ring. Qed.
Lemma mdet_mmul A B : mdet (mmul A B) = mdet A * mdet B.
Proof. dm A; dm B; m3; ring. Qed.
Lemma mdet_I3 : mdet I3 = 1.
Proof. m3; ring. Qed.
Lemma mdet_mtr A : mdet (mtr A) = mdet A.
Proof. dm A; m3; ring. Qed.
Lemma mapply_sub A p q : mapply A (vsub p q) = vsub (mapply A p) (mapply A q).
Proof. dm A; dv p; dv q; m3; teq; ring. Qed.
Lemma mapply_zero A : mapply A vzero = vzero.
Proof. dm A; m3; teq; ring. Qed.
Lemma vdot_mapply A u v : vdot (mapply A u) (mapply A v) = vdot u (mapply (mmul (mtr A) A) v).
Proof. dm A; dv u; dv v; m3; ring. Qed.

Lemma orth_I3 : orthonormal I3.
Proof. split; m3; teq; ring. Qed.
Lemma orth_mtr A : orthonormal A -> orthonormal (mtr A).
Proof. intros [H1 H2]; split; rewrite mtr_mtr; assumption. Qed.
Lemma orth_mmul A B : orthonormal A -> orthonormal B -> orthonormal (mmul A B).
Proof.
  intros [A1 A2] [B1 B2]; split; rewrite mtr_mmul.
  - rewrite mmul_assoc, <- (mmul_assoc (mtr A) A B), A1, mmul_I3_l; exact B1.
  - rewrite mmul_assoc, <- (mmul_assoc B (mtr B) (mtr A)), B2, mmul_I3_l; exact A2.
Qed.
(* orthonormal matrices preserve dot products, lengths and distances *)
Lemma orth_dot A u v : orthonormal A -> vdot (mapply A u) (mapply A v) = vdot u v.
Proof. intros [H _]. rewrite vdot_mapply, H, mapply_I3. reflexivity. Qed.
Lemma orth_norm2 A v : orthonormal A -> vnorm2 (mapply A v) = vnorm2 v.
Proof. intros H. unfold vnorm2. apply orth_dot, H. Qed.
Lemma orth_cancel A v : orthonormal A -> mapply (mtr A) (mapply A v) = v.
Proof. intros [H _]. rewrite <- mapply_mmul, H. apply mapply_I3. Qed.
Lemma orth_det_sq A : orthonormal A -> mdet A * mdet A = 1.
Proof. intros [H _]. rewrite <- (mdet_mtr A) at 1. rewrite <- mdet_mmul, H. apply mdet_I3. Qed.

(* ---- axis rotations for ANY pair with c^2 + s^2 = 1 ---------------------------------------- *)
Section CS.
Variables c s : R.
Hypothesis unit : c * c + s * s = 1.
Lemma Rx_orth : orthonormal (Rx c s). Proof. split; m3; teq; nsatz. Qed.
Lemma Ry_orth : orthonormal (Ry c s). Proof. split; m3; teq; nsatz. Qed.
Lemma Rz_orth : orthonormal (Rz c s). Proof. split; m3; teq; nsatz. Qed.
Lemma Rx_det1 : mdet (Rx c s) = 1. Proof. m3; nsatz. Qed.
Lemma Ry_det1 : mdet (Ry c s) = 1. Proof. m3; nsatz. Qed.
Lemma Rz_det1 : mdet (Rz c s) = 1. Proof. m3; nsatz. Qed.
End CS.
Lemma Rx_neg c s : Rx c (- s) = mtr (Rx c s). Proof. m3; teq; ring. Qed.
Lemma Ry_neg c s : Ry c (- s) = mtr (Ry c s). Proof. m3; teq; ring. Qed.
Lemma Rz_neg c s : Rz c (- s) = mtr (Rz c s). Proof. m3; teq; ring. Qed.
Lemma Rx_id : Rx 1 0 = I3. Proof. m3; teq; ring. Qed.
Lemma Ry_id : Ry 1 0 = I3. Proof. m3; teq; ring. Qed.
Lemma Rz_id : Rz 1 0 = I3. Proof. m3; teq; ring. Qed.

(* ---- modes ------------------------------------------------------------------------------- *)
(* applying the axis rotations one after the other = applying the stated product *)
Lemma seq_is_product m X Y Z p : seq_apply m X Y Z p = mapply (mode_product m X Y Z) p.
Proof. destruct m; unfold seq_apply, mode_product; rewrite !mapply_mmul; reflexivity. Qed.
Lemma mode_product_orth m X Y Z : orthonormal X -> orthonormal Y -> orthonormal Z -> orthonormal (mode_product m X Y Z).
Proof. intros; destruct m; unfold mode_product; repeat apply orth_mmul; assumption. Qed.
Lemma mode_product_det1 m X Y Z : mdet X = 1 -> mdet Y = 1 -> mdet Z = 1 -> mdet (mode_product m X Y Z) = 1.
Proof. intros Hx Hy Hz; destruct m; unfold mode_product; rewrite !mdet_mmul, Hx, Hy, Hz; ring. Qed.

Lemma rotate_with_product m X Y Z p o f :
  rotate_with m X Y Z p o f = vadd (vadd (mapply (mode_product m X Y Z) (vsub p o)) o) f.
Proof. unfold rotate_with. rewrite seq_is_product. reflexivity. Qed.
Lemma vadd_cancel u v o f : vsub (vadd (vadd u o) f) (vadd (vadd v o) f) = vsub u v.
Proof. dv u; dv v; dv o; dv f; v3; teq; ring. Qed.
Lemma vsub_sub p q o : vsub (vsub p o) (vsub q o) = vsub p q.
Proof. dv p; dv q; dv o; v3; teq; ring. Qed.
Lemma rotate_with_dist2 m X Y Z p q o f : orthonormal X -> orthonormal Y -> orthonormal Z ->
  dist2 (rotate_with m X Y Z p o f) (rotate_with m X Y Z q o f) = dist2 p q.
Proof.
  intros Hx Hy Hz. unfold dist2. rewrite !rotate_with_product, vadd_cancel, <- mapply_sub, vsub_sub.
  apply orth_norm2, mode_product_orth; assumption.
Qed.
Lemma rotate_with_origin m X Y Z o f : rotate_with m X Y Z o o f = vadd o f.
Proof.
  rewrite rotate_with_product. replace (vsub o o) with vzero by (dv o; m3; teq; ring).
  rewrite mapply_zero. dv o; dv f; m3; teq; ring.
Qed.
Lemma rotate_with_offset m X Y Z p o f : rotate_with m X Y Z p o f = vadd (rotate_with m X Y Z p o vzero) f.
Proof. unfold rotate_with. set (u := seq_apply _ _ _ _ _). dv u; dv o; dv f; m3; teq; ring. Qed.
Lemma rotate_with_id m p o f : rotate_with m I3 I3 I3 p o f = vadd p f.
Proof.
  rewrite rotate_with_product.
  replace (mode_product m I3 I3 I3) with I3 by (destruct m; unfold mode_product; rewrite !mmul_I3_l; reflexivity).
  rewrite mapply_I3. dv p; dv o; dv f; m3; teq; ring.
Qed.

(* ---- angles in degrees -------------------------------------------------------------------- *)
Lemma cs_unit x : cos x * cos x + sin x * sin x = 1.
Proof. pose proof (sin2_cos2 x) as H. unfold Rsqr in H. lra. Qed.
Lemma rad_neg a : rad (- a) = - rad a. Proof. unfold rad; ring. Qed.
Lemma rad_0 : rad 0 = 0. Proof. unfold rad; ring. Qed.
Lemma rad_deg r : rad (deg r) = r. Proof. unfold rad, deg; field; apply PI_neq0. Qed.
Lemma rad_period a k : rad (a + 360 * IZR k) = rad a + 2 * IZR k * PI.
Proof. unfold rad; field. Qed.

Lemma rotmatx_orth a : orthonormal (rotmatx a). Proof. apply Rx_orth, cs_unit. Qed.
Lemma rotmaty_orth a : orthonormal (rotmaty a). Proof. apply Ry_orth, cs_unit. Qed.
Lemma rotmatz_orth a : orthonormal (rotmatz a). Proof. apply Rz_orth, cs_unit. Qed.
Lemma rotmatx_det1 a : mdet (rotmatx a) = 1. Proof. apply Rx_det1, cs_unit. Qed.
Lemma rotmaty_det1 a : mdet (rotmaty a) = 1. Proof. apply Ry_det1, cs_unit. Qed.
Lemma rotmatz_det1 a : mdet (rotmatz a) = 1. Proof. apply Rz_det1, cs_unit. Qed.
Lemma rotmatx_0 : rotmatx 0 = I3. Proof. unfold rotmatx; rewrite rad_0, cos_0, sin_0; apply Rx_id. Qed.
Lemma rotmaty_0 : rotmaty 0 = I3. Proof. unfold rotmaty; rewrite rad_0, cos_0, sin_0; apply Ry_id. Qed.
Lemma rotmatz_0 : rotmatz 0 = I3. Proof. unfold rotmatz; rewrite rad_0, cos_0, sin_0; apply Rz_id. Qed.
Lemma rotmatx_neg a : rotmatx (- a) = mtr (rotmatx a).
Proof. unfold rotmatx; rewrite rad_neg, cos_neg, sin_neg; apply Rx_neg. Qed.
Lemma rotmaty_neg a : rotmaty (- a) = mtr (rotmaty a).
Proof. unfold rotmaty; rewrite rad_neg, cos_neg, sin_neg; apply Ry_neg. Qed.
Lemma rotmatz_neg a : rotmatz (- a) = mtr (rotmatz a).
Proof. unfold rotmatz; rewrite rad_neg, cos_neg, sin_neg; apply Rz_neg. Qed.

Lemma axis_orthonormal a : orthonormal (rotmatx a) /\ orthonormal (rotmaty a) /\ orthonormal (rotmatz a).
Proof. split; [apply rotmatx_orth | split; [apply rotmaty_orth | apply rotmatz_orth]]. Qed.
Lemma axis_det1 a : mdet (rotmatx a) = 1 /\ mdet (rotmaty a) = 1 /\ mdet (rotmatz a) = 1.
Proof. split; [apply rotmatx_det1 | split; [apply rotmaty_det1 | apply rotmatz_det1]]. Qed.
(* the same for every (c, s) on the unit circle, the form the plan asks for *)
Lemma axis_cs_rigid c s : c * c + s * s = 1 ->
  (orthonormal (Rx c s) /\ mdet (Rx c s) = 1) /\ (orthonormal (Ry c s) /\ mdet (Ry c s) = 1) /\
  (orthonormal (Rz c s) /\ mdet (Rz c s) = 1).
Proof.
  intros H. split; [split; [apply Rx_orth | apply Rx_det1]; exact H | split; split].
  - apply Ry_orth, H.
  - apply Ry_det1, H.
  - apply Rz_orth, H.
  - apply Rz_det1, H.
Qed.

Lemma rotation_matrix_orth m a : orthonormal (rotation_matrix m a).
Proof. apply mode_product_orth; [apply rotmatx_orth | apply rotmaty_orth | apply rotmatz_orth]. Qed.
Lemma rotation_matrix_det1 m a : mdet (rotation_matrix m a) = 1.
Proof. apply mode_product_det1; [apply rotmatx_det1 | apply rotmaty_det1 | apply rotmatz_det1]. Qed.
Lemma products_cs_rigid m cx sx cy sy cz sz : cx * cx + sx * sx = 1 -> cy * cy + sy * sy = 1 -> cz * cz + sz * sz = 1 ->
  orthonormal (mode_product m (Rx cx sx) (Ry cy sy) (Rz cz sz)) /\ mdet (mode_product m (Rx cx sx) (Ry cy sy) (Rz cz sz)) = 1.
Proof.
  intros Hx Hy Hz; split.
  - apply mode_product_orth; [apply Rx_orth | apply Ry_orth | apply Rz_orth]; assumption.
  - apply mode_product_det1; [apply Rx_det1 | apply Ry_det1 | apply Rz_det1]; assumption.
Qed.

(* rotate_point(s) applies exactly the matrix get_rotation_matrix returns *)
Lemma rotate_is_matrix m a p o f : rotate m a p o f = vadd (vadd (mapply (rotation_matrix m a) (vsub p o)) o) f.
Proof. apply rotate_with_product. Qed.
Lemma rotate_dist2 m a p q o f : dist2 (rotate m a p o f) (rotate m a q o f) = dist2 p q.
Proof. apply rotate_with_dist2; [apply rotmatx_orth | apply rotmaty_orth | apply rotmatz_orth]. Qed.
Lemma rotate_dist m a p q o f : dist (rotate m a p o f) (rotate m a q o f) = dist p q.
Proof. unfold dist, vnorm. f_equal. apply rotate_dist2. Qed.
Lemma origin_fixed m a o : rotate m a o o vzero = o.
Proof. unfold rotate. rewrite rotate_with_origin. dv o; m3; teq; ring. Qed.
Lemma origin_to_offset m a o f : rotate m a o o f = vadd o f.
Proof. apply rotate_with_origin. Qed.
Lemma offset_translation m a p o f : rotate m a p o f = vadd (rotate m a p o vzero) f.
Proof. apply rotate_with_offset. Qed.
Lemma zero_angles_id m p o f : rotate m vzero p o f = vadd p f.
Proof. unfold rotate, vzero; v3. rewrite rotmatx_0, rotmaty_0, rotmatz_0. apply rotate_with_id. Qed.
Lemma zero_angles_matrix m : rotation_matrix m vzero = I3.
Proof.
  unfold rotation_matrix, vzero; v3. rewrite rotmatx_0, rotmaty_0, rotmatz_0.
  destruct m; unfold mode_product; rewrite !mmul_I3_l; reflexivity.
Qed.

(* the NumPy fast path returns what the general path would *)
Lemma all_zero_true a : all_zero a = true -> a = vzero.
Proof.
  unfold all_zero. rewrite !andb_true_iff, !Reqb_true. intros [[H1 H2] H3].
  dv a; v3. subst. reflexivity.
Qed.
Lemma np_fast_path_consistent m a p o f : np_rotate_points m a p o f = rotate m a p o f.
Proof.
  unfold np_rotate_points. destruct (all_zero a) eqn:E; [|reflexivity].
  apply all_zero_true in E. subst a. rewrite zero_angles_id. dv p; dv f; v3; teq; ring.
Qed.

Lemma vsub_zero v : vsub v vzero = v. Proof. dv v; m3; teq; ring. Qed.
Lemma vadd_zero v : vadd (vadd v vzero) vzero = v. Proof. dv v; m3; teq; ring. Qed.
(* the five modes, spelled out *)
Lemma mode_XYZ a p : rotate XYZ a p vzero vzero = mapply (mmul (rotmatz (vz a)) (mmul (rotmaty (vy a)) (rotmatx (vx a)))) p
  /\ rotate XYZ a p vzero vzero = mapply (rotmatz (vz a)) (mapply (rotmaty (vy a)) (mapply (rotmatx (vx a)) p)).
Proof. unfold rotate, rotate_with; rewrite vsub_zero, vadd_zero; split; [rewrite seq_is_product|]; reflexivity. Qed.
Lemma mode_XZY a p : rotate XZY a p vzero vzero = mapply (mmul (rotmaty (vy a)) (mmul (rotmatz (vz a)) (rotmatx (vx a)))) p
  /\ rotate XZY a p vzero vzero = mapply (rotmaty (vy a)) (mapply (rotmatz (vz a)) (mapply (rotmatx (vx a)) p)).
Proof. unfold rotate, rotate_with; rewrite vsub_zero, vadd_zero; split; [rewrite seq_is_product|]; reflexivity. Qed.
Lemma mode_YXZ a p : rotate YXZ a p vzero vzero = mapply (mmul (rotmatz (vz a)) (mmul (rotmatx (vx a)) (rotmaty (vy a)))) p
  /\ rotate YXZ a p vzero vzero = mapply (rotmatz (vz a)) (mapply (rotmatx (vx a)) (mapply (rotmaty (vy a)) p)).
Proof. unfold rotate, rotate_with; rewrite vsub_zero, vadd_zero; split; [rewrite seq_is_product|]; reflexivity. Qed.
Lemma mode_ZXY a p : rotate ZXY a p vzero vzero = mapply (mmul (rotmaty (vy a)) (mmul (rotmatx (vx a)) (rotmatz (vz a)))) p
  /\ rotate ZXY a p vzero vzero = mapply (rotmaty (vy a)) (mapply (rotmatx (vx a)) (mapply (rotmatz (vz a)) p)).
Proof. unfold rotate, rotate_with; rewrite vsub_zero, vadd_zero; split; [rewrite seq_is_product|]; reflexivity. Qed.
Lemma mode_ZYX a p : rotate ZYX a p vzero vzero = mapply (mmul (rotmatx (vx a)) (mmul (rotmaty (vy a)) (rotmatz (vz a)))) p
  /\ rotate ZYX a p vzero vzero = mapply (rotmatx (vx a)) (mapply (rotmaty (vy a)) (mapply (rotmatz (vz a)) p)).
Proof. unfold rotate, rotate_with; rewrite vsub_zero, vadd_zero; split; [rewrite seq_is_product|]; reflexivity. Qed.
(* the modes are genuinely different orders: XYZ and ZYX disagree on a concrete input *)
Lemma modes_differ : rotate XYZ (90, 90, 0) (0, 1, 0) vzero vzero <> rotate ZYX (90, 90, 0) (0, 1, 0) vzero vzero.
Proof.
  unfold rotate, rotate_with, seq_apply, rotmatx, rotmaty, rotmatz, vzero; v3.
  replace (rad 90) with (PI / 2) by (unfold rad; field). rewrite rad_0, cos_0, sin_0, cos_PI2, sin_PI2.
  m3. intros E. inversion E as [[E1 E2 E3]]. lra.
Qed.

(* ---- inverse by negated angles and the reversed mode ------------------------------------------ *)
Lemma reverse_mode_table :
  reverse_mode XYZ = Some ZYX /\ reverse_mode ZYX = Some XYZ /\ reverse_mode YXZ = Some ZXY /\
  reverse_mode ZXY = Some YXZ /\ reverse_mode XZY = None.
Proof. repeat split; reflexivity. Qed.
Lemma vneg_proj a : vx (vneg a) = - vx a /\ vy (vneg a) = - vy a /\ vz (vneg a) = - vz a.
Proof. dv a; m3; repeat split; reflexivity. Qed.
Lemma seq_inverse m r X Y Z v : reverse_mode m = Some r -> orthonormal X -> orthonormal Y -> orthonormal Z ->
  seq_apply r (mtr X) (mtr Y) (mtr Z) (seq_apply m X Y Z v) = v.
Proof.
  intros Hr Hx Hy Hz.
  destruct m; vm_compute in Hr; inversion Hr; subst r; unfold seq_apply; rewrite !orth_cancel; auto.
Qed.
Lemma inverse_reversed m r a p : reverse_mode m = Some r ->
  rotate r (vneg a) (rotate m a p vzero vzero) vzero vzero = p.
Proof.
  intros Hr. unfold rotate, rotate_with. destruct (vneg_proj a) as (E1 & E2 & E3). rewrite E1, E2, E3.
  rewrite rotmatx_neg, rotmaty_neg, rotmatz_neg, !vsub_zero, !vadd_zero.
  apply seq_inverse; [exact Hr | apply rotmatx_orth | apply rotmaty_orth | apply rotmatz_orth].
Qed.
(* with an origin and an offset: undo the offset, rotate back about the same origin *)
Lemma inverse_general m r a p o f : reverse_mode m = Some r ->
  rotate r (vneg a) (rotate m a p o f) (vadd o f) (vneg f) = p.
Proof.
  intros Hr. unfold rotate, rotate_with. destruct (vneg_proj a) as (E1 & E2 & E3). rewrite E1, E2, E3.
  rewrite rotmatx_neg, rotmaty_neg, rotmatz_neg.
  set (u := seq_apply m _ _ _ _).
  replace (vsub (vadd (vadd u o) f) (vadd o f)) with u by (dv u; dv o; dv f; m3; teq; ring).
  unfold u. rewrite seq_inverse; [| exact Hr | apply rotmatx_orth | apply rotmaty_orth | apply rotmatz_orth].
  dv p; dv o; dv f; m3; teq; ring.
Qed.
(* bring_plane_to_origin undoes "rotate about the plane's own origin, then move to center" *)
Lemma bring_to_origin_inverse m r a center p : reverse_mode m = Some r ->
  bring_to_origin m a center (rotate m a p vzero center) = Some p.
Proof.
  intros Hr. unfold bring_to_origin. rewrite Hr, np_fast_path_consistent. f_equal.
  replace (vsub (rotate m a p vzero center) center) with (rotate m a p vzero vzero).
  - apply inverse_reversed, Hr.
  - rewrite (offset_translation m a p vzero center). set (u := rotate m a p vzero vzero). dv u; dv center; m3; teq; ring.
Qed.
Lemma bring_to_origin_defined m : (exists r, reverse_mode m = Some r) <-> m <> XZY.
Proof.
  split.
  - intros [r Hr] E. subst m. vm_compute in Hr. discriminate.
  - intros H. destruct m; try (eexists; reflexivity). congruence.
Qed.

(* ---- periodicity and the right angles -------------------------------------------------------- *)
Lemma cos_periodZ x k : cos (x + 2 * IZR k * PI) = cos x.
Proof.
  destruct (Z_le_gt_dec 0 k) as [H|H].
  - rewrite <- (Z2Nat.id k H), <- INR_IZR_INZ. apply cos_period.
  - assert (Hk : (0 <= - k)%Z) by lia.
    rewrite <- (cos_period (x + 2 * IZR k * PI) (Z.to_nat (- k))).
    rewrite INR_IZR_INZ, (Z2Nat.id _ Hk), opp_IZR. f_equal. ring.
Qed.
Lemma sin_periodZ x k : sin (x + 2 * IZR k * PI) = sin x.
Proof.
  destruct (Z_le_gt_dec 0 k) as [H|H].
  - rewrite <- (Z2Nat.id k H), <- INR_IZR_INZ. apply sin_period.
  - assert (Hk : (0 <= - k)%Z) by lia.
    rewrite <- (sin_period (x + 2 * IZR k * PI) (Z.to_nat (- k))).
    rewrite INR_IZR_INZ, (Z2Nat.id _ Hk), opp_IZR. f_equal. ring.
Qed.
Lemma deg_period_axis a k : rotmatx (a + 360 * IZR k) = rotmatx a /\ rotmaty (a + 360 * IZR k) = rotmaty a /\
  rotmatz (a + 360 * IZR k) = rotmatz a.
Proof. unfold rotmatx, rotmaty, rotmatz. rewrite rad_period, cos_periodZ, sin_periodZ. auto. Qed.
Lemma deg_period m a p o f kx ky kz :
  rotate m (vx a + 360 * IZR kx, vy a + 360 * IZR ky, vz a + 360 * IZR kz) p o f = rotate m a p o f.
Proof.
  unfold rotate; cbn [vx vy vz fst snd].
  destruct (deg_period_axis (vx a) kx) as (E & _ & _), (deg_period_axis (vy a) ky) as (_ & E' & _), (deg_period_axis (vz a) kz) as (_ & _ & E'').
  rewrite E, E', E''. reflexivity.
Qed.
Lemma right_angles :
  rotmatz 90 = ((0, -1, 0), (1, 0, 0), (0, 0, 1)) /\ rotmatx 90 = ((1, 0, 0), (0, 0, -1), (0, 1, 0)) /\
  rotmaty 90 = ((0, 0, 1), (0, 1, 0), (-1, 0, 0)) /\ rotmatz 180 = ((-1, 0, 0), (0, -1, 0), (0, 0, 1)) /\
  rotmatx 360 = I3 /\ rotmaty 360 = I3 /\ rotmatz 360 = I3 /\ rotmatz (-90) = ((0, 1, 0), (-1, 0, 0), (0, 0, 1)).
Proof.
  assert (E90 : rad 90 = PI / 2) by (unfold rad; field).
  assert (E180 : rad 180 = PI) by (unfold rad; field).
  assert (E360 : forall f : R -> M3, f 360 = f (0 + 360 * IZR 1)) by (intros; f_equal; ring).
  repeat split.
  - unfold rotmatz. rewrite E90, cos_PI2, sin_PI2. m3; teq; ring.
  - unfold rotmatx. rewrite E90, cos_PI2, sin_PI2. m3; teq; ring.
  - unfold rotmaty. rewrite E90, cos_PI2, sin_PI2. m3; teq; ring.
  - unfold rotmatz. rewrite E180, cos_PI, sin_PI. m3; teq; ring.
  - rewrite (E360 rotmatx). destruct (deg_period_axis 0 1) as (E & _ & _). rewrite E. apply rotmatx_0.
  - rewrite (E360 rotmaty). destruct (deg_period_axis 0 1) as (_ & E & _). rewrite E. apply rotmaty_0.
  - rewrite (E360 rotmatz). destruct (deg_period_axis 0 1) as (_ & _ & E). rewrite E. apply rotmatz_0.
  - replace (-90) with (- (90)) by lra. rewrite rotmatz_neg. unfold rotmatz. rewrite E90, cos_PI2, sin_PI2. m3; teq; ring.
Qed.

(* ---- tilt_towards ------------------------------------------------------------------------------ *)
Lemma hyp_pos x y : x <> 0 \/ y <> 0 -> 0 < x * x + y * y.
Proof. intros [H|H]; nra. Qed.
Lemma sqrt_ratio x y : x <> 0 -> sqrt (1 + (y / x)²) = sqrt (x * x + y * y) / Rabs x.
Proof.
  intros Hx. replace (1 + (y / x)²) with ((x * x + y * y) / (x * x)) by (unfold Rsqr; field; exact Hx).
  rewrite sqrt_div_alt by nra. f_equal. replace (x * x) with (Rsqr x) by reflexivity. apply sqrt_Rsqr_abs.
Qed.
Lemma cos_atan2 y x : x <> 0 \/ y <> 0 -> cos (atan2 y x) = x / sqrt (x * x + y * y).
Proof.
  intros Hnz. pose proof (hyp_pos x y Hnz) as Hp.
  assert (Hs : 0 < sqrt (x * x + y * y)) by (apply sqrt_lt_R0; exact Hp).
  unfold atan2. destruct (Rlt_dec 0 x) as [Hx|Hx].
  - rewrite cos_atan, sqrt_ratio by lra. rewrite Rabs_pos_eq by lra. field. split; lra.
  - destruct (Rlt_dec x 0) as [Hx'|Hx'].
    + destruct (Rle_dec 0 y).
      * rewrite neg_cos, cos_atan, sqrt_ratio by lra. rewrite Rabs_left by lra. field. split; lra.
      * replace (atan (y / x) - PI) with (- (- atan (y / x) + PI)) by ring.
        rewrite cos_neg, neg_cos, cos_neg, cos_atan, sqrt_ratio by lra. rewrite Rabs_left by lra. field. split; lra.
    + assert (x = 0) by lra. subst x. unfold Rdiv. rewrite Rmult_0_l.
      destruct (Rlt_dec 0 y); [apply cos_PI2|]. destruct (Rlt_dec y 0); [rewrite cos_neg; apply cos_PI2|].
      exfalso. destruct Hnz; lra.
Qed.
Lemma sin_atan2 y x : x <> 0 \/ y <> 0 -> sin (atan2 y x) = y / sqrt (x * x + y * y).
Proof.
  intros Hnz. pose proof (hyp_pos x y Hnz) as Hp.
  assert (Hs : 0 < sqrt (x * x + y * y)) by (apply sqrt_lt_R0; exact Hp).
  unfold atan2. destruct (Rlt_dec 0 x) as [Hx|Hx].
  - rewrite sin_atan, sqrt_ratio by lra. rewrite Rabs_pos_eq by lra. field. split; lra.
  - destruct (Rlt_dec x 0) as [Hx'|Hx'].
    + destruct (Rle_dec 0 y).
      * rewrite neg_sin, sin_atan, sqrt_ratio by lra. rewrite Rabs_left by lra. field. split; lra.
      * replace (atan (y / x) - PI) with (- (- atan (y / x) + PI)) by ring.
        rewrite sin_neg, neg_sin, sin_neg, sin_atan, sqrt_ratio by lra. rewrite Rabs_left by lra. field. split; lra.
    + assert (x = 0) by lra. subst x. replace (0 * 0 + y * y) with (y * y) in * by ring.
      destruct (Rlt_dec 0 y) as [Hy|Hy].
      * rewrite sin_PI2, sqrt_square by lra. field. lra.
      * destruct (Rlt_dec y 0) as [Hy'|Hy'].
        -- rewrite sin_neg, sin_PI2. replace (y * y) with ((- y) * (- y)) by ring. rewrite sqrt_square by lra. field. lra.
        -- exfalso. destruct Hnz; lra.
Qed.
Lemma tilt_core dx dy dz : 0 < dx * dx + dy * dy + dz * dz ->
  let N := sqrt (dx ^ 2 + dy ^ 2 + dz ^ 2) in
  let th := acos (dz / N) in let ph := atan2 dy dx in
  cos ph * sin th = dx / N /\ sin ph * sin th = dy / N /\ cos th = dz / N.
Proof.
  intros Hp N th ph.
  assert (HN2 : N * N = dx * dx + dy * dy + dz * dz).
  { unfold N. rewrite sqrt_sqrt; [ring | nra]. }
  assert (HN : 0 < N) by (unfold N; apply sqrt_lt_R0; nra).
  assert (Hq : dz / N * N = dz) by (field; lra).
  assert (H1 : dz <= N) by nra.
  assert (H2 : - N <= dz) by nra.
  assert (Hb : -1 <= dz / N <= 1).
  { split; apply Rmult_le_reg_r with N; try lra; rewrite Hq; lra. }
  assert (Hs : sin th = sqrt (dx * dx + dy * dy) / N).
  { unfold th. rewrite sin_acos by exact Hb.
    replace (1 - (dz / N)²) with ((dx * dx + dy * dy) / (N * N)) by (replace (dx * dx + dy * dy) with (N * N - dz * dz) by lra; unfold Rsqr; field; lra).
    rewrite sqrt_div_alt by nra. rewrite sqrt_square by lra. reflexivity. }
  assert (Hc : cos th = dz / N) by (unfold th; apply cos_acos, Hb).
  destruct (Req_dec dx 0) as [Hx|Hx]; [destruct (Req_dec dy 0) as [Hy|Hy]|].
  - subst dx dy. rewrite Hs. replace (0 * 0 + 0 * 0) with 0 by ring. rewrite sqrt_0.
    repeat split; [field; lra | field; lra | exact Hc].
  - assert (Hr : 0 < sqrt (dx * dx + dy * dy)) by (apply sqrt_lt_R0; nra).
    unfold ph. rewrite cos_atan2, sin_atan2, Hs by (right; exact Hy).
    repeat split; [field; lra | field; lra | exact Hc].
  - assert (Hr : 0 < sqrt (dx * dx + dy * dy)) by (apply sqrt_lt_R0; nra).
    unfold ph. rewrite cos_atan2, sin_atan2, Hs by (left; exact Hx).
    repeat split; [field; lra | field; lra | exact Hc].
Qed.
(* turning the z axis by the angles tilt_towards returns (default mode) gives the unit vector lookat -> location *)
Lemma tilt_towards_points location lookat :
  0 < vnorm2 (vsub location lookat) ->
  rotate XYZ (tilt_towards location lookat) (0, 0, 1) vzero vzero
  = vscale (/ vnorm (vsub location lookat)) (vsub location lookat).
Proof.
  dv location; dv lookat. unfold tilt_towards. set (d := vsub _ _). intros Hp.
  assert (Hd : d = (locationx - lookatx, locationy - lookaty, locationz - lookatz)) by reflexivity.
  set (dx := locationx - lookatx) in *. set (dy := locationy - lookaty) in *. set (dz := locationz - lookatz) in *.
  rewrite Hd in *. clear Hd d. unfold vnorm, vnorm2 in *. v3.
  destruct (tilt_core dx dy dz Hp) as (E1 & E2 & E3).
  replace (sqrt (dx * dx + dy * dy + dz * dz)) with (sqrt (dx ^ 2 + dy ^ 2 + dz ^ 2)) by (f_equal; ring).
  set (N := sqrt (dx ^ 2 + dy ^ 2 + dz ^ 2)) in *.
  unfold rotate, rotate_with, seq_apply; v3. rewrite rotmatx_0.
  unfold rotmaty, rotmatz. rewrite !rad_deg.
  set (th := acos (dz / N)) in *. set (ph := atan2 dy dx) in *.
  m3. teq.
  - transitivity (cos ph * sin th); [ring | rewrite E1; field].
    intros E; unfold N in E; apply sqrt_eq_0 in E; nra.
  - transitivity (sin ph * sin th); [ring | rewrite E2; field].
    intros E; unfold N in E; apply sqrt_eq_0 in E; nra.
  - transitivity (cos th); [ring | rewrite E3; field].
    intros E; unfold N in E; apply sqrt_eq_0 in E; nra.
Qed.
Lemma tilt_first_zero location lookat : vx (tilt_towards location lookat) = 0.
Proof. reflexivity. Qed.

(* ---- the executable mirror over Q computes the real model --------------------------------------- *)
Definition Q2V (v : QV3) : V3 := (Q2R (qx v), Q2R (qy v), Q2R (qz v)).
Ltac q2r := repeat (rewrite Q2R_plus || rewrite Q2R_mult || rewrite Q2R_opp || rewrite Q2R_minus);
            rewrite ?RMicromega.Q2R_0, ?RMicromega.Q2R_1.
Definition Q2M (A : QM3) : M3 := (Q2V (fst (fst A)), Q2V (snd (fst A)), Q2V (snd A)).
Ltac qopen := unfold Q2M, Q2V, qapply, qadd, qsub, qdot, qRx, qRy, qRz, qx, qy, qz; cbn [fst snd].
Lemma Q2R_Qred q : Q2R (Qred q) = Q2R q.
Proof. apply Qeq_eqR, Qred_correct. Qed.
Lemma qapply_sound A v : Q2V (qapply A v) = mapply (Q2M A) (Q2V v).
Proof.
  destruct A as [[[[a b] c] [[d e] f]] [[g h] i]], v as [[v1 v2] v3]. qopen; m3; rewrite !Q2R_Qred; q2r; reflexivity.
Qed.
Lemma qadd_sound a b : Q2V (qadd a b) = vadd (Q2V a) (Q2V b).
Proof. destruct a as [[? ?] ?], b as [[? ?] ?]. qopen; v3; q2r; reflexivity. Qed.
Lemma qsub_sound a b : Q2V (qsub a b) = vsub (Q2V a) (Q2V b).
Proof. destruct a as [[? ?] ?], b as [[? ?] ?]. qopen; v3; q2r; reflexivity. Qed.
Lemma qRx_sound c s : Q2M (qRx c s) = Rx (Q2R c) (Q2R s).
Proof. qopen; unfold Rx; q2r; reflexivity. Qed.
Lemma qRy_sound c s : Q2M (qRy c s) = Ry (Q2R c) (Q2R s).
Proof. qopen; unfold Ry; q2r; reflexivity. Qed.
Lemma qRz_sound c s : Q2M (qRz c s) = Rz (Q2R c) (Q2R s).
Proof. qopen; unfold Rz; q2r; reflexivity. Qed.
Lemma qseq_apply_sound m X Y Z p : Q2V (qseq_apply m X Y Z p) = seq_apply m (Q2M X) (Q2M Y) (Q2M Z) (Q2V p).
Proof. destruct m; unfold qseq_apply, seq_apply; rewrite !qapply_sound; reflexivity. Qed.
Lemma qrotate_sound m cx sx cy sy cz sz p o f :
  Q2V (qrotate m ((cx, sx), (cy, sy), (cz, sz)) p o f)
  = rotate_with m (Rx (Q2R cx) (Q2R sx)) (Ry (Q2R cy) (Q2R sy)) (Rz (Q2R cz) (Q2R sz)) (Q2V p) (Q2V o) (Q2V f).
Proof.
  unfold qrotate, rotate_with; cbn [fst snd].
  rewrite !qadd_sound, qseq_apply_sound, qsub_sound, qRx_sound, qRy_sound, qRz_sound. reflexivity.
Qed.
Lemma qnp_rotate_points_sound m (zero : bool) cx sx cy sy cz sz p o f :
  (zero = true -> Q2R cx = 1 /\ Q2R sx = 0 /\ Q2R cy = 1 /\ Q2R sy = 0 /\ Q2R cz = 1 /\ Q2R sz = 0) ->
  Q2V (qnp_rotate_points m zero ((cx, sx), (cy, sy), (cz, sz)) p o f)
  = rotate_with m (Rx (Q2R cx) (Q2R sx)) (Ry (Q2R cy) (Q2R sy)) (Rz (Q2R cz) (Q2R sz)) (Q2V p) (Q2V o) (Q2V f).
Proof.
  intros Hz. unfold qnp_rotate_points. destruct zero; [|apply qrotate_sound].
  destruct (Hz eq_refl) as (E1 & E2 & E3 & E4 & E5 & E6). rewrite E1, E2, E3, E4, E5, E6, Rx_id, Ry_id, Rz_id, rotate_with_id.
  destruct p as [[p1 p2] p3], f as [[f1 f2] f3]. unfold Q2V, qadd, qx, qy, qz; cbn [fst snd]; v3; q2r; teq; ring.
Qed.
Lemma qabs_le_sound a tol : qabs_le a tol = true -> Rabs (Q2R a) <= Q2R tol.
Proof.
  unfold qabs_le. rewrite andb_true_iff. intros [H1 H2].
  apply RMicromega.Qle_true in H1, H2. rewrite Q2R_opp in H2. apply Rabs_le. lra.
Qed.
Lemma qclose_sound tol a b : qclose tol a b = true ->
  Rabs (vx (Q2V a) - vx (Q2V b)) <= Q2R tol /\ Rabs (vy (Q2V a) - vy (Q2V b)) <= Q2R tol /\ Rabs (vz (Q2V a) - vz (Q2V b)) <= Q2R tol.
Proof.
  unfold qclose. rewrite !andb_true_iff. intros [[H1 H2] H3].
  apply qabs_le_sound in H1, H2, H3. rewrite Q2R_minus in H1, H2, H3. unfold Q2V; v3. auto.
Qed.
