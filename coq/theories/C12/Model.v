(* C12 — iterative geometric solvers terminate and flag what they cannot solve.  Definitions only.

   Three loops are modelled:
   1. the Newton loop of odak.learn.raytracing.refract (shared with C11: OdakV.C11.Model), here with the
      division by zero at the vertex made explicit (`Undefined`: the float code produces inf -> NaN there)
      and with the iteration count; `newton` without a cap is the UNREPAIRED loop (fuel = how long we watch),
      `refract_run` is the repaired function: TIR test, cap, flag for unconverged rays;
      a batch is a list of rows that leave the loop together;
   2. the secant loop of odak.raytracing.intersect_parametric with its counter `iter_no_limit`;
   3. the fixed-length optimiser loop of odak.learn.raytracing.intersect_w_sphere and its flag.
   An executable copy of 1. over Q (`newtonQ`, `refract_runQ`) is evaluated inside Coq by the harness on the
   inputs the implementation is run on; Lemmas.v proves it equal to the model over R. *)
From Coq Require Import Reals Bool List QArith Qreals.
From OdakV Require Import Base.RealAux Base.Vec3 C11.Model.
Import ListNotations.
Open Scope R_scope.

(* ------------------------------------------------------------------ 1. Newton / refract *)
Inductive outcome := Converged (t : R) | Undefined | OutOfFuel.

(* the loop `while eps > err: step` on one ray, watched for `fuel` iterations *)
Fixpoint newton (fuel : nat) (w a b err t : R) : outcome :=
  match fuel with
  | O => OutOfFuel
  | S f => if Reqb (t + a) 0 then Undefined
           else if Rltb err (step_size w a b t) then newton f w a b err (newton_step a b t)
           else Converged (newton_step a b t)
  end.
(* number of loop bodies executed *)
Fixpoint newton_steps (fuel : nat) (w a b err t : R) : nat :=
  match fuel with
  | O => O
  | S f => if Reqb (t + a) 0 then 1%nat
           else if Rltb err (step_size w a b t) then S (newton_steps f w a b err (newton_step a b t))
           else 1%nat
  end.
(* the unrepaired refract: no TIR test, no cap *)
Definition refract_unrepaired (fuel : nat) (w a b err : R) : outcome := newton fuel w a b err (rf_t0 a b).
(* the repaired refract on one ray: Some t = direction computed from t, None = NaN direction cosines *)
Definition refract_run (cap : nat) (w a b err : R) : option R :=
  if tir a b then None
  else match newton cap w a b err (rf_t0 a b) with Converged t => Some t | _ => None end.

(* a batch: rows (w, a, b, t); every row steps while ANY row is above the error and num < cap *)
Definition Row := (R * R * R * R)%type.
Definition row_eps (r : Row) : R := let '(w, a, b, t) := r in step_size w a b t.
Definition row_step (r : Row) : Row := let '(w, a, b, t) := r in (w, a, b, newton_step a b t).
Definition row_t (r : Row) : R := let '(_, _, _, t) := r in t.
(* state: the rows and their last `eps`; the code enters with eps = +inf for every row (any value above err here) *)
Fixpoint batch_loop (fuel : nat) (err : R) (rows : list Row) (eps : list R) : list Row * list R :=
  match fuel with
  | O => (rows, eps)
  | S f => if existsb (fun e => Rltb err e) eps
           then batch_loop f err (map row_step rows) (map row_eps rows)
           else (rows, eps)
  end.
(* what the epilogue writes for a row: its t, or NaN (None) when its own last step is still above err *)
Definition row_result (err : R) (r : Row) (e : R) : option R := if Rltb err e then None else Some (row_t r).

(* ------------------------------------------------------------------ 2. secant / intersect_parametric *)
Inductive sres := Hit (d : R) | Flagged | SOutOfFuel.
Definition secant_next (d0 d1 e0 e1 : R) : R := Rabs (d1 - e1 * (d1 - d0) / (e1 - e0)).
(* f: the surface function along the ray (distance -> error).  State of the python loop: distance = [d0, d1],
   error = [e0, e1], iter_no.  A zero denominator gives inf/NaN in floats, which the next iterations turn
   into the NaN test `return False`: modelled as Flagged at once. *)
Fixpoint secant (fuel : nat) (f : R -> R) (tol : R) (limit iter : nat) (d0 d1 e0 e1 : R) : sres * nat :=
  match fuel with
  | O => (SOutOfFuel, iter)
  | S k => if orb (Nat.eqb iter 0) (Rltb tol (Rabs e1)) then
             let e1' := f d1 in
             if Reqb (e1' - e0) 0 then (Flagged, S iter)
             else if Nat.ltb limit (S iter) then (Flagged, S iter)
             else secant k f tol limit (S iter) d1 (secant_next d0 d1 e0 e1') e1' e1'
           else (Hit d1, iter)
  end.
(* error = [150, 100], distance = [0, 0.1], iter_no = 0 *)
Definition intersect_parametric (f : R -> R) (tol : R) (limit : nat) : sres * nat :=
  secant (S (S limit)) f tol limit 0 0 (1 / 10) 150 100.
(* the unrepaired loop tested `abs(error[1]) > target_error` before the first evaluation as well: with
   target_error >= 100 the body never ran and the epilogue used the unassigned `point` (UnboundLocalError) *)
Definition unrepaired_raises (tol : R) : bool := negb (Rltb tol (Rabs 100)).
(* a BATCH of rays: rows (f, d0, d1, e0, e1) step together while ANY row is above the tolerance (max of the absolute
   errors); a zero denominator in any row (NaN in floats) or the counter flags the WHOLE batch (False, False) *)
Definition SRow := ((R -> R) * R * R * R * R)%type.
Definition srow_f (r : SRow) : R -> R := let '(f, _, _, _, _) := r in f.
Definition srow_d0 (r : SRow) : R := let '(_, d0, _, _, _) := r in d0.
Definition srow_d1 (r : SRow) : R := let '(_, _, d1, _, _) := r in d1.
Definition srow_e1 (r : SRow) : R := let '(_, _, _, _, e1) := r in e1.
Definition srow_step (r : SRow) : SRow :=
  let '(f, d0, d1, e0, e1) := r in let e1' := f d1 in (f, d1, secant_next d0 d1 e0 e1', e1', e1').
Definition srow_above (tol : R) (r : SRow) : bool := Rltb tol (Rabs (srow_e1 r)).
Definition srow_nan (r : SRow) : bool := let '(f, d0, d1, e0, e1) := r in Reqb (f d1 - e0) 0.
Definition srow_init (f : R -> R) : SRow := (f, 0, 1 / 10, 150, 100).
Inductive bres := BHit (ds : list R) | BFlagged | BOutOfFuel.
Fixpoint secant_batch (fuel : nat) (tol : R) (limit iter : nat) (rows : list SRow) : bres * nat :=
  match fuel with
  | O => (BOutOfFuel, iter)
  | S k => if orb (Nat.eqb iter 0) (existsb (srow_above tol) rows) then
             if existsb srow_nan rows then (BFlagged, S iter)
             else if Nat.ltb limit (S iter) then (BFlagged, S iter)
             else secant_batch k tol limit (S iter) (map srow_step rows)
           else (BHit (map srow_d1 rows), iter)
  end.
Definition intersect_parametric_batch (fs : list (R -> R)) (tol : R) (limit : nat) : bres * nat :=
  secant_batch (S (S limit)) tol limit 0 (map srow_init fs).
(* the unrepaired condition for two rows: the absolute value of the maximum, not the maximum of the absolute values *)
Definition guard2_unrepaired (tol e0 e1 : R) : bool := Rltb tol (Rabs (Rmax e0 e1)).
Definition guard2 (tol e0 e1 : R) : bool := orb (Rltb tol (Rabs e0)) (Rltb tol (Rabs e1)).

(* the sphere and cylinder functions along a ray o + x d *)
Definition sphere_along (o d c : V3) (r x : R) : R := vnorm2 (vsub (vadd o (vscale x d)) c) - r * r.

(* cylinder_function: squared distance of the point to the axis through c0, c1, minus r^2 *)
Definition cylinder_along (o d c0 c1 : V3) (r x : R) : R :=
  let p := vadd o (vscale x d) in vnorm2 (vcross (vsub p c0) (vsub p c1)) / vnorm2 (vsub c1 c0) - r * r.

(* ------------------------------------------------------------------ 3. fixed-length optimiser loop *)
Section Sphere.
Variable St : Type.                        (* optimiser state (distances, moments) *)
Variable opt : St -> St.                   (* one AdamW step: an external library *)
Variable dist : St -> R.                   (* current distance of the ray *)
Fixpoint run_steps (n : nat) (s : St) : St * nat := match n with O => (s, O) | S k => let (s', c) := run_steps k s in (opt s', S c) end.
(* `test` is evaluated BEFORE the last optimiser step, the sign of the distance after it; a hit needs both
   (the unrepaired flag had the first conjunct only: a sphere behind the ray origin counted as hit) *)
Definition sphere_check (f : R -> R) (thr : R) (n : nat) (s0 : St) : bool :=
  match n with
  | O => false
  | S k => let s := fst (run_steps k s0) in andb (Rltb (Rabs (f (dist s))) thr) (Rleb 0 (dist (opt s)))
  end.
Definition sphere_check_unrepaired (f : R -> R) (thr : R) (n : nat) (s0 : St) : bool :=
  match n with O => false | S k => Rltb (Rabs (f (dist (fst (run_steps k s0))))) thr end.
Definition sphere_distance (n : nat) (s0 : St) : R := dist (fst (run_steps n s0)).
End Sphere.

(* ------------------------------------------------------------------ executable copy over Q *)
Open Scope Q_scope.
Definition quadQ (a b t : Q) : Q := t * t + 2 * a * t + b.
Definition stepQ (a b t : Q) : Q := Qred (t - quadQ a b t / (2 * (t + a))).
Inductive outcomeQ := ConvergedQ (t : Q) | UndefinedQ | OutOfFuelQ.
(* exit test on squares: |t - t'| sqrt(div) <= err  <->  (t - t')^2 div <= err^2  for err >= 0 *)
Definition aboveQ (div a b err t : Q) : bool :=
  if Qle_bool 0 err then negb (Qle_bool ((t - stepQ a b t) * (t - stepQ a b t) * div) (err * err)) else true.
Fixpoint newtonQ (fuel : nat) (div a b err t : Q) : outcomeQ * nat :=
  match fuel with
  | O => (OutOfFuelQ, O)
  | S f => if Qeq_bool (t + a) 0 then (UndefinedQ, 1%nat)
           else if aboveQ div a b err t then let (r, c) := newtonQ f div a b err (stepQ a b t) in (r, S c)
           else (ConvergedQ (stepQ a b t), 1%nat)
  end.
Definition t0Q (a b : Q) : Q := Qred (- b * (1 # 2) / a).
Definition refract_runQ (cap : nat) (div a b err : Q) : outcomeQ * nat :=
  if negb (Qle_bool b (a * a)) then (UndefinedQ, O) else newtonQ cap div a b err (t0Q a b).
(* the same from the ray, the normal and the indices *)
Definition refract_caseQ (cap : nat) (dx dy dz nx ny nz mu err : Q) : outcomeQ * nat :=
  let div := nx * nx + ny * ny + nz * nz in
  refract_runQ cap div (Qred (mu * (dx * nx + dy * ny + dz * nz) / div)) (Qred ((mu * mu - 1) / div)) err.
