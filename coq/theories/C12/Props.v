(* C12 — property theorems: iterative geometric solvers always terminate and flag what they cannot solve.
   Models: OdakV.C12.Model (Newton loop of refract, shared with C11; secant loop of intersect_parametric;
   fixed-length loop of the PyTorch intersect_w_sphere).  Tied to /repo on every run: traced loop body,
   guard, epilogue (coq/tie/C11_TieB.v, C12_TieA.v) and the Q copy evaluated on the watchdog cases. *)
From Coq Require Import Reals Bool List QArith Qreals.
From OdakV Require Import Base.RealAux Base.Vec3 C11.Model C12.Model C12.Lemmas.
Open Scope R_scope.

(* ---- the UNREPAIRED refract loop (no TIR test, no cap): the property is refuted *)
(* under total internal reflection every step is at least w sqrt(b - a^2) long, so the loop never converges *)
Theorem C12_newton_tir_diverges : forall w a b err, a * a < b -> 0 <= w -> err < w * sqrt (b - a * a) ->
  forall fuel t x, newton fuel w a b err t <> Converged x.
Proof. exact newton_tir_never_converges. Qed.
Theorem C12_unrepaired_terminates_refuted : exists w a b err, a * a < b /\ 0 < err /\
  forall fuel, refract_unrepaired fuel w a b err = OutOfFuel.
Proof. exact unrepaired_never_returns. Qed.
(* ... and just beyond the critical angle it returned a plausible number although no refracted ray exists *)
Theorem C12_unrepaired_flags_refuted : exists w a b err t, a * a < b /\ refract_unrepaired 1 w a b err = Converged t.
Proof. exact unrepaired_tir_plausible. Qed.

(* ---- the repaired refract *)
(* (by construction of the fuel-indexed model; that the CODE's loop is stopped by its own guard `num < max_iterations`,
   whatever the fuel, is traced_loop_stops_by_its_guard in coq/tie/C11_TieB.v + the structural obligations) *)
Theorem C12_refract_terminates : forall cap w a b err, (newton_steps cap w a b err (rf_t0 a b) <= cap)%nat.
Proof. intros. apply newton_steps_le. Qed.
Theorem C12_tir_flagged : forall cap w a b err, a * a < b -> refract_run cap w a b err = None.
Proof. exact tir_flagged. Qed.
(* a number is returned only for a real root, from an iterate within the cap that passed the exit test
   (C11_refract_sound_any_exit then gives the tolerance): never a plausible-looking wrong number *)
Theorem C12_unflagged_is_converged : forall cap w a b err t, refract_run cap w a b err = Some t ->
  b <= a * a /\ exists k, (k < cap)%nat /\ t = newton_iter (S k) a b (rf_t0 a b) /\
                         step_size w a b (newton_iter k a b (rf_t0 a b)) <= err.
Proof. exact refract_run_some. Qed.
Theorem C12_negative_error_flagged : forall cap w a b err, err < 0 -> 0 <= w -> refract_run cap w a b err = None.
Proof. exact negative_error_flagged. Qed.
(* real roots: the distance to the root at least halves, so k iterations suffice once |t0 - root| w <= err 2^k *)
Theorem C12_newton_converges : forall k w a b err, a <> 0 -> b <= a * a -> 0 <= w ->
  Rabs (rf_t0 a b - root_sel a b) * w <= err * 2 ^ k -> exists t, refract_run (S k) w a b err = Some t.
Proof. exact refract_run_converges. Qed.
Theorem C12_refract_run_is_C11_model : forall cap w a b err, a <> 0 -> refract_run cap w a b err = refract_t cap w a b err.
Proof. exact refract_run_eq_t. Qed.
(* batches leave the loop together after K <= cap bodies; an unflagged row holds an iterate that passed the test *)
Theorem C12_batch_terminates_and_rows_sound : forall err cap rows eps0 w a b t,
  (forall e, In e eps0 -> err < e) -> length eps0 = length rows ->
  exists K, (K <= cap)%nat /\ forall i, nth_error rows i = Some (w, a, b, t) ->
    forall e, nth_error (snd (batch_loop cap err rows eps0)) i = Some e ->
    nth_error (fst (batch_loop cap err rows eps0)) i = Some (w, a, b, newton_iter K a b t) /\
    (e <= err -> exists k, K = S k /\ step_size w a b (newton_iter k a b t) <= err).
Proof. exact batch_row_sound. Qed.
(* the executable copy evaluated by the harness is this model *)
Theorem C12_executable_model_correct : forall cap dx dy dz nx ny nz mu err,
  let d := (Q2R dx, Q2R dy, Q2R dz) in let n := (Q2R nx, Q2R ny, Q2R nz) in
  (match fst (refract_caseQ cap dx dy dz nx ny nz mu err) with ConvergedQ t => Some (Q2R t) | _ => None end)
    = refract_run cap (vnorm n) (rf_a (Q2R mu) d n) (rf_b (Q2R mu) n) (Q2R err).
Proof. exact refract_caseQ_ok. Qed.

(* ---- intersect_parametric (ray-sphere, ray-cylinder, any parametric surface) *)
Theorem C12_secant_bounded : forall f tol limit,
  fst (intersect_parametric f tol limit) <> SOutOfFuel /\ (snd (intersect_parametric f tol limit) <= S limit)%nat.
Proof. exact secant_bounded. Qed.
Theorem C12_secant_exit_on_surface : forall f tol limit d, fst (intersect_parametric f tol limit) = Hit d ->
  0 <= d /\ exists x, 0 <= x /\ Rabs (f x) <= tol.
Proof. exact secant_exit_on_surface. Qed.
(* ... and the returned distance is exactly the secant step taken from that tested point *)
Theorem C12_secant_exit_is_step_from_tested_point : forall f tol limit d, fst (intersect_parametric f tol limit) = Hit d ->
  exists x x' e, 0 <= x /\ Rabs (f x) <= tol /\ d = secant_next x' x e (f x).
Proof. exact secant_exit_is_step. Qed.
Theorem C12_secant_miss_flagged : forall f tol limit, (forall x, 0 <= x -> tol < Rabs (f x)) ->
  fst (intersect_parametric f tol limit) = Flagged.
Proof. exact secant_miss_flagged. Qed.
Theorem C12_zero_direction_flagged : forall c tol limit, tol < Rabs c -> (1 <= limit)%nat ->
  fst (intersect_parametric (fun _ => c) tol limit) = Flagged /\ (snd (intersect_parametric (fun _ => c) tol limit) <= 2)%nat.
Proof. exact secant_constant_flagged. Qed.
(* batches of rays (one surface function per ray): bounded, and if distances come back EVERY row is on its surface;
   a batch containing a ray that misses is flagged as a whole *)
Theorem C12_secant_batch_bounded : forall fs tol limit,
  fst (intersect_parametric_batch fs tol limit) <> BOutOfFuel /\ (snd (intersect_parametric_batch fs tol limit) <= S limit)%nat.
Proof. exact secant_batch_bounded. Qed.
Theorem C12_secant_batch_rows_on_surface : forall fs tol limit ds, fst (intersect_parametric_batch fs tol limit) = BHit ds ->
  Forall2 (fun f d => 0 <= d /\ exists x, 0 <= x /\ Rabs (f x) <= tol) fs ds.
Proof. exact secant_batch_exit_on_surface. Qed.
Theorem C12_secant_batch_miss_flagged : forall fs tol limit f, In f fs -> (forall x, 0 <= x -> tol < Rabs (f x)) ->
  fst (intersect_parametric_batch fs tol limit) = BFlagged.
Proof. exact secant_batch_miss_flagged. Qed.
(* the unrepaired loop condition |max(error)| released a row with a large negative error *)
Theorem C12_batch_guard_unrepaired_refuted : exists tol e0 e1, guard2_unrepaired tol e0 e1 = false /\ tol < Rabs e0.
Proof. exact guard2_unrepaired_refuted. Qed.
(* the unrepaired guard skipped the body for target_error >= 100 and raised from the epilogue *)
Theorem C12_parametric_no_exception_refuted : exists tol, unrepaired_raises tol = true.
Proof. exact unrepaired_parametric_raises. Qed.
Theorem C12_parametric_no_exception_partial : forall tol, tol < 100 -> unrepaired_raises tol = false.
Proof. exact unrepaired_parametric_partial. Qed.

(* ---- PyTorch intersect_w_sphere: a fixed number of optimiser steps (any optimiser; by construction of run_steps: that the
   code's loop is `for` over range(number_of_steps) without early exit is a structural obligation), and a sound flag *)
Theorem C12_sphere_fixed_steps : forall (St : Type) (opt : St -> St) n s, snd (run_steps St opt n s) = n.
Proof. exact sphere_fixed_steps. Qed.
Theorem C12_sphere_flag_sound : forall (St : Type) (opt : St -> St) (dist : St -> R) f thr k s0,
  sphere_check St opt dist f thr (S k) s0 = true ->
  Rabs (f (dist (fst (run_steps St opt k s0)))) < thr /\ 0 <= sphere_distance St opt dist (S k) s0.
Proof. exact sphere_flag_sound. Qed.
Theorem C12_sphere_miss_flagged : forall (St : Type) (opt : St -> St) (dist : St -> R) f thr n s0,
  (forall x, thr <= Rabs (f x)) -> sphere_check St opt dist f thr n s0 = false.
Proof. exact sphere_miss_flagged. Qed.
Theorem C12_sphere_behind_flagged : forall (St : Type) (opt : St -> St) (dist : St -> R) f thr n s0,
  sphere_distance St opt dist n s0 < 0 -> sphere_check St opt dist f thr n s0 = false.
Proof. exact sphere_behind_flagged. Qed.
(* the unrepaired flag (residual only) reported a hit at a negative distance *)
Theorem C12_sphere_behind_unrepaired_refuted : exists (f : R -> R) thr (opt : R -> R) s0,
  sphere_distance R opt (fun s => s) 2 s0 < 0 /\ sphere_check_unrepaired R opt (fun s => s) f thr 2 s0 = true.
Proof. exact sphere_behind_unrepaired_refuted. Qed.

(* non-vacuity: glass -> air at 3-4-5 incidence is total internal reflection (C12_tir_flagged applies), and a
   ray that misses a sphere meets the hypothesis of C12_secant_miss_flagged *)
Example C12_instance :
  (let a := rf_a (3/2) (4/5, 0, -3/5) (0, 0, 1) in let b := rf_b (3/2) (0, 0, 1) in a * a < b) /\
  (forall x, 0 <= x -> 1 / 100000000 < Rabs (sphere_along (5, 0, 0) (0, 0, 1) (0, 0, 10) 3 x)).
Proof.
  split.
  - cbv zeta. assert (Ea : rf_a (3/2) (4/5, 0, -3/5) (0, 0, 1) = - 9 / 10) by (unfold rf_a; v3; field).
    assert (Eb : rf_b (3/2) (0, 0, 1) = 5 / 4) by (unfold rf_b; v3; field). rewrite Ea, Eb. Lra.lra.
  - intros x Hx. unfold sphere_along. v3.
    match goal with |- _ < Rabs ?e => replace e with (16 + (x - 10) * (x - 10)) by ring end.
    pose proof (Rle_0_sqr (x - 10)) as Hs. unfold Rsqr in Hs. rewrite Rabs_pos_eq; Lra.lra.
Qed.
