(* C12 — proofs: the unrepaired Newton loop never converges under total internal reflection (every step moves
   by >= sqrt(b - a^2)), a concrete quadratic on which it runs for ever, the repaired loop (cap, TIR flag,
   unconverged flag), batches, the secant loop with its counter, the fixed-length optimiser loop and its flag,
   and the correctness of the executable Q copy that the harness evaluates by vm_compute. *)
From Coq Require Import Reals Lra Psatz Bool Lia List QArith Qreals.
From OdakV Require Import Base.RealAux Base.Vec3 C11.Model C11.Lemmas C12.Model.
Import ListNotations.
Open Scope R_scope.

Lemma Reqb_false a b : a <> b -> Reqb a b = false.
Proof. intros H. unfold Reqb. destruct (Req_EM_T a b); [contradiction|reflexivity]. Qed.
Lemma Reqb_refl a : Reqb a a = true.
Proof. apply Reqb_true. reflexivity. Qed.

(* ------------------------------------------------------------------ total internal reflection: the unrepaired loop *)
(* under TIR (a^2 < b) every Newton step moves by at least sqrt(b - a^2) (AM-GM) *)
Lemma tir_step_lower_bound w a b t : a * a < b -> t + a <> 0 -> 0 <= w ->
  w * sqrt (b - a * a) <= step_size w a b t.
Proof.
  intros HD Hy Hw. unfold step_size. rewrite (Rmult_comm (Rabs _)). apply Rmult_le_compat_l; [exact Hw|].
  set (s := sqrt (b - a * a)). assert (Hs : s * s = b - a * a) by (apply sqrt_sqrt; lra).
  assert (Hs0 : 0 <= s) by apply sqrt_pos. set (y := t + a) in *.
  replace (t - newton_step a b t) with ((y * y + s * s) / (2 * y)) by (unfold newton_step, quad, y; rewrite Hs; field; exact Hy).
  unfold Rdiv. rewrite Rabs_mult, Rabs_inv, (Rabs_pos_eq (y * y + s * s)) by nra.
  rewrite Rabs_mult, (Rabs_pos_eq 2) by lra.
  assert (Ha : 0 < Rabs y) by (apply Rabs_pos_lt; exact Hy).
  assert (Hyy : y * y = Rabs y * Rabs y) by (rewrite <- Rabs_mult; rewrite Rabs_pos_eq; nra).
  apply Rmult_le_reg_r with (2 * Rabs y); [lra|].
  replace ((y * y + s * s) * / (2 * Rabs y) * (2 * Rabs y)) with (y * y + s * s) by (field; lra).
  pose proof (Rle_0_sqr (Rabs y - s)) as Hsq. unfold Rsqr in Hsq. nra.
Qed.
Lemma newton_tir_never_converges w a b err : a * a < b -> 0 <= w -> err < w * sqrt (b - a * a) ->
  forall fuel t x, newton fuel w a b err t <> Converged x.
Proof.
  intros HD Hw He. induction fuel; intros t x; cbn [newton]; [discriminate|].
  destruct (Reqb (t + a) 0) eqn:E; [discriminate|].
  assert (Hy : t + a <> 0) by (intros H; apply Reqb_true in H; congruence).
  pose proof (tir_step_lower_bound w a b t HD Hy Hw) as Hb.
  assert (Ea : Rltb err (step_size w a b t) = true) by (apply Rltb_true; lra). rewrite Ea. apply IHfuel.
Qed.
(* a concrete TIR quadratic on which the unrepaired loop provably runs for ever: t alternates -2, 0, -2, ... *)
Lemma unrepaired_cycle : forall fuel, newton fuel 1 1 4 (1/100) (-2) = OutOfFuel /\ newton fuel 1 1 4 (1/100) 0 = OutOfFuel.
Proof.
  assert (S1 : newton_step 1 4 (-2) = 0) by (unfold newton_step, quad; field).
  assert (S2 : newton_step 1 4 0 = -2) by (unfold newton_step, quad; field).
  assert (E1 : Reqb (-2 + 1) 0 = false) by (apply Reqb_false; lra).
  assert (E2 : Reqb (0 + 1) 0 = false) by (apply Reqb_false; lra).
  assert (A1 : Rltb (1/100) (step_size 1 1 4 (-2)) = true).
  { apply Rltb_true. unfold step_size. rewrite S1. replace (-2 - 0) with (-(2)) by ring. rewrite Rabs_Ropp, Rabs_pos_eq; lra. }
  assert (A2 : Rltb (1/100) (step_size 1 1 4 0) = true).
  { apply Rltb_true. unfold step_size. rewrite S2. replace (0 - -2) with 2 by ring. rewrite Rabs_pos_eq; lra. }
  induction fuel; [split; reflexivity|]. destruct IHfuel as [I1 I2]. cbn [newton].
  rewrite E1, E2, A1, A2, S1, S2. split; assumption.
Qed.
Lemma unrepaired_never_returns : exists w a b err, a * a < b /\ 0 < err /\ forall fuel, refract_unrepaired fuel w a b err = OutOfFuel.
Proof.
  exists 1, 1, 4, (1/100). split; [lra|]. split; [lra|]. intros fuel. unfold refract_unrepaired.
  replace (rf_t0 1 4) with (-2) by (unfold rf_t0; field). apply unrepaired_cycle.
Qed.
(* ... and, just beyond the critical angle, it returned a number although no refracted ray exists *)
Lemma unrepaired_tir_plausible : exists w a b err t, a * a < b /\ refract_unrepaired 1 w a b err = Converged t.
Proof.
  exists 1, 1, (101/100), (1/2). eexists. split; [lra|]. unfold refract_unrepaired. cbn [newton].
  assert (E0 : rf_t0 1 (101/100) = - 101 / 200) by (unfold rf_t0; field). rewrite E0.
  assert (E1 : Reqb (-101/200 + 1) 0 = false) by (apply Reqb_false; lra). rewrite E1.
  assert (S1 : -101/200 - newton_step 1 (101/100) (-101/200) = 10201 / 39600) by (unfold newton_step, quad; field).
  assert (A : Rltb (1/2) (step_size 1 1 (101/100) (-101/200)) = false).
  { apply Rltb_false. unfold step_size. rewrite S1, Rabs_pos_eq; lra. }
  rewrite A. reflexivity.
Qed.

(* ------------------------------------------------------------------ the repaired loop *)
Lemma newton_steps_le fuel w a b err t : (newton_steps fuel w a b err t <= fuel)%nat.
Proof.
  revert t. induction fuel; intros t; cbn [newton_steps]; [lia|].
  destruct (Reqb (t + a) 0); [lia|]. destruct (Rltb err (step_size w a b t)); [|lia]. specialize (IHfuel (newton_step a b t)). lia.
Qed.
Lemma newton_converged fuel w a b err t x : newton fuel w a b err t = Converged x ->
  exists k, (k < fuel)%nat /\ x = newton_iter (S k) a b t /\ step_size w a b (newton_iter k a b t) <= err.
Proof.
  revert t. induction fuel; intros t H; cbn [newton] in H; [discriminate|].
  destruct (Reqb (t + a) 0); [discriminate|].
  destruct (Rltb err (step_size w a b t)) eqn:E.
  - destruct (IHfuel _ H) as [k [Hk [Ht Hs]]]. exists (S k). split; [lia|]. split.
    + rewrite Ht. rewrite !newton_iter_shift. reflexivity.
    + rewrite newton_iter_shift in Hs. exact Hs.
  - apply Rltb_false in E. inversion H; subst. exists 0%nat. split; [lia|]. split; [reflexivity|exact E].
Qed.
(* away from the vertex side the 3-outcome loop is C11's loop *)
Lemma newton_eq_loop fuel w a b err t : b <= a * a -> 0 < a * (t + a) ->
  newton fuel w a b err t = match newton_loop fuel w a b err t with Some x => Converged x | None => OutOfFuel end.
Proof.
  intros HD. revert t. induction fuel; intros t Hs; cbn [newton newton_loop]; [reflexivity|].
  assert (Hy : t + a <> 0) by (intros E; rewrite E in Hs; lra). rewrite (Reqb_false _ _ Hy).
  destruct (Rltb err (step_size w a b t)); [|reflexivity]. apply IHfuel. apply step_side; assumption.
Qed.
Lemma refract_run_eq_t cap w a b err : a <> 0 -> refract_run cap w a b err = refract_t cap w a b err.
Proof.
  intros Ha. unfold refract_run, refract_t. destruct (tir a b) eqn:E; [reflexivity|].
  unfold tir in E. apply Rltb_false in E. rewrite newton_eq_loop by (try assumption; apply start_side; assumption).
  destruct (newton_loop cap w a b err (rf_t0 a b)); reflexivity.
Qed.
Lemma tir_flagged cap w a b err : a * a < b -> refract_run cap w a b err = None.
Proof. intros H. unfold refract_run, tir. apply Rltb_true in H. rewrite H. reflexivity. Qed.
(* a returned number is an iterate within the cap that passed the exit test *)
Lemma refract_run_some cap w a b err t : refract_run cap w a b err = Some t ->
  b <= a * a /\ exists k, (k < cap)%nat /\ t = newton_iter (S k) a b (rf_t0 a b) /\ step_size w a b (newton_iter k a b (rf_t0 a b)) <= err.
Proof.
  unfold refract_run, tir. destruct (Rltb (a * a) b) eqn:E; [discriminate|]. apply Rltb_false in E.
  destruct (newton cap w a b err (rf_t0 a b)) eqn:En; try discriminate. intros H; inversion H; subst.
  split; [exact E|]. apply newton_converged with (fuel := cap) (err := err). exact En.
Qed.
Lemma negative_error_flagged cap w a b err : err < 0 -> 0 <= w -> refract_run cap w a b err = None.
Proof.
  intros He Hw. destruct (refract_run cap w a b err) eqn:E; [|reflexivity].
  destruct (refract_run_some _ _ _ _ _ _ E) as [_ [k [_ [_ Hs]]]].
  pose proof (step_size_nonneg w a b (newton_iter k a b (rf_t0 a b)) Hw). lra.
Qed.
Lemma refract_run_converges k w a b err : a <> 0 -> b <= a * a -> 0 <= w ->
  Rabs (rf_t0 a b - root_sel a b) * w <= err * 2 ^ k -> exists t, refract_run (S k) w a b err = Some t.
Proof.
  intros Ha HD Hw Hb. rewrite refract_run_eq_t by exact Ha. unfold refract_t, tir.
  assert (E : Rltb (a * a) b = false) by (apply Rltb_false; exact HD). rewrite E.
  apply newton_loop_converges; assumption.
Qed.

(* ------------------------------------------------------------------ batches *)
Fixpoint rows_iter (K : nat) (rows : list Row) : list Row := match K with O => rows | S k => map row_step (rows_iter k rows) end.
Definition row_at (K : nat) (r : Row) : Row := let '(w, a, b, t) := r in (w, a, b, newton_iter K a b t).
Definition eps_at (k : nat) (r : Row) : R := let '(w, a, b, t) := r in step_size w a b (newton_iter k a b t).
Lemma rows_iter_shift K rows : rows_iter K (map row_step rows) = map row_step (rows_iter K rows).
Proof. induction K; cbn [rows_iter]; [reflexivity|rewrite IHK; reflexivity]. Qed.
Lemma rows_iter_map K rows : rows_iter K rows = map (row_at K) rows.
Proof.
  induction K; cbn [rows_iter].
  - rewrite <- (map_id rows) at 1. apply map_ext. intros [[[w a] b] t]. reflexivity.
  - rewrite IHK, map_map. apply map_ext. intros [[[w a] b] t]. reflexivity.
Qed.
Lemma eps_iter_map k rows : map row_eps (rows_iter k rows) = map (eps_at k) rows.
Proof. rewrite rows_iter_map, map_map. apply map_ext. intros [[[w a] b] t]. reflexivity. Qed.
(* the batch loop runs K <= cap bodies; every row is then at its K-th iterate, its eps is the size of its
   K-th step, and either the cap was reached or no eps is above err *)
Lemma batch_loop_spec err : forall fuel rows eps, exists K, (K <= fuel)%nat /\
  fst (batch_loop fuel err rows eps) = map (row_at K) rows /\
  snd (batch_loop fuel err rows eps) = match K with O => eps | S k => map (eps_at k) rows end /\
  (K = fuel \/ existsb (fun e => Rltb err e) (snd (batch_loop fuel err rows eps)) = false).
Proof.
  induction fuel; intros rows eps.
  - exists 0%nat. cbn [batch_loop fst snd]. split; [lia|]. split; [rewrite <- rows_iter_map; reflexivity|]. split; [reflexivity|left; reflexivity].
  - cbn [batch_loop]. destruct (existsb (fun e => Rltb err e) eps) eqn:E.
    + destruct (IHfuel (map row_step rows) (map row_eps rows)) as [K [HK [H1 [H2 H3]]]]. exists (S K).
      split; [lia|]. split; [|split].
      * rewrite H1, <- !rows_iter_map. cbn [rows_iter]. apply rows_iter_shift.
      * rewrite H2. destruct K; [rewrite <- eps_iter_map; reflexivity|].
        rewrite <- !eps_iter_map. cbn [rows_iter]. rewrite rows_iter_shift. reflexivity.
      * destruct H3 as [H3|H3]; [left; lia|right; exact H3].
    + exists 0%nat. cbn [fst snd]. split; [lia|]. split; [rewrite <- rows_iter_map; reflexivity|]. split; [reflexivity|right; exact E].
Qed.
(* what a row of the batch receives, when it is not flagged: an iterate that passed the exit test *)
Lemma batch_row_sound err cap rows eps0 w a b t : (forall e, In e eps0 -> err < e) -> length eps0 = length rows ->
  exists K, (K <= cap)%nat /\ forall i, nth_error rows i = Some (w, a, b, t) ->
    forall e, nth_error (snd (batch_loop cap err rows eps0)) i = Some e ->
    nth_error (fst (batch_loop cap err rows eps0)) i = Some (w, a, b, newton_iter K a b t) /\
    (e <= err -> exists k, K = S k /\ step_size w a b (newton_iter k a b t) <= err).
Proof.
  intros Hin Hlen. destruct (batch_loop_spec err cap rows eps0) as [K [HK [H1 [H2 _]]]]. exists K. split; [exact HK|].
  intros i Hi e He. rewrite H1, H2 in *. split.
  - apply (map_nth_error (row_at K)) in Hi. exact Hi.
  - intros Hle. destruct K as [|k].
    + apply nth_error_In in He. specialize (Hin _ He). lra.
    + exists k. split; [reflexivity|]. apply (map_nth_error (eps_at k)) in Hi. rewrite Hi in He. inversion He. subst. exact Hle.
Qed.

(* ------------------------------------------------------------------ secant loop *)
Lemma secant_count_le f tol limit : forall fuel iter d0 d1 e0 e1, (iter <= limit)%nat ->
  (snd (secant fuel f tol limit iter d0 d1 e0 e1) <= S limit)%nat.
Proof.
  induction fuel; intros iter d0 d1 e0 e1 Hi; cbn [secant snd]; [lia|].
  destruct (orb (Nat.eqb iter 0) (Rltb tol (Rabs e1))); [|cbn [snd]; lia].
  destruct (Reqb (f d1 - e0) 0); [cbn [snd]; lia|].
  destruct (Nat.ltb limit (S iter)) eqn:E; [cbn [snd]; lia|].
  apply IHfuel. apply PeanoNat.Nat.ltb_ge in E. lia.
Qed.
Lemma secant_fuel_enough f tol limit : forall fuel iter d0 d1 e0 e1, (iter <= limit)%nat -> (limit + 2 <= fuel + iter)%nat ->
  fst (secant fuel f tol limit iter d0 d1 e0 e1) <> SOutOfFuel.
Proof.
  induction fuel; intros iter d0 d1 e0 e1 Hi Hf; [lia|]. cbn [secant].
  destruct (orb (Nat.eqb iter 0) (Rltb tol (Rabs e1))); [|cbn [fst]; discriminate].
  destruct (Reqb (f d1 - e0) 0); [cbn [fst]; discriminate|].
  destruct (Nat.ltb limit (S iter)) eqn:E; [cbn [fst]; discriminate|].
  apply PeanoNat.Nat.ltb_ge in E. apply IHfuel; lia.
Qed.
(* iterations <= iter_no_limit + 1, and the loop always returns by itself *)
Lemma secant_bounded f tol limit :
  fst (intersect_parametric f tol limit) <> SOutOfFuel /\ (snd (intersect_parametric f tol limit) <= S limit)%nat.
Proof. unfold intersect_parametric. split; [apply secant_fuel_enough; lia|apply secant_count_le; lia]. Qed.
(* a returned distance comes from a point of the ray that was tested and found on the surface *)
Lemma secant_hit_on_surface f tol limit : forall fuel iter d0 d1 e0 e1 d,
  (iter <> 0%nat -> e1 = f d0) -> 0 <= d0 -> 0 <= d1 ->
  fst (secant fuel f tol limit iter d0 d1 e0 e1) = Hit d -> 0 <= d /\ exists x, 0 <= x /\ Rabs (f x) <= tol.
Proof.
  induction fuel; intros iter d0 d1 e0 e1 d Hinv H0 H1 H; cbn [secant fst] in H; [discriminate|].
  destruct (orb (Nat.eqb iter 0) (Rltb tol (Rabs e1))) eqn:G.
  - destruct (Reqb (f d1 - e0) 0); [cbn [fst] in H; discriminate|].
    destruct (Nat.ltb limit (S iter)); [cbn [fst] in H; discriminate|].
    apply (IHfuel _ _ _ _ _ _ ltac:(intros _; reflexivity) H1 ltac:(unfold secant_next; apply Rabs_pos) H).
  - cbn [fst] in H. inversion H; subst d. apply orb_false_iff in G. destruct G as [G1 G2].
    apply PeanoNat.Nat.eqb_neq in G1. apply Rltb_false in G2. split; [exact H1|]. exists d0. split; [exact H0|]. rewrite <- (Hinv G1). exact G2.
Qed.
Lemma secant_exit_on_surface f tol limit d : fst (intersect_parametric f tol limit) = Hit d ->
  0 <= d /\ exists x, 0 <= x /\ Rabs (f x) <= tol.
Proof. unfold intersect_parametric. apply secant_hit_on_surface; [intros H; contradiction H; reflexivity|lra|lra]. Qed.
(* no point of the ray on the surface (within the tolerance): the result is the flag, never a number *)
Lemma secant_miss_flagged f tol limit : (forall x, 0 <= x -> tol < Rabs (f x)) -> fst (intersect_parametric f tol limit) = Flagged.
Proof.
  intros Hm. destruct (secant_bounded f tol limit) as [Hb _].
  destruct (fst (intersect_parametric f tol limit)) eqn:E; [|reflexivity|contradiction].
  destruct (secant_exit_on_surface f tol limit d E) as [_ [x [Hx Hf]]]. specialize (Hm x Hx). lra.
Qed.
(* zero-length direction: the surface function is constant along the ray; flagged after two evaluations *)
Lemma secant_constant_flagged c tol limit : tol < Rabs c -> (1 <= limit)%nat ->
  fst (intersect_parametric (fun _ => c) tol limit) = Flagged /\ (snd (intersect_parametric (fun _ => c) tol limit) <= 2)%nat.
Proof.
  intros Hc Hl. unfold intersect_parametric. destruct limit as [|l]; [lia|]. cbn [secant Nat.eqb orb].
  destruct (Reqb (c - 150) 0); [cbn [fst snd]; split; [reflexivity|lia]|].
  assert (E : Nat.ltb (S l) 1 = false) by (apply PeanoNat.Nat.ltb_ge; lia). rewrite E.
  assert (G : Rltb tol (Rabs c) = true) by (apply Rltb_true; exact Hc). rewrite G.
  replace (c - c) with 0 by ring. rewrite Reqb_refl. cbn [fst snd]. split; [reflexivity|lia].
Qed.
Lemma unrepaired_parametric_raises : exists tol, unrepaired_raises tol = true.
Proof. exists 100. unfold unrepaired_raises. rewrite Rabs_pos_eq by lra. assert (E : Rltb 100 100 = false) by (apply Rltb_false; lra). rewrite E. reflexivity. Qed.
Lemma unrepaired_parametric_partial tol : tol < 100 -> unrepaired_raises tol = false.
Proof. intros H. unfold unrepaired_raises. rewrite Rabs_pos_eq by lra. assert (E : Rltb tol 100 = true) by (apply Rltb_true; exact H). rewrite E. reflexivity. Qed.

(* ------------------------------------------------------------------ fixed-length optimiser loop *)
Section Sphere.
Variable St : Type.
Variable opt : St -> St.
Variable dist : St -> R.
Lemma sphere_fixed_steps n s : snd (run_steps St opt n s) = n.
Proof. induction n; cbn [run_steps]; [reflexivity|]. destruct (run_steps St opt n s) as [s' c]. cbn [snd] in *. congruence. Qed.
Lemma run_steps_S n s : fst (run_steps St opt (S n) s) = opt (fst (run_steps St opt n s)).
Proof. cbn [run_steps]. destruct (run_steps St opt n s). reflexivity. Qed.
(* a flagged ray: the tested point is on the sphere within the threshold, the reported distance is not negative *)
Lemma sphere_flag_sound f thr k s0 : sphere_check St opt dist f thr (S k) s0 = true ->
  Rabs (f (dist (fst (run_steps St opt k s0)))) < thr /\ 0 <= sphere_distance St opt dist (S k) s0.
Proof.
  unfold sphere_check, sphere_distance. intros H. apply andb_true_iff in H. destruct H as [H1 H2].
  apply Rltb_true in H1. apply Rleb_true in H2. rewrite run_steps_S. split; assumption.
Qed.
Lemma sphere_miss_flagged f thr n s0 : (forall x, thr <= Rabs (f x)) -> sphere_check St opt dist f thr n s0 = false.
Proof.
  intros Hm. destruct n; [reflexivity|]. unfold sphere_check. apply andb_false_iff. left. apply Rltb_false. apply Hm.
Qed.
Lemma sphere_behind_flagged f thr n s0 : sphere_distance St opt dist n s0 < 0 -> sphere_check St opt dist f thr n s0 = false.
Proof.
  intros H. destruct n; [reflexivity|]. unfold sphere_check, sphere_distance in *. rewrite run_steps_S in H.
  apply andb_false_iff. right. apply Rleb_false. exact H.
Qed.
End Sphere.

(* the unrepaired flag accepted a negative distance: one optimiser step from 0 to -1 onto a sphere behind the origin *)
Lemma sphere_behind_unrepaired_refuted : exists (f : R -> R) thr (opt : R -> R) s0,
  sphere_distance R opt (fun s => s) 2 s0 < 0 /\ sphere_check_unrepaired R opt (fun s => s) f thr 2 s0 = true.
Proof.
  exists (fun x => (x + 1) * (x + 1) - 0), (1 / 100), (fun _ => -1), 0. split.
  - unfold sphere_distance. cbn. lra.
  - unfold sphere_check_unrepaired. cbn. apply Rltb_true. replace ((-1 + 1) * (-1 + 1) - 0) with 0 by ring. rewrite Rabs_R0. lra.
Qed.

(* ------------------------------------------------------------------ the executable copy over Q is the model *)
Lemma Q2R_div_total x y : Q2R (x / y) = Q2R x / Q2R y.
Proof.
  unfold Qdiv, Rdiv. rewrite Q2R_mult, RMicromega.Q2R_inv_ext. destruct (Qeq_bool y 0) eqn:E; [|reflexivity].
  apply RMicromega.Qeq_true in E. rewrite E, RMicromega.Q2R_0, Rinv_0. reflexivity.
Qed.
Lemma Q2R_2 : Q2R 2 = 2.
Proof. unfold Q2R; cbn. lra. Qed.
Lemma Q2R_half : Q2R (1 # 2) = / 2.
Proof. unfold Q2R; cbn. lra. Qed.
Lemma quadQ_ok a b t : Q2R (quadQ a b t) = quad (Q2R a) (Q2R b) (Q2R t).
Proof. unfold quadQ, quad. rewrite !Q2R_plus, !Q2R_mult, Q2R_2. reflexivity. Qed.
Lemma stepQ_ok a b t : Q2R (stepQ a b t) = newton_step (Q2R a) (Q2R b) (Q2R t).
Proof. unfold stepQ, newton_step. rewrite (Qeq_eqR _ _ (Qred_correct _)), Q2R_minus, Q2R_div_total, quadQ_ok, Q2R_mult, Q2R_plus, Q2R_2. reflexivity. Qed.
Lemma Qle_bool_Rle x y : Qle_bool x y = true <-> Q2R x <= Q2R y.
Proof. rewrite Qle_bool_iff. split; [apply Qle_Rle|apply Rle_Qle]. Qed.
Lemma Qle_bool_Rleb x y : Qle_bool x y = Rleb (Q2R x) (Q2R y).
Proof.
  destruct (Qle_bool x y) eqn:E.
  - symmetry. apply Rleb_true. apply Qle_bool_Rle. exact E.
  - symmetry. apply Rleb_false. apply Rnot_le_lt. intros H. apply Qle_bool_Rle in H. congruence.
Qed.
Lemma Qeq_bool_Reqb x y : Qeq_bool x y = Reqb (Q2R x) (Q2R y).
Proof.
  destruct (Qeq_bool x y) eqn:E.
  - symmetry. apply Reqb_true. apply RMicromega.Qeq_true. exact E.
  - symmetry. apply Reqb_false. apply RMicromega.Qeq_false. exact E.
Qed.
Lemma aboveQ_ok div a b err t : 0 <= Q2R div ->
  aboveQ div a b err t = Rltb (Q2R err) (step_size (sqrt (Q2R div)) (Q2R a) (Q2R b) (Q2R t)).
Proof.
  intros Hd. unfold aboveQ. rewrite Qle_bool_Rleb, RMicromega.Q2R_0.
  pose proof (step_size_nonneg (sqrt (Q2R div)) (Q2R a) (Q2R b) (Q2R t) (sqrt_pos _)) as Hp.
  pose proof (step_size_sq (sqrt (Q2R div)) (Q2R a) (Q2R b) (Q2R t)) as Hsq. rewrite sqrt_sqrt in Hsq by exact Hd.
  set (st := step_size _ _ _ _) in *.
  destruct (Rleb 0 (Q2R err)) eqn:E.
  - apply Rleb_true in E. rewrite Qle_bool_Rleb, !Q2R_mult, Q2R_minus, stepQ_ok.
    replace ((Q2R t - newton_step (Q2R a) (Q2R b) (Q2R t)) * (Q2R t - newton_step (Q2R a) (Q2R b) (Q2R t)) * Q2R div) with (st * st) by (rewrite Hsq; ring).
    destruct (Rltb (Q2R err) st) eqn:F.
    + apply Rltb_true in F. assert (G : Rleb (st * st) (Q2R err * Q2R err) = false) by (apply Rleb_false; nra). rewrite G. reflexivity.
    + apply Rltb_false in F. assert (G : Rleb (st * st) (Q2R err * Q2R err) = true) by (apply Rleb_true; nra). rewrite G. reflexivity.
  - apply Rleb_false in E. symmetry. apply Rltb_true. lra.
Qed.
Definition outcome_of_Q (o : outcomeQ) : outcome :=
  match o with ConvergedQ t => Converged (Q2R t) | UndefinedQ => Undefined | OutOfFuelQ => OutOfFuel end.
Lemma newtonQ_ok div a b err : 0 <= Q2R div -> forall fuel t,
  outcome_of_Q (fst (newtonQ fuel div a b err t)) = newton fuel (sqrt (Q2R div)) (Q2R a) (Q2R b) (Q2R err) (Q2R t) /\
  snd (newtonQ fuel div a b err t) = newton_steps fuel (sqrt (Q2R div)) (Q2R a) (Q2R b) (Q2R err) (Q2R t).
Proof.
  intros Hd. induction fuel; intros t; cbn [newtonQ newton newton_steps]; [split; reflexivity|].
  rewrite Qeq_bool_Reqb, Q2R_plus, RMicromega.Q2R_0. destruct (Reqb (Q2R t + Q2R a) 0); [split; reflexivity|].
  rewrite aboveQ_ok by exact Hd. destruct (Rltb (Q2R err) (step_size (sqrt (Q2R div)) (Q2R a) (Q2R b) (Q2R t))).
  - destruct (IHfuel (stepQ a b t)) as [I1 I2]. destruct (newtonQ fuel div a b err (stepQ a b t)) as [r c]. cbn [fst snd] in *.
    rewrite stepQ_ok in I1, I2. split; [exact I1|rewrite I2; reflexivity].
  - cbn [fst snd outcome_of_Q]. rewrite stepQ_ok. split; reflexivity.
Qed.
Lemma t0Q_ok a b : Q2R (t0Q a b) = rf_t0 (Q2R a) (Q2R b).
Proof. unfold t0Q, rf_t0. rewrite (Qeq_eqR _ _ (Qred_correct _)), Q2R_div_total, Q2R_mult, Q2R_opp, Q2R_half. reflexivity. Qed.
(* the harness evaluates refract_runQ by vm_compute: its answer is the model's, its count the loop bodies run *)
Lemma refract_runQ_ok cap div a b err : 0 <= Q2R div ->
  (match fst (refract_runQ cap div a b err) with ConvergedQ t => Some (Q2R t) | _ => None end)
    = refract_run cap (sqrt (Q2R div)) (Q2R a) (Q2R b) (Q2R err) /\
  (snd (refract_runQ cap div a b err) <= cap)%nat.
Proof.
  intros Hd. unfold refract_runQ, refract_run, tir.
  assert (E : negb (Qle_bool b (a * a)) = Rltb (Q2R a * Q2R a) (Q2R b)).
  { rewrite Qle_bool_Rleb, Q2R_mult. destruct (Rltb (Q2R a * Q2R a) (Q2R b)) eqn:F.
    - apply Rltb_true in F. assert (G : Rleb (Q2R b) (Q2R a * Q2R a) = false) by (apply Rleb_false; exact F). rewrite G. reflexivity.
    - apply Rltb_false in F. assert (G : Rleb (Q2R b) (Q2R a * Q2R a) = true) by (apply Rleb_true; exact F). rewrite G. reflexivity. }
  rewrite E. destruct (Rltb (Q2R a * Q2R a) (Q2R b)); [cbn [fst snd]; split; [reflexivity|lia]|].
  destruct (newtonQ_ok div a b err Hd cap (t0Q a b)) as [I1 I2]. rewrite t0Q_ok in I1, I2. rewrite <- I1, I2. split.
  - destruct (fst (newtonQ cap div a b err (t0Q a b))); reflexivity.
  - apply newton_steps_le.
Qed.
(* from the ray, the normal and the indices (what the harness passes) *)
Lemma refract_caseQ_ok cap dx dy dz nx ny nz mu err :
  let d := (Q2R dx, Q2R dy, Q2R dz) in let n := (Q2R nx, Q2R ny, Q2R nz) in
  (match fst (refract_caseQ cap dx dy dz nx ny nz mu err) with ConvergedQ t => Some (Q2R t) | _ => None end)
    = refract_run cap (vnorm n) (rf_a (Q2R mu) d n) (rf_b (Q2R mu) n) (Q2R err).
Proof.
  intros d n. unfold refract_caseQ.
  assert (Ediv : Q2R (nx * nx + ny * ny + nz * nz) = vnorm2 n) by (unfold n; v3; rewrite !Q2R_plus, !Q2R_mult; reflexivity).
  assert (Hd : 0 <= Q2R (nx * nx + ny * ny + nz * nz)) by (rewrite Ediv; apply vnorm2_nonneg).
  destruct (refract_runQ_ok cap (nx * nx + ny * ny + nz * nz) (Qred (mu * (dx * nx + dy * ny + dz * nz) / (nx * nx + ny * ny + nz * nz)))
              (Qred ((mu * mu - 1) / (nx * nx + ny * ny + nz * nz))) err Hd) as [H _].
  rewrite H. rewrite !(Qeq_eqR _ _ (Qred_correct _)), !Q2R_div_total, Ediv. unfold vnorm. f_equal.
  - unfold rf_a, d, n. v3. rewrite !Q2R_mult, !Q2R_plus, !Q2R_mult. reflexivity.
  - unfold rf_b. rewrite Q2R_minus, Q2R_mult, RMicromega.Q2R_1. reflexivity.
Qed.

(* ================================================================== follow-up: returned distance = secant step from the tested point; batches of rays *)

(* the returned distance IS the secant step taken from the tested point x (previous point x', previous error e) *)
Lemma secant_hit_is_step f tol limit : forall fuel iter d0 d1 e0 e1 d,
  (iter <> 0%nat -> e1 = f d0 /\ exists x' e, d1 = secant_next x' d0 e (f d0)) -> 0 <= d0 -> 0 <= d1 ->
  fst (secant fuel f tol limit iter d0 d1 e0 e1) = Hit d ->
  exists x x' e, 0 <= x /\ Rabs (f x) <= tol /\ d = secant_next x' x e (f x).
Proof.
  induction fuel; intros iter d0 d1 e0 e1 d Hinv H0 H1 H; cbn [secant fst] in H; [discriminate|].
  destruct (orb (Nat.eqb iter 0) (Rltb tol (Rabs e1))) eqn:G.
  - destruct (Reqb (f d1 - e0) 0); [cbn [fst] in H; discriminate|].
    destruct (Nat.ltb limit (S iter)); [cbn [fst] in H; discriminate|].
    refine (IHfuel _ _ _ _ _ _ _ H1 _ H).
    + intros _. split; [reflexivity|]. exists d0, e0. reflexivity.
    + unfold secant_next. apply Rabs_pos.
  - cbn [fst] in H. inversion H; subst d. apply orb_false_iff in G. destruct G as [G1 G2].
    apply PeanoNat.Nat.eqb_neq in G1. apply Rltb_false in G2. destruct (Hinv G1) as [He [x' [e Hd]]].
    exists d0, x', e. split; [exact H0|]. split; [rewrite <- He; exact G2|exact Hd].
Qed.
Lemma secant_exit_is_step f tol limit d : fst (intersect_parametric f tol limit) = Hit d ->
  exists x x' e, 0 <= x /\ Rabs (f x) <= tol /\ d = secant_next x' x e (f x).
Proof. unfold intersect_parametric. apply secant_hit_is_step; [intros H; contradiction H; reflexivity|lra|lra]. Qed.

(* ------------------------------------------------------------------ batches of rays *)
Definition srow_inv (iter : nat) (r : SRow) : Prop :=
  (iter <> 0%nat -> srow_e1 r = srow_f r (srow_d0 r)) /\ 0 <= srow_d0 r /\ 0 <= srow_d1 r.
Lemma srow_step_inv iter r : 0 <= srow_d1 r -> srow_inv (S iter) (srow_step r).
Proof.
  destruct r as [[[[f d0] d1] e0] e1]. cbn. intros H. split; [intros _; reflexivity|]. split; [exact H|unfold secant_next; apply Rabs_pos].
Qed.
Lemma srow_step_f r : srow_f (srow_step r) = srow_f r.
Proof. destruct r as [[[[f d0] d1] e0] e1]. reflexivity. Qed.
Lemma Forall2_map_l {A B C} (P : B -> C -> Prop) (g : A -> B) l ds :
  Forall2 P (map g l) ds -> Forall2 (fun x d => P (g x) d) l ds.
Proof.
  revert ds. induction l; intros ds H; inversion H; subst; constructor; [assumption|apply IHl; assumption].
Qed.
Lemma Forall2_weaken {A B} (P Q : A -> B -> Prop) l ds : (forall a b, P a b -> Q a b) -> Forall2 P l ds -> Forall2 Q l ds.
Proof. intros H F. induction F; constructor; [apply H; assumption|assumption]. Qed.
Definition row_ok (tol : R) (r : SRow) (d : R) : Prop := 0 <= d /\ exists x, 0 <= x /\ Rabs (srow_f r x) <= tol.
Lemma secant_batch_count_le tol limit : forall fuel iter rows, (iter <= limit)%nat ->
  (snd (secant_batch fuel tol limit iter rows) <= S limit)%nat.
Proof.
  induction fuel; intros iter rows Hi; cbn [secant_batch snd]; [lia|].
  destruct (orb (Nat.eqb iter 0) (existsb (srow_above tol) rows)); [|cbn [snd]; lia].
  destruct (existsb srow_nan rows); [cbn [snd]; lia|].
  destruct (Nat.ltb limit (S iter)) eqn:E; [cbn [snd]; lia|].
  apply IHfuel. apply PeanoNat.Nat.ltb_ge in E. lia.
Qed.
Lemma secant_batch_fuel_enough tol limit : forall fuel iter rows, (iter <= limit)%nat -> (limit + 2 <= fuel + iter)%nat ->
  fst (secant_batch fuel tol limit iter rows) <> BOutOfFuel.
Proof.
  induction fuel; intros iter rows Hi Hf; [lia|]. cbn [secant_batch].
  destruct (orb (Nat.eqb iter 0) (existsb (srow_above tol) rows)); [|cbn [fst]; discriminate].
  destruct (existsb srow_nan rows); [cbn [fst]; discriminate|].
  destruct (Nat.ltb limit (S iter)) eqn:E; [cbn [fst]; discriminate|].
  apply PeanoNat.Nat.ltb_ge in E. apply IHfuel; lia.
Qed.
Lemma secant_batch_bounded fs tol limit :
  fst (intersect_parametric_batch fs tol limit) <> BOutOfFuel /\ (snd (intersect_parametric_batch fs tol limit) <= S limit)%nat.
Proof. unfold intersect_parametric_batch. split; [apply secant_batch_fuel_enough; lia|apply secant_batch_count_le; lia]. Qed.
(* if the batch comes back with distances, EVERY row's distance is >= 0 and that row's tested point is on its surface *)
Lemma secant_batch_rows tol limit : forall fuel iter rows ds, Forall (srow_inv iter) rows ->
  fst (secant_batch fuel tol limit iter rows) = BHit ds -> Forall2 (row_ok tol) rows ds.
Proof.
  induction fuel; intros iter rows ds Hinv H; cbn [secant_batch fst] in H; [discriminate|].
  destruct (orb (Nat.eqb iter 0) (existsb (srow_above tol) rows)) eqn:G.
  - destruct (existsb srow_nan rows); [cbn [fst] in H; discriminate|].
    destruct (Nat.ltb limit (S iter)); [cbn [fst] in H; discriminate|].
    assert (Hinv' : Forall (srow_inv (S iter)) (map srow_step rows)).
    { apply Forall_map. eapply Forall_impl; [|exact Hinv]. intros r [_ [_ H1]]. apply srow_step_inv. exact H1. }
    pose proof (IHfuel _ _ _ Hinv' H) as F. apply Forall2_map_l in F.
    eapply Forall2_weaken; [|exact F]. intros r d [Hd [x Hx]]. split; [exact Hd|]. exists x. rewrite srow_step_f in Hx. exact Hx.
  - cbn [fst] in H. inversion H; subst ds. apply orb_false_iff in G. destruct G as [G1 G2]. apply PeanoNat.Nat.eqb_neq in G1.
    assert (G2' : forall r, In r rows -> srow_above tol r = false).
    { intros r Hr. destruct (srow_above tol r) eqn:E; [|reflexivity].
      assert (existsb (srow_above tol) rows = true) by (apply existsb_exists; exists r; split; assumption). congruence. }
    clear H G2. induction rows as [|r rows IH]; cbn [map]; constructor.
    + inversion Hinv as [|? ? [Ha [Hb Hc]] ?]; subst. split; [exact Hc|]. exists (srow_d0 r). split; [exact Hb|].
      rewrite <- (Ha G1). specialize (G2' r (or_introl eq_refl)). unfold srow_above in G2'. apply Rltb_false in G2'. exact G2'.
    + apply IH; [inversion Hinv; assumption|]. intros x Hx. apply G2'. right. exact Hx.
Qed.
Lemma secant_batch_exit_on_surface fs tol limit ds : fst (intersect_parametric_batch fs tol limit) = BHit ds ->
  Forall2 (fun f d => 0 <= d /\ exists x, 0 <= x /\ Rabs (f x) <= tol) fs ds.
Proof.
  intros H. unfold intersect_parametric_batch in H. apply secant_batch_rows in H.
  - apply Forall2_map_l in H. eapply Forall2_weaken; [|exact H]. intros f d Hr. exact Hr.
  - apply Forall_map. apply Forall_forall. intros f _. unfold srow_inv, srow_init. cbn. split; [intros E; contradiction E; reflexivity|lra].
Qed.
(* hence a batch containing a ray that misses is flagged as a whole *)
Lemma secant_batch_miss_flagged fs tol limit f : In f fs -> (forall x, 0 <= x -> tol < Rabs (f x)) ->
  fst (intersect_parametric_batch fs tol limit) = BFlagged.
Proof.
  intros Hin Hm. destruct (secant_batch_bounded fs tol limit) as [Hb _].
  destruct (fst (intersect_parametric_batch fs tol limit)) eqn:E; [|reflexivity|contradiction].
  pose proof (secant_batch_exit_on_surface fs tol limit ds E) as F. exfalso.
  clear E Hb. induction F as [|g d fs' ds' Hgd F IH]; [contradiction|].
  destruct Hin as [->|Hin]; [|apply IH; exact Hin].
  destruct Hgd as [_ [x [Hx Hf]]]. specialize (Hm x Hx). lra.
Qed.
(* the unrepaired condition |max(e)| lets a row with a large negative error go *)
Lemma guard2_unrepaired_refuted : exists tol e0 e1, guard2_unrepaired tol e0 e1 = false /\ tol < Rabs e0.
Proof.
  exists (1/2), (-1), 0. split.
  - unfold guard2_unrepaired. apply Rltb_false. rewrite Rmax_right by lra. rewrite Rabs_R0. lra.
  - rewrite Rabs_left; lra.
Qed.
Lemma guard2_rows tol r0 r1 : existsb (srow_above tol) [r0; r1] = guard2 tol (srow_e1 r0) (srow_e1 r1).
Proof. cbn [existsb]. unfold srow_above, guard2. rewrite orb_false_r. reflexivity. Qed.
Lemma Rmax_above tol x y : Rltb tol (Rmax x y) = orb (Rltb tol x) (Rltb tol y).
Proof.
  unfold Rmax. destruct (Rle_dec x y).
  - destruct (Rltb tol y) eqn:E; [rewrite orb_true_r; reflexivity|]. rewrite orb_false_r. symmetry. apply Rltb_false. apply Rltb_false in E. lra.
  - destruct (Rltb tol x) eqn:E; [reflexivity|]. cbn. symmetry. apply Rltb_false. apply Rltb_false in E. lra.
Qed.
