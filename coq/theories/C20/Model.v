(* C20 — library calls never modify the caller's arrays, lists or default arguments.

   Model: a small imperative IR into which harness/tracer translate every odak function
   (tracer/mutir.py, SSA form, callee bodies inlined), a relational heap semantics for it, and an
   executable may-alias / mutation checker.  Definitions only; proofs are in Lemmas.v.

   Objects live at locations.  An object has a content word and a list of references to other
   objects (a list's items, a dict's values, an instance's attributes; an array buffer has none;
   views share the location of their base).  "Bit for bit unchanged" is equality of the whole
   object record, and — through the references — of everything reachable from it. *)
From Coq Require Import List Arith Bool NArith Lia.
Import ListNotations.

Definition var := N.
Definition loc := nat.

Inductive stmt :=
| SSkip
| SFresh (x : var)                    (* x := newly allocated object(s): arithmetic, np.array, clone, zeros, ... *)
| SAlias (x : var) (ys : list var)    (* x := the very object (or a view of it) one of ys denotes, or a new object *)
| SLoad  (x : var) (ys : list var)    (* x := an object reachable from one of ys (list item, dict value, attribute,
                                         loop element, result of a call that may return its arguments' parts), or new *)
| SMut   (x : var)                    (* the content of x's object is overwritten in place (x -= .., x[i] = number, x.mul_()) *)
| SStore (x : var) (ys : list var)    (* container update x[i] = y / x.append(y) / x.a = y: x's object is rewritten and
                                         may from now on refer to objects reachable from ys *)
| SSeq (a b : stmt)
| SIf (a b : stmt)
| SLoop (a : stmt).

(* a block of statements *)
Definition seq (l : list stmt) : stmt := fold_right SSeq SSkip l.

Record obj := { val : nat; refs : list loc }.
Record st := { env : var -> option loc; heap : loc -> obj; next : loc }.

Definition updv {A} (f : var -> A) (k : var) (v : A) : var -> A := fun i => if N.eqb i k then v else f i.
Definition updl {A} (f : loc -> A) (k : loc) (v : A) : loc -> A := fun i => if Nat.eqb i k then v else f i.

Definition bind (s : st) (x : var) (l : loc) : st := {| env := updv (env s) x (Some l); heap := heap s; next := next s |}.
Definition write (s : st) (l : loc) (o : obj) : st := {| env := env s; heap := updl (heap s) l o; next := next s |}.

(* reachability through references *)
Inductive reach (h : loc -> obj) : loc -> loc -> Prop :=
| reach_refl l : reach h l l
| reach_step l m k : In m (refs (h l)) -> reach h m k -> reach h l k.

(* any number of new objects may be allocated by any primitive step; new objects refer to new objects only *)
Definition alloc (s s' : st) : Prop :=
  env s' = env s /\ next s <= next s' /\
  (forall l, l < next s -> heap s' l = heap s l) /\
  (forall l, next s <= l < next s' -> forall r, In r (refs (heap s' l)) -> next s <= r < next s').

Definition is_new (s s' : st) (l : loc) : Prop := next s <= l < next s'.
Definition reach_from (s : st) (ys : list var) (l : loc) : Prop :=
  exists y l0, In y ys /\ env s y = Some l0 /\ reach (heap s) l0 l.
Definition denoted_by (s : st) (ys : list var) (l : loc) : Prop :=
  exists y, In y ys /\ env s y = Some l.

(* Relational semantics: contents written are arbitrary, branch choice and loop counts are arbitrary,
   results of aliasing operations are any of the permitted objects, and every statement may stop
   without effect (EStop: exceptions, early return, break/continue) — a superset of the behaviours of
   the Python code. *)
Inductive exec : stmt -> st -> st -> Prop :=
| EStop p s : exec p s s
| EFresh x s s' l : alloc s s' -> is_new s s' l -> exec (SFresh x) s (bind s' x l)
| EAlias x ys s s' l : alloc s s' -> is_new s s' l \/ denoted_by s ys l -> exec (SAlias x ys) s (bind s' x l)
| ELoad x ys s s' l : alloc s s' -> is_new s s' l \/ reach_from s ys l -> exec (SLoad x ys) s (bind s' x l)
| EMut x s l c : env s x = Some l -> exec (SMut x) s (write s l {| val := c; refs := refs (heap s l) |})
| EStore x ys s s' l o : alloc s s' -> env s x = Some l ->
    (forall r, In r (refs o) -> In r (refs (heap s l)) \/ is_new s s' r \/ reach_from s ys r) ->
    exec (SStore x ys) s (write s' l o)
| ESeq a b s1 s2 s3 : exec a s1 s2 -> exec b s2 s3 -> exec (SSeq a b) s1 s3
| EIfL a b s1 s2 : exec a s1 s2 -> exec (SIf a b) s1 s2
| EIfR a b s1 s2 : exec b s1 s2 -> exec (SIf a b) s1 s2
| ELoop a s1 s2 s3 : exec a s1 s2 -> exec (SLoop a) s2 s3 -> exec (SLoop a) s1 s3.

(* no dangling references *)
Definition wf (s : st) : Prop :=
  (forall x l, env s x = Some l -> l < next s) /\
  (forall l, l < next s -> forall r, In r (refs (heap s l)) -> r < next s).

(* ------------------------------------------------------------------ the checker *)
(* Two flow-insensitive taint sets over SSA variables:
     own   : x may DENOTE an object that existed before the call
     reach : x may denote an object from which a pre-existing object is reachable, or which is
             reachable from such an object (closed under connectivity, both directions)        *)
Definition mem (x : var) (t : list var) : bool := existsb (N.eqb x) t.
Definition anyin (t xs : list var) : bool := existsb (fun v => mem v t) xs.
Definition allin (t xs : list var) : bool := forallb (fun v => mem v t) xs.
Definition nonein (t xs : list var) : bool := forallb (fun v => negb (mem v t)) xs.
Definition sym (tr xs : list var) : bool := allin tr xs || nonein tr xs.

Fixpoint ok (town tr : list var) (p : stmt) : bool :=
  match p with
  | SSkip | SFresh _ => true
  | SAlias x ys => implb (anyin town ys) (mem x town) && sym tr (x :: ys)
  | SLoad x ys => implb (anyin tr ys) (mem x town) && sym tr (x :: ys)
  | SMut x => negb (mem x town)
  | SStore x ys => negb (mem x town) && sym tr (x :: ys)
  | SSeq a b | SIf a b => ok town tr a && ok town tr b
  | SLoop a => ok town tr a
  end.

(* taint inference: least sets containing the seeds and closed under the rules `ok` checks;
   `ok` re-validates the result, so nothing about `infer` is trusted *)
Definition add (x : var) (t : list var) : list var := if mem x t then t else x :: t.
Definition addall (xs t : list var) : list var := fold_right add t xs.

Fixpoint pass (p : stmt) (tt : list var * list var) : list var * list var :=
  let '(town, tr) := tt in
  match p with
  | SSkip | SFresh _ | SMut _ => tt
  | SAlias x ys =>
      let tr' := if anyin tr (x :: ys) then addall (x :: ys) tr else tr in
      let town' := if anyin town ys then add x town else town in
      (town', if mem x town' then addall (x :: ys) tr' else tr')
  | SLoad x ys =>
      let tr' := if anyin tr (x :: ys) then addall (x :: ys) tr else tr in
      (if anyin tr' ys then add x town else town, tr')
  | SStore x ys =>
      (town, if anyin tr (x :: ys) then addall (x :: ys) tr else tr)
  | SSeq a b | SIf a b => pass b (pass a tt)
  | SLoop a => pass a tt
  end.

Fixpoint iter (fuel : nat) (p : stmt) (tt : list var * list var) : list var * list var :=
  match fuel with
  | O => tt
  | S f => let tt' := pass p tt in
           if (length (fst tt') =? length (fst tt)) && (length (snd tt') =? length (snd tt)) then tt'
           else iter f p tt'
  end.

Fixpoint size (p : stmt) : nat :=
  match p with
  | SSeq a b | SIf a b => S (size a + size b)
  | SLoop a => S (size a)
  | _ => 1
  end.

Definition infer (params : list var) (p : stmt) : list var * list var :=
  iter (S (size p)) p (addall params [], addall params []).

(* the analysis verdict for one function: parameters (and module globals / default-argument objects,
   which the translator lists among them) are the seeds *)
Definition check (params : list var) (p : stmt) : bool :=
  let '(town, tr) := infer params p in
  allin town params && allin tr town && ok town tr p.

(* the same verdict with taint sets supplied from outside (the harness computes them; `ok` validates them) *)
Record fn := { f_id : N; f_params : list var; f_own : list var; f_reach : list var; f_body : stmt }.
Definition fn_ok (f : fn) : bool :=
  allin (f_own f) (f_params f) && allin (f_reach f) (f_own f) && ok (f_own f) (f_reach f) (f_body f).

(* variables the checker blames (for the report): targets of SMut / SStore that may denote an old object *)
Fixpoint blamed (town : list var) (p : stmt) : list var :=
  match p with
  | SMut x | SStore x _ => if mem x town then [x] else []
  | SSeq a b | SIf a b => blamed town a ++ blamed town b
  | SLoop a => blamed town a
  | _ => []
  end.
Definition blame (params : list var) (p : stmt) : list var := blamed (fst (infer params p)) p.
Definition fn_blame (f : fn) : list var := blamed (f_own f) (f_body f).

(* ------------------------------------------------------------------ what "unchanged" means *)
(* deep snapshot of an object: its content and, recursively, the snapshots of what it refers to *)
Inductive tree := Leaf | Node (v : nat) (kids : list tree).
Fixpoint snap (h : loc -> obj) (fuel : nat) (l : loc) : tree :=
  match fuel with
  | O => Leaf
  | S f => Node (val (h l)) (map (snap h f) (refs (h l)))
  end.

(* a session: any sequence of calls of checked functions; each call receives arguments that are
   objects existing at that moment (the caller's variables, default-argument objects, globals) *)
Record call := { c_body : stmt; c_args : var -> option loc }.
Definition enter (e : var -> option loc) (s : st) : st := {| env := e; heap := heap s; next := next s |}.
Definition accepted (c : call) (bound : loc) : Prop :=
  exists town tr, incl town tr /\ ok town tr (c_body c) = true /\
    forall x l, c_args c x = Some l -> l < bound /\ In x town.

Inductive session : list call -> st -> st -> Prop :=
| session_nil s : session [] s s
| session_cons c cs s s' s'' :
    accepted c (next s) -> exec (c_body c) (enter (c_args c) s) s' -> session cs s' s'' ->
    session (c :: cs) s s''.

(* sessions without the acceptance premise (used by the per-run tie, which supplies it per function) *)
Inductive session_args : list call -> st -> st -> Prop :=
| sa_nil s : session_args [] s s
| sa_cons c cs s s' s'' :
    (forall x l, c_args c x = Some l -> l < next s) ->
    exec (c_body c) (enter (c_args c) s) s' -> session_args cs s' s'' ->
    session_args (c :: cs) s s''.

(* ------------------------------------------------------------------ reference programs *)
Local Open Scope N_scope.
(* odak.tools.rotate_point as shipped:  point = np.asarray(point); point -= np.asarray(origin); ... *)
Definition rotate_point_shipped : stmt :=
  SSeq (SAlias 10 [0]) (SSeq (SAlias 11 [3]) (SSeq (SMut 10) (SFresh 12))).
(* repaired:  point = np.array(point, dtype = float) - np.asarray(origin) *)
Definition rotate_point_repaired : stmt :=
  SSeq (SFresh 10) (SSeq (SAlias 11 [3]) (SSeq (SFresh 13) (SSeq (SMut 13) (SFresh 12)))).
(* out = []; out.append(point); q = out[0]; q *= 2   — mutation through a fresh container *)
Definition through_container : stmt :=
  SSeq (SFresh 10) (SSeq (SStore 10 [0]) (SSeq (SLoad 11 [10]) (SMut 11))).
(* out = []; out.append(point); out.append(1); r = point + 1; r += 1 — harmless *)
Definition harmless_container : stmt :=
  SSeq (SFresh 10) (SSeq (SStore 10 [0]) (SSeq (SStore 10 []) (SSeq (SFresh 11) (SMut 11)))).
