(* C20 — property theorems only.  Each is closed by `exact` of a lemma from Lemmas.v.

   Reading: `exec p s1 s2` is any run of a function body `p` (IR of Model.v) from the moment of the call
   (`s1`: the parameters — explicit arguments, default-argument objects, module globals — are bound to
   objects existing in the caller's heap) to its return; `ok town tr p` is the mutation checker that the
   harness evaluates, on every run, on the IR translated from the current /repo source of every function. *)
From Coq Require Import List Arith Bool NArith.
From OdakV Require Import C20.Model C20.Lemmas.
Import ListNotations.

(* every object that existed before the call — arguments, their parts, default-argument objects —
   is bit for bit the same after the call *)
Theorem C20_analysis_sound : forall town tr p s1 s2,
  incl town tr -> ok town tr p = true -> wf s1 ->
  (forall x l, env s1 x = Some l -> In x town) ->
  exec p s1 s2 ->
  forall l, l < next s1 -> heap s2 l = heap s1 l.
Proof. exact analysis_sound. Qed.

(* the same through the verdict function `check` that the harness evaluates by vm_compute *)
Theorem C20_check_sound : forall params p s1 s2,
  check params p = true -> wf s1 ->
  (forall x l, env s1 x = Some l -> In x params) ->
  exec p s1 s2 ->
  forall l, l < next s1 -> heap s2 l = heap s1 l.
Proof. exact check_sound. Qed.

(* and with taint sets supplied from outside (what the per-run tie file evaluates for every odak function) *)
Theorem C20_fn_ok_sound : forall f s1 s2,
  fn_ok f = true -> wf s1 ->
  (forall x l, env s1 x = Some l -> In x (f_params f)) ->
  exec (f_body f) s1 s2 ->
  forall l, l < next s1 -> heap s2 l = heap s1 l.
Proof. exact fn_ok_sound. Qed.

(* deep snapshots (content and, recursively, everything referred to) of all pre-existing objects agree *)
Theorem C20_deep_unchanged : forall town tr p s1 s2,
  incl town tr -> ok town tr p = true -> wf s1 ->
  (forall x l, env s1 x = Some l -> In x town) ->
  exec p s1 s2 ->
  forall fuel l, l < next s1 -> snap (heap s2) fuel l = snap (heap s1) fuel l.
Proof. exact deep_unchanged. Qed.

(* all call sequences: after any session of accepted calls, each receiving objects that exist at the
   moment of its call, every object that existed at the start is unchanged *)
Theorem C20_session_unchanged : forall cs s s',
  wf s -> session cs s s' ->
  wf s' /\ next s <= next s' /\ forall l, l < next s -> heap s' l = heap s l.
Proof. exact session_unchanged. Qed.

(* consequently a second call with the same arguments returns the same result, for any function whose
   result is determined by the deep snapshots of its arguments (documented randomness aside) *)
Theorem C20_repeat_call_same_result : forall (A : Type) (f : list tree -> A) town tr p s1 s2 args fuel,
  incl town tr -> ok town tr p = true -> wf s1 ->
  (forall x l, env s1 x = Some l -> In x town) ->
  exec p s1 s2 ->
  Forall (fun l => l < next s1) args ->
  f (map (snap (heap s2) fuel) args) = f (map (snap (heap s1) fuel) args).
Proof. exact repeat_call_same_result. Qed.

(* the shipped body of odak.tools.rotate_point (np.asarray + in-place -=) violates the property in the
   model: there is a run that changes the caller's array, and the checker rejects it, blaming `point` *)
Theorem C20_rotate_point_shipped_refuted :
  ~ (forall s1 s2, wf s1 -> (forall x l, env s1 x = Some l -> In x rp_params) ->
       exec rotate_point_shipped s1 s2 -> forall l, l < next s1 -> heap s2 l = heap s1 l).
Proof. exact shipped_refuted. Qed.
Theorem C20_rotate_point_shipped_rejected :
  check rp_params rotate_point_shipped = false /\ blame rp_params rotate_point_shipped = [10%N].
Proof. exact (conj shipped_rejected shipped_blame). Qed.

(* the repaired body (work on a copy) satisfies it *)
Theorem C20_rotate_point_repaired_holds : forall s1 s2,
  wf s1 -> (forall x l, env s1 x = Some l -> In x rp_params) ->
  exec rotate_point_repaired s1 s2 -> forall l, l < next s1 -> heap s2 l = heap s1 l.
Proof. exact repaired_holds. Qed.

(* mutation through a freshly built container is a real behaviour of the semantics, and is rejected;
   merely storing the argument in a fresh container is accepted *)
Theorem C20_container_flow :
  (exists s2, exec through_container st0 s2 /\ heap s2 0 <> heap st0 0) /\
  check [0%N] through_container = false /\ check [0%N] harmless_container = true.
Proof. exact (conj container_mutates (conj container_rejected harmless_accepted)). Qed.

(* non-vacuity: an accepted program, a well-formed caller state whose bound variables are the
   parameters, and a run that allocates and writes (so the theorem's hypotheses are satisfiable
   by a non-trivial execution) *)
Example C20_instance :
  check rp_params harmless_container = true /\ wf st0 /\
  (forall x l, env st0 x = Some l -> In x rp_params) /\
  exists s2, exec harmless_container st0 s2 /\ next st0 < next s2 /\ heap s2 2 <> heap st0 2.
Proof. exact (conj harmless_accepted_rp (conj st0_wf (conj st0_params harmless_runs))). Qed.
