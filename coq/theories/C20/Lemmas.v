(* C20 — proofs: soundness of the mutation checker of Model.v for the heap semantics. *)
From Coq Require Import List Arith Bool NArith Lia.
From OdakV Require Import C20.Model.
Import ListNotations.

(* ------------------------------------------------------------------ boolean reflection *)
Lemma mem_In x t : mem x t = true <-> In x t.
Proof.
  unfold mem. rewrite existsb_exists. split.
  - intros [y [Hy E]]. apply N.eqb_eq in E. subst. exact Hy.
  - intros H. exists x. split; [exact H|apply N.eqb_refl].
Qed.

Lemma mem_nIn x t : mem x t = false <-> ~ In x t.
Proof. rewrite <- mem_In. destruct (mem x t); split; congruence. Qed.

Lemma anyin_spec t xs : anyin t xs = true <-> exists v, In v xs /\ In v t.
Proof.
  unfold anyin. rewrite existsb_exists. split; intros [v [A B]]; exists v; split; auto; apply mem_In; auto.
Qed.

Lemma allin_spec t xs : allin t xs = true <-> forall v, In v xs -> In v t.
Proof.
  unfold allin. rewrite forallb_forall. split; intros H v Hv; apply mem_In; auto.
Qed.

Lemma nonein_spec t xs : nonein t xs = true <-> forall v, In v xs -> ~ In v t.
Proof.
  unfold nonein. rewrite forallb_forall. split; intros H v Hv.
  - apply mem_nIn. apply negb_true_iff. auto.
  - apply negb_true_iff. apply mem_nIn. auto.
Qed.

Lemma sym_spec tr xs : sym tr xs = true -> forall a b, In a xs -> In b xs -> (In a tr <-> In b tr).
Proof.
  unfold sym. intros H a b Ha Hb. apply orb_prop in H. destruct H as [H|H].
  - rewrite allin_spec in H. split; intros _; apply H; assumption.
  - rewrite nonein_spec in H. split; intros X; exfalso; [apply (H a Ha X)|apply (H b Hb X)].
Qed.

(* ------------------------------------------------------------------ well-formedness is preserved *)
Lemma reach_bound s l k : wf s -> l < next s -> reach (heap s) l k -> k < next s.
Proof.
  intros [_ W] Hl R. induction R; auto. apply IHR. eapply W; eauto.
Qed.

Lemma updv_eq {A} (f : var -> A) k v : updv f k v k = v.
Proof. unfold updv. rewrite N.eqb_refl. reflexivity. Qed.

Lemma updl_eq {A} (f : loc -> A) k v : updl f k v k = v.
Proof. unfold updl. rewrite Nat.eqb_refl. reflexivity. Qed.

Lemma updl_neq {A} (f : loc -> A) k v i : i <> k -> updl f k v i = f i.
Proof. unfold updl. intros H. apply Nat.eqb_neq in H. rewrite H. reflexivity. Qed.

(* ------------------------------------------------------------------ the invariant *)
Inductive region := Old | Dirty | Clean.

Definition compat (a b : region) : Prop :=
  match a with Old => b = Old | Dirty => b <> Clean | Clean => b = Clean end.

Section Sound.
Variables (town tr : list var) (n0 : loc) (h0 : loc -> obj).
Hypothesis Hincl : incl town tr.

(* Old: existed before the call.  Dirty: allocated by the call, and connected (in either direction)
   to an old object.  Clean: allocated by the call and separated from every old object. *)
Definition reg (D : loc -> bool) (l : loc) : region :=
  if l <? n0 then Old else if D l then Dirty else Clean.

Record Inv (D : loc -> bool) (s : st) : Prop := {
  i_next : n0 <= next s;
  i_wf : wf s;
  i_old : forall l, l < n0 -> heap s l = h0 l;
  i_own : forall x l, env s x = Some l -> reg D l = Old -> In x town;
  i_tr : forall x l, env s x = Some l -> (In x tr <-> reg D l <> Clean);
  i_refs : forall l r, l < next s -> In r (refs (heap s l)) -> compat (reg D l) (reg D r)
}.

Lemma reg_old D l : reg D l = Old <-> l < n0.
Proof.
  unfold reg. destruct (l <? n0) eqn:E.
  - apply Nat.ltb_lt in E. tauto.
  - apply Nat.ltb_ge in E. split; [destruct (D l); discriminate|lia].
Qed.

Lemma reach_region D s l k : Inv D s -> l < next s -> reach (heap s) l k ->
  k < next s /\ (reg D l = Clean <-> reg D k = Clean).
Proof.
  intros I Hl R. induction R as [l|l m k Hm R IH].
  - tauto.
  - assert (Hm' : m < next s) by (destruct (i_wf _ _ I) as [_ W]; eapply W; eauto).
    destruct (IH Hm') as [Hk E]. split; [exact Hk|].
    pose proof (i_refs _ _ I l m Hl Hm) as C. rewrite <- E.
    unfold compat in C. destruct (reg D l), (reg D m); try tauto; try congruence;
      split; intros X; try discriminate; exfalso; apply C; reflexivity.
Qed.

(* extending the ghost classification over newly allocated objects *)
Definition extend (D : loc -> bool) (bound : loc) (b : bool) : loc -> bool :=
  fun l => if l <? bound then D l else b.

Lemma reg_extend_old D bound b l : l < bound -> reg (extend D bound b) l = reg D l.
Proof. intros H. unfold reg, extend. apply Nat.ltb_lt in H. rewrite H. reflexivity. Qed.

Lemma reg_extend_new D bound b l : n0 <= bound -> bound <= l ->
  reg (extend D bound b) l = if b then Dirty else Clean.
Proof.
  intros H1 H2. unfold reg, extend.
  assert (E1 : l <? n0 = false) by (apply Nat.ltb_ge; lia).
  assert (E2 : l <? bound = false) by (apply Nat.ltb_ge; lia).
  rewrite E1, E2. reflexivity.
Qed.

Lemma inv_alloc D s s' b : alloc s s' -> Inv D s -> Inv (extend D (next s) b) s'.
Proof.
  intros [He [Hn [Hh Hnew]]] I. destruct (i_wf _ _ I) as [W1 W2].
  pose proof (i_next _ _ I) as Hn0.
  constructor.
  - lia.
  - split.
    + intros x l E. rewrite He in E. apply W1 in E. lia.
    + intros l Hl r Hr. destruct (Nat.lt_ge_cases l (next s)) as [Lo|Hi].
      * rewrite Hh in Hr by exact Lo. specialize (W2 l Lo r Hr). lia.
      * assert (next s <= r < next s') by (apply (Hnew l); [lia|exact Hr]). lia.
  - intros l Hl. rewrite Hh by lia. apply (i_old _ _ I). exact Hl.
  - intros x l E R. rewrite He in E. pose proof (W1 _ _ E) as Lo.
    rewrite reg_extend_old in R by exact Lo. eapply (i_own _ _ I); eauto.
  - intros x l E. rewrite He in E. pose proof (W1 _ _ E) as Lo.
    rewrite reg_extend_old by exact Lo. apply (i_tr _ _ I). exact E.
  - intros l r Hl Hr. destruct (Nat.lt_ge_cases l (next s)) as [Lo|Hi].
    + rewrite Hh in Hr by exact Lo. pose proof (W2 l Lo r Hr) as Lr.
      rewrite !reg_extend_old by assumption. apply (i_refs _ _ I); assumption.
    + assert (Hr' : next s <= r < next s') by (apply (Hnew l); [lia|exact Hr]).
      rewrite !reg_extend_new by lia. destruct b; cbn; congruence.
Qed.

Lemma inv_bind D s x l : Inv D s -> l < next s ->
  (reg D l = Old -> In x town) -> (In x tr <-> reg D l <> Clean) -> Inv D (bind s x l).
Proof.
  intros I Hl Ho Ht. destruct (i_wf _ _ I) as [W1 W2]. constructor; cbn.
  - apply (i_next _ _ I).
  - split; cbn.
    + intros y k. unfold updv. destruct (N.eqb y x); intros E; [inversion E; subst; exact Hl|eauto].
    + exact W2.
  - apply (i_old _ _ I).
  - intros y k. unfold updv. destruct (N.eqb y x) eqn:Ex; intros E R.
    + inversion E; subst k. apply N.eqb_eq in Ex. subst y. auto.
    + eapply (i_own _ _ I); eauto.
  - intros y k. unfold updv. destruct (N.eqb y x) eqn:Ex; intros E.
    + inversion E; subst k. apply N.eqb_eq in Ex. subst y. exact Ht.
    + apply (i_tr _ _ I). exact E.
  - apply (i_refs _ _ I).
Qed.

Lemma inv_write D s l o : Inv D s -> l < next s -> reg D l <> Old ->
  (forall r, In r (refs o) -> r < next s /\ compat (reg D l) (reg D r)) -> Inv D (write s l o).
Proof.
  intros I Hl Hno Hr. destruct (i_wf _ _ I) as [W1 W2]. constructor; cbn.
  - apply (i_next _ _ I).
  - split; cbn.
    + exact W1.
    + intros k Hk r. unfold updl. destruct (Nat.eqb k l); intros X; [apply Hr in X; tauto|eauto].
  - intros k Hk. rewrite updl_neq; [apply (i_old _ _ I); exact Hk|].
    intros ->. apply Hno. apply reg_old. exact Hk.
  - apply (i_own _ _ I).
  - apply (i_tr _ _ I).
  - intros k r Hk. unfold updl. destruct (Nat.eqb k l) eqn:E; intros X.
    + apply Nat.eqb_eq in E. subst k. apply Hr in X. tauto.
    + apply (i_refs _ _ I); assumption.
Qed.

Lemma new_region D s s' b l : Inv D s -> is_new s s' l ->
  reg (extend D (next s) b) l = if b then Dirty else Clean.
Proof. intros I [H1 H2]. apply reg_extend_new; [apply (i_next _ _ I)|exact H1]. Qed.

Lemma mem_tr_region x (b : region) :
  (In x tr <-> (if mem x tr then Dirty else Clean) <> Clean).
Proof.
  destruct (mem x tr) eqn:E.
  - apply mem_In in E. split; [intros _; discriminate|intros _; exact E].
  - apply mem_nIn in E. split; [tauto|intros X; exfalso; apply X; reflexivity].
Qed.

Lemma step_inv p s1 s2 : exec p s1 s2 -> ok town tr p = true ->
  forall D, Inv D s1 -> exists D', Inv D' s2.
Proof.
  induction 1 as [p s|x s s' l Ha Hl|x ys s s' l Ha Hl|x ys s s' l Ha Hl|x s l c Hx
                 |x ys s s' l o Ha Hx Hr|a b s1 s2 s3 H1 IH1 H2 IH2|a b s1 s2 H1 IH1
                 |a b s1 s2 H1 IH1|a s1 s2 s3 H1 IH1 H2 IH2];
    cbn [ok]; intros Hok D I.
  - (* stop *) exists D. exact I.
  - (* fresh *)
    exists (extend D (next s) (mem x tr)).
    pose proof (inv_alloc D s s' (mem x tr) Ha I) as I'.
    pose proof (new_region D s s' (mem x tr) l I Hl) as R.
    apply inv_bind; [exact I'|destruct Hl; lia| |].
    + rewrite R. destruct (mem x tr); discriminate.
    + rewrite R. apply (mem_tr_region x Old).
  - (* alias *)
    apply andb_prop in Hok. destruct Hok as [Hown Hsym].
    exists (extend D (next s) (mem x tr)).
    pose proof (inv_alloc D s s' (mem x tr) Ha I) as I'.
    destruct Hl as [Hl|[y [Hy Ey]]].
    + pose proof (new_region D s s' (mem x tr) l I Hl) as R.
      apply inv_bind; [exact I'|destruct Hl; lia| |].
      * rewrite R. destruct (mem x tr); discriminate.
      * rewrite R. apply (mem_tr_region x Old).
    + destruct (i_wf _ _ I) as [W1 _]. pose proof (W1 _ _ Ey) as Lo.
      destruct Ha as [He [Hn _]].
      apply inv_bind; [exact I'|lia| |]; rewrite reg_extend_old by exact Lo.
      * intros R. apply mem_In.
        assert (A : anyin town ys = true).
        { apply anyin_spec. exists y. split; [exact Hy|]. eapply (i_own _ _ I); eauto. }
        rewrite A in Hown. exact Hown.
      * rewrite <- (i_tr _ _ I y l Ey).
        apply (sym_spec _ _ Hsym); [left; reflexivity|right; exact Hy].
  - (* load *)
    apply andb_prop in Hok. destruct Hok as [Hown Hsym].
    exists (extend D (next s) (mem x tr)).
    pose proof (inv_alloc D s s' (mem x tr) Ha I) as I'.
    destruct Hl as [Hl|[y [l0 [Hy [Ey R]]]]].
    + pose proof (new_region D s s' (mem x tr) l I Hl) as Rg.
      apply inv_bind; [exact I'|destruct Hl; lia| |].
      * rewrite Rg. destruct (mem x tr); discriminate.
      * rewrite Rg. apply (mem_tr_region x Old).
    + destruct (i_wf _ _ I) as [W1 _]. pose proof (W1 _ _ Ey) as Lo0.
      destruct (reach_region D s l0 l I Lo0 R) as [Lo E].
      pose proof (i_tr _ _ I y l0 Ey) as Ty.
      assert (Sxy : In x tr <-> In y tr)
        by (apply (sym_spec _ _ Hsym); [left; reflexivity|right; exact Hy]).
      destruct Ha as [He [Hn _]].
      apply inv_bind; [exact I'|lia| |]; rewrite reg_extend_old by exact Lo.
      * intros Ro. apply mem_In.
        assert (A : anyin tr ys = true).
        { apply anyin_spec. exists y. split; [exact Hy|]. apply Ty. intros C.
          apply E in C. congruence. }
        rewrite A in Hown. exact Hown.
      * rewrite Sxy, Ty. split; intros X C; apply X; apply E; exact C.
  - (* mut *)
    apply negb_true_iff in Hok. apply mem_nIn in Hok.
    exists D. destruct (i_wf _ _ I) as [W1 W2]. pose proof (W1 _ _ Hx) as Lo.
    apply inv_write; [exact I|exact Lo| |].
    + intros R. apply Hok. eapply (i_own _ _ I); eauto.
    + cbn. intros r Hr. split; [eapply W2; eauto|apply (i_refs _ _ I); assumption].
  - (* store *)
    apply andb_prop in Hok. destruct Hok as [Hno Hsym].
    apply negb_true_iff in Hno. apply mem_nIn in Hno.
    exists (extend D (next s) (mem x tr)).
    pose proof (inv_alloc D s s' (mem x tr) Ha I) as I'.
    destruct (i_wf _ _ I) as [W1 W2]. pose proof (W1 _ _ Hx) as Lo.
    pose proof (i_tr _ _ I x l Hx) as Tx.
    assert (NotOld : reg D l <> Old) by (intros R; apply Hno; eapply (i_own _ _ I); eauto).
    destruct Ha as [He [Hn [Hh Hnew]]].
    apply inv_write; [exact I'|lia|rewrite reg_extend_old by exact Lo; exact NotOld|].
    intros r Hr'. rewrite reg_extend_old by exact Lo.
    destruct (Hr r Hr') as [Hin|[Hnw|[y [l0 [Hy [Ey R]]]]]].
    + pose proof (W2 l Lo r Hin) as Lr. split; [lia|].
      rewrite reg_extend_old by exact Lr. apply (i_refs _ _ I); assumption.
    + split; [destruct Hnw; lia|].
      rewrite (new_region D s s' (mem x tr) r I Hnw).
      destruct (mem x tr) eqn:Mx.
      * apply mem_In in Mx. apply Tx in Mx. unfold compat.
        destruct (reg D l); try congruence; discriminate.
      * apply mem_nIn in Mx. unfold compat.
        destruct (reg D l) eqn:Rl; try congruence.
        exfalso. apply Mx. apply Tx. discriminate.
    + pose proof (W1 _ _ Ey) as Lo0.
      destruct (reach_region D s l0 r I Lo0 R) as [Lr E].
      split; [lia|]. rewrite reg_extend_old by exact Lr.
      pose proof (i_tr _ _ I y l0 Ey) as Ty.
      assert (Sxy : In x tr <-> In y tr)
        by (apply (sym_spec _ _ Hsym); [left; reflexivity|right; exact Hy]).
      unfold compat. destruct (reg D l) eqn:Rl; try congruence.
      * (* dirty *) intros C. apply E in C.
        assert (In x tr) by (apply Tx; discriminate).
        assert (In y tr) by (apply Sxy; assumption).
        apply Ty in H0. congruence.
      * (* clean *) apply E. destruct (reg D l0) eqn:R0; try reflexivity; exfalso.
        -- assert (In y tr) by (apply Ty; discriminate). apply Sxy in H. apply Tx in H. congruence.
        -- assert (In y tr) by (apply Ty; discriminate). apply Sxy in H. apply Tx in H. congruence.
  - (* seq *)
    apply andb_prop in Hok. destruct Hok as [Oa Ob].
    destruct (IH1 Oa D I) as [D1 I1]. exact (IH2 Ob D1 I1).
  - apply andb_prop in Hok. destruct Hok as [Oa Ob]. exact (IH1 Oa D I).
  - apply andb_prop in Hok. destruct Hok as [Oa Ob]. exact (IH1 Ob D I).
  - (* loop *)
    destruct (IH1 Hok D I) as [D1 I1]. exact (IH2 Hok D1 I1).
Qed.

End Sound.

Lemma reg_old' n D l : l < n -> reg n D l = Old.
Proof. unfold reg. intros H. apply Nat.ltb_lt in H. rewrite H. reflexivity. Qed.

(* ------------------------------------------------------------------ the main theorem *)
Theorem analysis_sound town tr p s1 s2 :
  incl town tr -> ok town tr p = true -> wf s1 ->
  (forall x l, env s1 x = Some l -> In x town) ->
  exec p s1 s2 ->
  forall l, l < next s1 -> heap s2 l = heap s1 l.
Proof.
  intros Hincl Hok W Hp Hex l Hl.
  assert (I : Inv town tr (next s1) (heap s1) (fun _ => false) s1).
  { destruct W as [W1 W2]. constructor.
    - lia.
    - split; assumption.
    - reflexivity.
    - intros x k E _. eauto.
    - intros x k E. pose proof (W1 _ _ E) as Lo.
      assert (R : reg (next s1) (fun _ => false) k = Old) by (apply reg_old'; exact Lo).
      rewrite R. split; [intros _; discriminate|intros _; apply Hincl; eauto].
    - intros k r Hk Hr. pose proof (W2 k Hk r Hr) as Lr.
      assert (R1 : reg (next s1) (fun _ => false) k = Old) by (apply reg_old'; exact Hk).
      assert (R2 : reg (next s1) (fun _ => false) r = Old) by (apply reg_old'; exact Lr).
      rewrite R1, R2. reflexivity. }
  destruct (step_inv town tr (next s1) (heap s1) p s1 s2 Hex Hok _ I) as [D' I'].
  apply (i_old _ _ _ _ _ _ I'). exact Hl.
Qed.

Lemma exec_wf_next town tr p s1 s2 :
  incl town tr -> ok town tr p = true -> wf s1 ->
  (forall x l, env s1 x = Some l -> In x town) ->
  exec p s1 s2 -> wf s2 /\ next s1 <= next s2.
Proof.
  intros Hincl Hok W Hp Hex.
  assert (I : Inv town tr (next s1) (heap s1) (fun _ => false) s1).
  { destruct W as [W1 W2]. constructor.
    - lia.
    - split; assumption.
    - reflexivity.
    - intros x k E _. eauto.
    - intros x k E. pose proof (W1 _ _ E) as Lo.
      assert (R : reg (next s1) (fun _ => false) k = Old) by (apply reg_old'; exact Lo).
      rewrite R. split; [intros _; discriminate|intros _; apply Hincl; eauto].
    - intros k r Hk Hr. pose proof (W2 k Hk r Hr) as Lr.
      assert (R1 : reg (next s1) (fun _ => false) k = Old) by (apply reg_old'; exact Hk).
      assert (R2 : reg (next s1) (fun _ => false) r = Old) by (apply reg_old'; exact Lr).
      rewrite R1, R2. reflexivity. }
  destruct (step_inv town tr (next s1) (heap s1) p s1 s2 Hex Hok _ I) as [D' I'].
  split; [apply (i_wf _ _ _ _ _ _ I')|apply (i_next _ _ _ _ _ _ I')].
Qed.

(* the analysis verdict computed by `check` implies the hypotheses of analysis_sound *)
Lemma check_sound params p s1 s2 :
  check params p = true -> wf s1 ->
  (forall x l, env s1 x = Some l -> In x params) ->
  exec p s1 s2 ->
  forall l, l < next s1 -> heap s2 l = heap s1 l.
Proof.
  unfold check. destruct (infer params p) as [town tr]. intros H W Hp Hex.
  apply andb_prop in H. destruct H as [H Hok]. apply andb_prop in H. destruct H as [Hpar Hinc].
  rewrite allin_spec in Hpar, Hinc.
  apply (analysis_sound town tr p s1 s2); auto.
  intros x l E. apply Hpar. eapply Hp. exact E.
Qed.

Lemma fn_ok_sound f s1 s2 :
  fn_ok f = true -> wf s1 ->
  (forall x l, env s1 x = Some l -> In x (f_params f)) ->
  exec (f_body f) s1 s2 ->
  forall l, l < next s1 -> heap s2 l = heap s1 l.
Proof.
  unfold fn_ok. intros H W Hp Hex.
  apply andb_prop in H. destruct H as [H Hok]. apply andb_prop in H. destruct H as [Hpar Hinc].
  rewrite allin_spec in Hpar, Hinc.
  apply (analysis_sound (f_own f) (f_reach f) (f_body f) s1 s2); auto.
  intros x l E. apply Hpar. eapply Hp. exact E.
Qed.

(* ------------------------------------------------------------------ deep snapshots *)
Lemma snap_unchanged (h1 h2 : loc -> obj) (n : loc) :
  (forall l, l < n -> h2 l = h1 l) ->
  (forall l, l < n -> forall r, In r (refs (h1 l)) -> r < n) ->
  forall fuel l, l < n -> snap h2 fuel l = snap h1 fuel l.
Proof.
  intros He Hc fuel. induction fuel as [|f IH]; intros l Hl; cbn; [reflexivity|].
  rewrite (He l Hl). f_equal. apply map_ext_in. intros r Hr. apply IH. eapply Hc; eauto.
Qed.

Theorem deep_unchanged town tr p s1 s2 :
  incl town tr -> ok town tr p = true -> wf s1 ->
  (forall x l, env s1 x = Some l -> In x town) ->
  exec p s1 s2 ->
  forall fuel l, l < next s1 -> snap (heap s2) fuel l = snap (heap s1) fuel l.
Proof.
  intros Hincl Hok W Hp Hex fuel l Hl.
  apply snap_unchanged with (n := next s1); auto.
  - intros k Hk. eapply analysis_sound; eauto.
  - destruct W as [_ W2]. exact W2.
Qed.

(* ------------------------------------------------------------------ sessions of calls *)
Lemma wf_enter e s : wf s -> (forall x l, e x = Some l -> l < next s) -> wf (enter e s).
Proof. intros [W1 W2] He. split; cbn; assumption. Qed.

Theorem session_unchanged cs : forall s s',
  wf s -> session cs s s' ->
  wf s' /\ next s <= next s' /\ forall l, l < next s -> heap s' l = heap s l.
Proof.
  induction cs as [|c cs IH]; intros s s' W Hs.
  - inversion Hs; subst. split; [exact W|split; [lia|reflexivity]].
  - inversion Hs as [|c0 cs0 s0 s1 s2 [town [tr [Hincl [Hok Hargs]]]] Hex Hrest]; subst.
    assert (We : wf (enter (c_args c) s))
      by (apply wf_enter; [exact W|intros x l E; apply Hargs in E; tauto]).
    assert (Hp : forall x l, env (enter (c_args c) s) x = Some l -> In x town)
      by (cbn; intros x l E; apply Hargs in E; tauto).
    destruct (exec_wf_next town tr _ _ _ Hincl Hok We Hp Hex) as [W1 N1]. cbn in N1.
    destruct (IH s1 s' W1 Hrest) as [W' [N' H']].
    split; [exact W'|split; [lia|]]. intros l Hl. rewrite H' by lia.
    apply (analysis_sound town tr _ _ _ Hincl Hok We Hp Hex l). cbn. exact Hl.
Qed.

(* ------------------------------------------------------------------ repeated calls *)
(* If a function's result is determined by the deep snapshots of its arguments (the function body's
   own determinism: documented randomness aside), then calling it again gives the same result,
   because the snapshots the second call sees are those the first call saw. *)
Theorem repeat_call_same_result (A : Type) (f : list tree -> A) town tr p s1 s2 args fuel :
  incl town tr -> ok town tr p = true -> wf s1 ->
  (forall x l, env s1 x = Some l -> In x town) ->
  exec p s1 s2 ->
  Forall (fun l => l < next s1) args ->
  f (map (snap (heap s2) fuel) args) = f (map (snap (heap s1) fuel) args).
Proof.
  intros Hincl Hok W Hp Hex Ha. f_equal. apply map_ext_in. intros l Hl.
  rewrite Forall_forall in Ha. eapply deep_unchanged; eauto.
Qed.

(* ------------------------------------------------------------------ the reference programs *)
Local Open Scope N_scope.
Definition rp_params : list var := [0; 1; 2; 3; 4].

Lemma shipped_rejected : check rp_params rotate_point_shipped = false.
Proof. vm_compute. reflexivity. Qed.
Lemma repaired_accepted : check rp_params rotate_point_repaired = true.
Proof. vm_compute. reflexivity. Qed.
Lemma container_rejected : check [0] through_container = false.
Proof. vm_compute. reflexivity. Qed.
Lemma harmless_accepted : check [0] harmless_container = true.
Proof. vm_compute. reflexivity. Qed.
Lemma harmless_accepted_rp : check rp_params harmless_container = true.
Proof. vm_compute. reflexivity. Qed.
Lemma shipped_blame : blame rp_params rotate_point_shipped = [10].
Proof. vm_compute. reflexivity. Qed.

Definition obj0 : obj := {| val := 0%nat; refs := [] |}.
Definition st0 : st :=
  {| env := fun x => if N.eqb x 0 then Some 0%nat else if N.eqb x 3 then Some 1%nat else None;
     heap := fun _ => obj0; next := 2%nat |}.

Lemma st0_wf : wf st0.
Proof.
  split; cbn.
  - intros x l. destruct (N.eqb x 0); [intros E; inversion E; lia|].
    destruct (N.eqb x 3); [intros E; inversion E; lia|discriminate].
  - intros l _ r [].
Qed.

Lemma st0_params : forall x l, env st0 x = Some l -> In x rp_params.
Proof.
  cbn. intros x l. destruct (N.eqb x 0) eqn:E0.
  - apply N.eqb_eq in E0. subst. intros _. left. reflexivity.
  - destruct (N.eqb x 3) eqn:E3; [|discriminate].
    apply N.eqb_eq in E3. subst. intros _. right. right. right. left. reflexivity.
Qed.

Lemma alloc_refl s : alloc s s.
Proof. repeat split; auto; lia. Qed.

(* the shipped rotate_point has an execution that changes the caller's array *)
Lemma shipped_mutates : exists s2, exec rotate_point_shipped st0 s2 /\ heap s2 0%nat <> heap st0 0%nat.
Proof.
  eexists. split.
  - unfold rotate_point_shipped.
    eapply ESeq.
    { apply (EAlias 10 [0] st0 st0 0%nat (alloc_refl _)). right. exists 0. split; [left; reflexivity|reflexivity]. }
    eapply ESeq; [apply EStop|].
    eapply ESeq; [|apply EStop].
    apply (EMut 10 _ 0%nat 1%nat). reflexivity.
  - cbn. discriminate.
Qed.

(* storing the argument into a fresh list and mutating the list's item changes the caller's array *)
Lemma container_mutates : exists s2, exec through_container st0 s2 /\ heap s2 0%nat <> heap st0 0%nat.
Proof.
  set (s1 := {| env := env st0; heap := heap st0; next := 3%nat |}).
  assert (A1 : alloc st0 s1).
  { unfold alloc; cbn. split; [reflexivity|]. split; [lia|]. split; [intros; reflexivity|]. intros l _ r []. }
  set (s2 := bind s1 10 2%nat).
  set (s3 := write s2 2%nat {| val := 0%nat; refs := [0%nat] |}).
  set (s4 := bind s3 11 0%nat).
  exists (write s4 0%nat {| val := 1%nat; refs := refs (heap s4 0%nat) |}). split.
  - unfold through_container.
    eapply ESeq. { apply (EFresh 10 st0 s1 2%nat A1). unfold is_new; cbn; lia. }
    eapply ESeq.
    { apply (EStore 10 [0] s2 s2 2%nat {| val := 0%nat; refs := [0%nat] |} (alloc_refl _)); [reflexivity|].
      intros r [<-|[]]. right. right. exists 0, 0%nat. split; [left; reflexivity|]. split; [reflexivity|apply reach_refl]. }
    eapply ESeq.
    { apply (ELoad 11 [10] s3 s3 0%nat (alloc_refl _)). right. exists 10, 2%nat.
      split; [left; reflexivity|]. split; [reflexivity|].
      eapply reach_step; [|apply reach_refl]. cbn. left. reflexivity. }
    apply (EMut 11 s4 0%nat 1%nat). reflexivity.
  - cbn. discriminate.
Qed.

(* so the full-strength statement is false for the shipped body, and true for the repaired one *)
Lemma shipped_refuted :
  ~ (forall s1 s2, wf s1 -> (forall x l, env s1 x = Some l -> In x rp_params) ->
       exec rotate_point_shipped s1 s2 -> forall l, (l < next s1)%nat -> heap s2 l = heap s1 l).
Proof.
  intros H. destruct shipped_mutates as [s2 [Hex Hne]]. apply Hne.
  apply (H st0 s2 st0_wf st0_params Hex). cbn. lia.
Qed.

Lemma repaired_holds : forall s1 s2, wf s1 -> (forall x l, env s1 x = Some l -> In x rp_params) ->
  exec rotate_point_repaired s1 s2 -> forall l, (l < next s1)%nat -> heap s2 l = heap s1 l.
Proof. intros s1 s2. apply check_sound. exact repaired_accepted. Qed.

(* non-vacuity of analysis_sound: an accepted program, a well-formed state binding parameters to
   existing objects, and an execution that really allocates and writes *)
Lemma harmless_runs : exists s2, exec harmless_container st0 s2 /\ (next st0 < next s2)%nat /\
  heap s2 2%nat <> heap st0 2%nat.
Proof.
  set (s1 := {| env := env st0; heap := heap st0; next := 3%nat |}).
  assert (A1 : alloc st0 s1).
  { unfold alloc; cbn. split; [reflexivity|]. split; [lia|]. split; [intros; reflexivity|]. intros l _ r []. }
  set (s2 := bind s1 10 2%nat).
  exists (write s2 2%nat {| val := 7%nat; refs := [0%nat] |}). split; [|split].
  - unfold harmless_container.
    eapply ESeq. { apply (EFresh 10 st0 s1 2%nat A1). unfold is_new; cbn; lia. }
    eapply ESeq; [|apply EStop].
    apply (EStore 10 [0] s2 s2 2%nat {| val := 7%nat; refs := [0%nat] |} (alloc_refl _)); [reflexivity|].
    intros r [<-|[]]. right. right. exists 0, 0%nat. split; [left; reflexivity|]. split; [reflexivity|apply reach_refl].
  - cbn. lia.
  - cbn. discriminate.
Qed.
