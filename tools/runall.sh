#!/bin/bash
# runs every claimed check's quick command on /repo (sequentially, or -P n in parallel) and prints one line each
cd /verif
par=${1:-1}
/venv/bin/python -c "import json;print('\n'.join(c['property_id'] for c in json.load(open('MANIFEST.json'))['checks']))" | \
  xargs -P $par -I{} sh -c 'out=$(./check {} 2>&1); rc=$?; echo "{} exit=$rc $(echo "$out" | grep -c "^VIOLATION") violations, $(echo "$out" | grep -c "^KNOWN-FINDING") known | $(echo "$out" | tail -1)"'
