#!/bin/bash
# second-wave seeded changes under ${SEED_DIR:-/tmp/seed_out2} (Cxx_4, Cxx_5, ...): confirm and check each; properties in parallel, seeds of one property in turn
# usage: tools/seedbatch2.sh [Cxx ...]
mkdir -p ${SEED_DIR:-/tmp/seed_out2}/results
props="$@"; [ -z "$props" ] && props=$(ls ${SEED_DIR:-/tmp/seed_out2} | grep -E '^C[0-9]+_[0-9]+$' | cut -d_ -f1 | sort -u)
one() { prop=$1; SD=${SEED_DIR:-/tmp/seed_out2}
  for d in ${SEED_DIR:-/tmp/seed_out2}/${prop}_[0-9]; do name=$(basename $d)
    [ -f $d/meta.json ] && [ -f $d/patch.diff ] && [ -f $d/demo.py ] || continue
    [ -f ${SEED_DIR:-/tmp/seed_out2}/results/$name.json ] && continue
    /verif/tools/seedcheck.py $d $prop --keep /verif/seeded/$name --notests > ${SEED_DIR:-/tmp/seed_out2}/results/$name.json 2>&1
    echo "$name: $(grep -o '"detected": [a-z]*' ${SEED_DIR:-/tmp/seed_out2}/results/$name.json) applies=$(grep -o '"patch_applies": [a-z]*' ${SEED_DIR:-/tmp/seed_out2}/results/$name.json | cut -d' ' -f2) demo=$(grep -o '"demo_patched_exit": [0-9]*' ${SEED_DIR:-/tmp/seed_out2}/results/$name.json | cut -d' ' -f2) pristine=$(grep -o '"demo_pristine_exit": [0-9]*' ${SEED_DIR:-/tmp/seed_out2}/results/$name.json | cut -d' ' -f2)"
  done; }
export -f one
echo $props | tr ' ' '\n' | xargs -P 5 -I{} bash -c 'one {}'
