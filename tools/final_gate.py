#!/venv/bin/python
"""Scans ALL of /verif/coq (theories and tie files) for forbidden vernacular; exit 1 if anything is found."""
import os, sys
sys.path.insert(0, '/verif')
from harness.common import gate_scan, COQ, VERIF
bad = []
for root, _, files in os.walk(COQ):
    for f in files:
        if f.endswith('.v'):
            p = os.path.join(root, f)
            bad += gate_scan(open(p).read(), os.path.relpath(p, VERIF))
print('\n'.join(bad) if bad else 'gate clean: no Admitted/admit/Axiom/Parameter/Conjecture/unguarded Variable/Hypothesis in coq/')
sys.exit(1 if bad else 0)
