#!/venv/bin/python
"""Scans ALL of /verif/coq (theories and tie files) for forbidden vernacular; exit 1 if anything is found."""
import os, sys
sys.path.insert(0, '/verif')
from harness.common import gate_scan, COQ, VERIF
bad = []
for root, _, files in os.walk(COQ):
    for f in files:
        if f.endswith('.v'):
            p = os.path.join(root, f)
            bad += gate_scan(open(p).read(), os.path.relpath(p, VERIF))
print('\n'.join(bad) if bad else 'gate clean: no Admitted/admit/Axiom/Parameter/Conjecture/unguarded Variable/Hypothesis in coq/')
# schemas (jsonschema lives in the tooling venv python3-vt)
import subprocess
code = '''
import json, jsonschema, glob, sys
jsonschema.validate(json.load(open("/verif/MANIFEST.json")), json.load(open("/root/.vp/MANIFEST.schema.json")))
es = json.load(open("/root/.vp/EVIDENCE.schema.json")); n = 0
claimed = {c["property_id"] for c in json.load(open("/verif/MANIFEST.json"))["checks"]}
for f in sorted(glob.glob("/verif/evidence/*.json")):
    e = json.load(open(f)); jsonschema.validate(e, es); n += 1
    if e.get("violations"): print("evidence with violations:", f); sys.exit(1)
missing = claimed - {f.split("/")[-1][:-5] for f in glob.glob("/verif/evidence/*.json")}
if missing: print("claimed without evidence:", sorted(missing)); sys.exit(1)
print("MANIFEST.json and %d evidence files validate against the schemas" % n)
'''
rc = subprocess.run(['python3-vt', '-c', code]).returncode
sys.exit(1 if bad or rc else 0)
