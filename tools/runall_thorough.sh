#!/bin/bash
# thorough tier of the named (default: all claimed) checks on /repo, -P 3; one result line each; full logs in build/thorough/
cd /verif; mkdir -p build/thorough
props="$@"; [ -z "$props" ] && props=$(/venv/bin/python -c "import json;print(' '.join(c['property_id'] for c in json.load(open('MANIFEST.json'))['checks']))")
echo $props | tr ' ' '\n' | xargs -P ${TPAR:-3} -I{} sh -c 's=$(date +%s); ./check {} --tier thorough > build/thorough/{}.log 2>&1; rc=$?; echo "{} exit=$rc $(grep -c "^VIOLATION" build/thorough/{}.log) violations wall=$(( $(date +%s) - s ))s | $(tail -1 build/thorough/{}.log | cut -c1-160)"'
