#!/venv/bin/python
"""prints the markdown table of confirmed seeded changes (seeded/<id>/meta.json) for DESIGN.md section 11.6"""
import json, os, re
rows = []; rrows = []
for d in sorted(os.listdir('/verif/seeded')):
    p = os.path.join('/verif/seeded', d, 'meta.json')
    if not os.path.exists(p): continue
    m = json.load(open(p))
    c = m.get('check', {})
    if re.match(r'^C\d+_r\d+$', d):
        what = (m.get('summary') or m.get('description') or m.get('what') or '')[:230].replace('|', '/').replace('\n', ' ')
        rrows.append('| %s | %s | %s |' % (d, what, 'exit 0 (no alarm)' if c.get('exit') == 0 else (('superseded: ' + c.get('note', '')) if c.get('stale') else '**exit %s**' % c.get('exit'))))
        continue
    fv = c.get('first_violation', '')
    mm = re.search(r'violation: (.+?) / (\S+) input=', fv)
    clause = ('oracle clause `%s` (%s)' % (mm.group(2), mm.group(1).split('.')[-1])) if mm else ''
    ob = sorted({re.sub(r'^\[C\d+\s+[\d.]+s\] OBLIGATION FAILED: ', '', o).split(' ')[0].split('(')[0] for o in c.get('broken_obligations', [])})
    ob = [o for o in ob if not o.startswith('gate')]
    by = '; '.join(([clause] if clause else []) + (['broken: ' + ', '.join(ob[:4])] if ob else []))
    if not c.get('detected'): by = '**NOT detected**'
    rows.append('| %s | %s | %s | %s |' % (d, (m.get('summary') or '')[:150].replace('|', '/'), (m.get('needs') or '')[:110].replace('|', '/'), by[:230]))
print('| id | change | needs | caught by |\n|---|---|---|---|')
print('\n'.join(rows))
print()
print('| id | behaviour-preserving rewrite | check on the rewritten tree |\n|---|---|---|')
print('\n'.join(rrows))
