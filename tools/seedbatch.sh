#!/bin/bash
# process every seeded change under /tmp/seed_out that has a meta.json and no result yet
mkdir -p /tmp/seed_out/results
for d in /tmp/seed_out/C??_?; do
  [ -f $d/meta.json ] && [ -f $d/patch.diff ] && [ -f $d/demo.py ] || continue
  name=$(basename $d); prop=${name%%_*}
  [ -f /tmp/seed_out/results/$name.json ] && continue
  [ -f /verif/harness/props/$(echo $prop | tr A-Z a-z).py ] || continue
  /verif/tools/seedcheck.py $d $prop --keep /verif/seeded/$name "$@" > /tmp/seed_out/results/$name.json 2>&1
  echo "$name: $(grep -o '"detected": [a-z]*' /tmp/seed_out/results/$name.json) $(grep -o '"tests_pass": [a-z]*' /tmp/seed_out/results/$name.json) demo=$(grep -o '"demo_patched_exit": [0-9]*' /tmp/seed_out/results/$name.json)"
done
