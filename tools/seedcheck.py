#!/venv/bin/python
"""Confirm a seeded change and run a check against it.
usage: tools/seedcheck.py <dir with patch.diff demo.py meta.json> <Cxx> [--keep /verif/seeded/<name>] [--tier quick]
Steps (all in a scratch worktree under /tmp, removed afterwards; /repo's own working tree is not touched):
  1. demo.py exits 0 on the pristine tree; 2. patch applies; 3. demo.py exits != 0 on the patched tree;
  4. the tests listed in meta.json still pass on the patched tree; 5. ODAK_REPO=<patched> ./check Cxx must exit 1 with a VIOLATION line.
Prints a JSON summary; with --keep copies the artefacts to /verif/seeded/<name>/ and records what was run."""
import json, os, shutil, subprocess, sys, time

def sh(cmd, cwd=None, env=None, timeout=3000):
    p = subprocess.run(cmd, shell=True, cwd=cwd, env=env, stdout=subprocess.PIPE, stderr=subprocess.STDOUT, text=True, timeout=timeout)
    return p.returncode, p.stdout

def main():
    d, prop = sys.argv[1], sys.argv[2]
    keep = sys.argv[sys.argv.index('--keep') + 1] if '--keep' in sys.argv else None
    tier = sys.argv[sys.argv.index('--tier') + 1] if '--tier' in sys.argv else 'quick'
    meta = json.load(open(os.path.join(d, 'meta.json')))
    wt = '/tmp/seedcheck_%d' % os.getpid()
    sh('git -C /repo worktree add --detach %s HEAD -f' % wt)
    res = {'dir': d, 'property': prop}
    try:
        env = dict(os.environ, PYTHONPATH=wt, PYTHONWARNINGS='ignore', TQDM_DISABLE='1')
        rc0, o0 = sh('/venv/bin/python %s' % os.path.join(d, 'demo.py'), cwd=wt, env=env)
        res['demo_pristine_exit'] = rc0
        rc, o = sh('git apply %s' % os.path.abspath(os.path.join(d, 'patch.diff')), cwd=wt)
        res['patch_applies'] = rc == 0
        if rc != 0: res['patch_error'] = o[-500:]
        rc1, o1 = sh('/venv/bin/python %s' % os.path.join(d, 'demo.py'), cwd=wt, env=env)
        res['demo_patched_exit'] = rc1; res['demo_patched_tail'] = o1[-400:]
        tests = [t for t in meta.get('tests_run', []) if os.path.exists(os.path.join(wt, t))]
        if tests and '--notests' not in sys.argv:
            rct, ot = sh('/venv/bin/python -m pytest -q -p no:cacheprovider --timeout=900 %s' % ' '.join(tests), cwd=wt, env=dict(env, PYTHONPATH=wt))
            res['tests'] = tests; res['tests_pass'] = rct == 0; res['tests_tail'] = ot[-300:]
        t0 = time.time()
        rcc, oc = sh('./check %s --tier %s' % (prop, tier), cwd='/verif', env=dict(os.environ, ODAK_REPO=wt))
        res['check_exit'] = rcc; res['check_wall_s'] = round(time.time() - t0, 1)
        res['violation_lines'] = [l for l in oc.split('\n') if l.startswith('VIOLATION')][:6]
        res['first_violation'] = next((l for l in oc.split('\n') if '] violation:' in l), '')[:600]
        res['broken_obligations'] = [l[:200] for l in oc.split('\n') if 'OBLIGATION FAILED' in l][:8]
        res['detected'] = rcc == 1 and bool(res['violation_lines'])
    finally:
        sh('git -C /repo worktree remove --force %s' % wt)
    if keep:
        os.makedirs(keep, exist_ok=True)
        for f in ('patch.diff', 'demo.py'):
            if os.path.abspath(d) != os.path.abspath(keep): shutil.copy(os.path.join(d, f), os.path.join(keep, f))
        old = meta.get('confirmed', {})
        meta.update({'confirmed': dict(old, **{k: res.get(k) for k in ('demo_pristine_exit', 'demo_patched_exit', 'patch_applies', 'tests', 'tests_pass') if k in res}),
                     'check': {k: res.get(k) for k in ('check_exit', 'detected', 'violation_lines', 'first_violation', 'broken_obligations', 'check_wall_s')},
                     'what_was_run': 'tools/seedcheck.py: demo on pristine and patched scratch worktree, listed tests on the patched tree, ODAK_REPO=<patched worktree> ./check %s --tier %s' % (prop, tier)})
        json.dump(meta, open(os.path.join(keep, 'meta.json'), 'w'), indent=1)
    print(json.dumps(res, indent=1))

if __name__ == '__main__':
    main()
