#!/bin/bash
# re-run every kept seeded fault (seeded/Cxx_N) against the CURRENT machinery: properties in parallel, seeds of one property in turn
# usage: tools/reseed.sh [Cxx ...]   (default: all); result lines under /verif/build/reseed/
mkdir -p /verif/build/reseed
props="$@"; [ -z "$props" ] && props=$(ls /verif/seeded | grep -E '^C[0-9]+_[0-9]+$' | cut -d_ -f1 | sort -u)
one() { prop=$1
  for d in /verif/seeded/${prop}_[0-9]; do name=$(basename $d)
    /verif/tools/seedcheck.py $d $prop --keep $d --notests > /verif/build/reseed/$name.json 2>&1
    echo "$name: $(grep -o '"detected": [a-z]*' /verif/build/reseed/$name.json) applies=$(grep -o '"patch_applies": [a-z]*' /verif/build/reseed/$name.json | cut -d' ' -f2) demo=$(grep -o '"demo_patched_exit": [0-9]*' /verif/build/reseed/$name.json | cut -d' ' -f2)"
  done; }
export -f one
echo $props | tr ' ' '\n' | xargs -P 5 -I{} bash -c 'one {}'
