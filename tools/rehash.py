#!/venv/bin/python
"""after cherry-picking: tools/rehash.py Cxx old1=new1 old2=new2 ... rewrites the commit hashes in findings/Cxx.json and notes/Cxx_report.md"""
import sys, re
prop = sys.argv[1]
pairs = [a.split('=') for a in sys.argv[2:]]
for path in ('/verif/findings/%s.json' % prop, '/verif/notes/%s_report.md' % prop, '/verif/harness/props/%s.meta.json' % prop.lower()):
    try: s = open(path).read()
    except FileNotFoundError: continue
    for o, n in pairs: s = s.replace(o, n)
    open(path, 'w').write(s)
print('ok')
