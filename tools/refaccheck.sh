#!/bin/bash
# for every harmless refactoring under ${REFAC_DIR:-/tmp/refac_out} (Cxx_rN with meta.json): apply in a scratch worktree, run ODAK_REPO=<wt> ./check Cxx,
# expect exit 0 (no alarm on code where the property holds); result line + JSON under ${REFAC_DIR:-/tmp/refac_out}/results; artefacts kept in /verif/seeded/<id>
mkdir -p ${REFAC_DIR:-/tmp/refac_out}/results
for d in ${REFAC_DIR:-/tmp/refac_out}/C??_r?; do
  [ -f $d/meta.json ] && [ -f $d/patch.diff ] || continue
  name=$(basename $d); prop=${name%%_*}
  [ -f ${REFAC_DIR:-/tmp/refac_out}/results/$name.txt ] && continue
  wt=/tmp/refaccheck_$$
  git -C /repo worktree add --detach $wt HEAD -f >/dev/null 2>&1
  if git -C $wt apply $d/patch.diff 2>${REFAC_DIR:-/tmp/refac_out}/results/$name.err; then
    out=$(cd /verif && ODAK_REPO=$wt ./check $prop 2>&1); rc=$?
    echo "$out" > ${REFAC_DIR:-/tmp/refac_out}/results/$name.log
    echo "$name exit=$rc $(echo "$out" | grep -c '^VIOLATION') violations | $(echo "$out" | grep 'OBLIGATION FAILED' | head -3 | cut -c1-160 | tr '\n' ' ')" | tee ${REFAC_DIR:-/tmp/refac_out}/results/$name.txt
    mkdir -p /verif/seeded/$name && cp $d/patch.diff /verif/seeded/$name/ && [ -f $d/equiv.py ] && cp $d/equiv.py /verif/seeded/$name/
    /venv/bin/python - "$d/meta.json" "/verif/seeded/$name/meta.json" "$rc" "$prop" <<'PY'
import json, sys
m = json.load(open(sys.argv[1])); m['check'] = {'exit': int(sys.argv[3]), 'expected_exit': 0, 'false_alarm': int(sys.argv[3]) != 0}
m['what_was_run'] = 'tools/refaccheck.sh: patch applied in a scratch worktree, ODAK_REPO=<worktree> ./check %s --tier quick' % sys.argv[4]
json.dump(m, open(sys.argv[2], 'w'), indent=1)
PY
  else
    echo "$name patch-does-not-apply" | tee ${REFAC_DIR:-/tmp/refac_out}/results/$name.txt
  fi
  git -C /repo worktree remove --force $wt >/dev/null 2>&1
done
