#!/venv/bin/python
"""for every kept seeded change: apply the patch in a scratch worktree and run the tests its meta.json lists (known-slow render test
excluded; it does not assert anything about results); records confirmed.tests / tests_pass / tests_tail in seeded/<id>/meta.json"""
import json, os, subprocess, sys
from concurrent.futures import ThreadPoolExecutor
SLOW = {'test/test_learn_ray_render.py'}
STABLE = {'test/' + t.split('::')[0].split('.', 1)[1] + '.py' for t in json.load(open('/root/.vp/BASELINE.json'))['stable_pass']}   # the pinned suite; tests outside it already fail offline on the unchanged tree
def sh(cmd, cwd=None, env=None, timeout=6000):
    p = subprocess.run(cmd, shell=True, cwd=cwd, env=env, stdout=subprocess.PIPE, stderr=subprocess.STDOUT, text=True, timeout=timeout)
    return p.returncode, p.stdout
def one(name):
    d = os.path.join('/verif/seeded', name); mp = os.path.join(d, 'meta.json')
    m = json.load(open(mp))
    if m.get('confirmed', {}).get('tests_pass') is True and '--force' not in sys.argv: return name, 'already'
    wt = '/tmp/seedtests_%s' % name
    sh('git -C /repo worktree add --detach %s HEAD -f' % wt)
    try:
        rc, o = sh('git apply %s' % os.path.join(d, 'patch.diff'), cwd=wt)
        if rc != 0: return name, 'patch does not apply: ' + o[-200:]
        tests = [t.split('::')[0] for t in m.get('tests_run', [])]
        tests = sorted({t for t in tests if os.path.exists(os.path.join(wt, t)) and t not in SLOW and t in STABLE})
        env = dict(os.environ, PYTHONPATH=wt, PYTHONWARNINGS='ignore', TQDM_DISABLE='1', OMP_NUM_THREADS='4')
        rc, o = sh('/venv/bin/python -m pytest -q -p no:cacheprovider --timeout=900 %s' % ' '.join(tests), cwd=wt, env=env) if tests else (0, 'no test file listed')
        m.setdefault('confirmed', {}).update({'tests': tests, 'tests_pass': rc == 0, 'tests_tail': o[-300:], 'tests_excluded_slow': sorted(SLOW & set(m.get('tests_run', [])))})
        json.dump(m, open(mp, 'w'), indent=1)
        return name, 'pass' if rc == 0 else 'FAIL ' + o[-300:]
    finally:
        sh('git -C /repo worktree remove --force %s' % wt)
names = sorted(n for n in os.listdir('/verif/seeded') if os.path.exists(os.path.join('/verif/seeded', n, 'meta.json')))
with ThreadPoolExecutor(max_workers=4) as ex:
    for n, r in ex.map(one, names): print(n, r, flush=True)
